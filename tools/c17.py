#!/usr/bin/env python3
"""C17 driver: builds the cargo-fuzz targets (AddressSanitizer) from /repo's working tree, runs
fixed-work libFuzzer campaigns from the committed seed corpus, writes evidence/C17.json.
usage: tools/c17.py quick|thorough        tools/c17.py replay <artifact>"""
import glob, json, os, shutil, subprocess, sys, time

ROOT = os.path.dirname(os.path.dirname(os.path.abspath(__file__)))
FZ = os.path.join(ROOT, "fz")
ENV = dict(os.environ, CARGO_NET_OFFLINE="true")
TARGETS = {
    # target: (quick runs per job, thorough runs per job, max_len)
    "index_ops": (6_000, 60_000, 2048),
    "simd_kernels": (100_000, 2_000_000, 1024),
}
# every index_ops job has a helper thread that spins during in-flight cancellation sections:
# 8 jobs = 16 busy threads on the 16 cores (14 jobs made libFuzzer report slow units)
JOBS = {"quick": 4, "thorough": 8}


def fingerprint():
    import hashlib
    h = hashlib.sha256()
    roots = [("/repo", ["engine", "Cargo.toml", "Cargo.lock"]), (FZ, ["fuzz/Cargo.toml", "fuzz/Cargo.lock", "fuzz/build.rs", "fuzz/fuzz_targets"])]
    for base, items in roots:
        files = []
        for it in items:
            p = os.path.join(base, it)
            if os.path.isdir(p):
                for d, dn, fn in os.walk(p):
                    if "/target" in d or d.endswith("/fuzz") and base == "/repo" or "/engine/fuzz" in d:
                        continue
                    files += [os.path.join(d, f) for f in fn]
            elif os.path.isfile(p):
                files.append(p)
        for f in sorted(files):
            h.update(f.encode())
            try:
                h.update(open(f, "rb").read())
            except OSError:
                pass
    return h.hexdigest()


def build():
    # same reason as in ./check: the engine's build script makes cargo rebuild it every time;
    # skip only when a content hash over all inputs equals the one of the last successful build
    fp = fingerprint()
    stamp = os.path.join(FZ, "fuzz", "target", ".inputs.sha256")
    if os.path.isfile(stamp) and open(stamp).read().strip() == fp and all(os.path.isfile(binary(t)) for t in TARGETS):
        return
    r = subprocess.run(["cargo", "+nightly", "fuzz", "build"], cwd=FZ, env=ENV, stdout=subprocess.PIPE, stderr=subprocess.STDOUT, text=True)
    if r.returncode != 0:
        print(r.stdout[-3000:])
        print("INCONCLUSIVE: cargo fuzz build failed")
        sys.exit(2)
    open(stamp, "w").write(fp)


def binary(t):
    return os.path.join(FZ, "fuzz", "target", "x86_64-unknown-linux-gnu", "release", t)


def replay(path):
    build()
    name = os.path.basename(path)
    t = next((x for x in TARGETS if x in name), None)
    if t is None:
        print("not a C17 artifact:", path)
        sys.exit(2)
    r = subprocess.run([binary(t), path], env=ENV, stdout=subprocess.PIPE, stderr=subprocess.STDOUT, text=True)
    print(r.stdout[-4000:])
    if r.returncode != 0:
        print(f"VIOLATION property=C17 replay={path}")
        sys.exit(1)
    print("replay: property held on this case")
    sys.exit(0)


def main():
    if len(sys.argv) >= 3 and sys.argv[1] == "replay":
        replay(sys.argv[2])
    tier = sys.argv[1] if len(sys.argv) > 1 else "quick"
    seed = int(os.environ.get("VERIF_SEED", "1") or "1")
    if seed == 0:
        seed = 1  # libFuzzer: 0 means random
    scale = float(os.environ.get("KVH_SCALE", "1"))
    t0 = time.time()
    build()
    work = os.path.join(ROOT, "target", f"fz-work.{os.getpid()}")
    shutil.rmtree(work, ignore_errors=True)
    out_dir = os.path.join(ROOT, "replays", "out")
    os.makedirs(out_dir, exist_ok=True)
    parts, violations, inconclusive, samples = {}, [], [], []
    tot_eval = tot_nontriv = 0
    counters = {}
    for t, (qr, tr, max_len) in TARGETS.items():
        runs = max(100, int((qr if tier == "quick" else tr) * scale))
        jobs = JOBS[tier]
        corpus = os.path.join(work, t, "corpus")
        os.makedirs(corpus, exist_ok=True)
        for f in glob.glob(os.path.join(FZ, "fuzz", "seeds", t, "*")):
            shutil.copy(f, corpus)
        prefix = os.path.join(out_dir, f"C17-{t}-")
        stats = os.path.join(work, t, "stats")
        env = dict(ENV, KVFZ_STATS=stats, ASAN_OPTIONS="detect_leaks=0:abort_on_error=1:symbolize=1")
        cmd = [binary(t), corpus, f"-runs={runs}", f"-seed={seed}", f"-max_len={max_len}", "-len_control=0", "-timeout=120", "-rss_limit_mb=6000",
               f"-artifact_prefix={prefix}", f"-jobs={jobs}", f"-workers={jobs}", "-print_final_stats=1"]
        budget = 1800 if tier == "quick" else 4 * 3600
        try:
            r = subprocess.run(cmd, cwd=os.path.join(work, t), env=env, stdout=subprocess.PIPE, stderr=subprocess.STDOUT, text=True, timeout=budget, start_new_session=True)
        except subprocess.TimeoutExpired:
            subprocess.run(["pkill", "-9", "-f", os.path.join(work, t, "corpus")])
            inconclusive.append(f"{t}: campaign exceeded its {budget} s wall-clock budget (watchdog; not judged)")
            r = subprocess.CompletedProcess(cmd, 0, "", "")
        logs = "".join(open(f).read() for f in glob.glob(os.path.join(work, t, "fuzz-*.log")))
        arts = sorted(glob.glob(prefix + "*"))
        crash = [a for a in arts if os.path.basename(a)[len(f"C17-{t}-"):].startswith(("crash-", "leak-"))]
        slow = [a for a in arts if os.path.basename(a)[len(f"C17-{t}-"):].startswith(("timeout-", "oom-"))]
        # a slow unit (libFuzzer's -report_slow_units, 10 s) completed and was judged like any other
        # input: it is a fact about the machine's load, counted and removed, not a result
        slow_units = [a for a in arts if os.path.basename(a)[len(f"C17-{t}-"):].startswith("slow-unit-")]
        for a in slow_units:
            os.remove(a)
        counters[f"{t}:slow_units_reported_by_libfuzzer(completed, judged, not a result)"] = len(slow_units)
        for a in crash:
            violations.append(a)
            why = [l for l in logs.splitlines() if "KVFZ-ORACLE-FAILURE" in l or "ERROR: AddressSanitizer" in l or "SUMMARY:" in l]
            print(f"[C17:{t}] violation: {'; '.join(why[:3])[:600]}")
        for a in slow:
            inconclusive.append(f"{t}: libFuzzer saved {os.path.basename(a)} (time-out / memory limit)")
        if r.returncode != 0 and not crash and not slow:
            inconclusive.append(f"{t}: fuzzer exited with {r.returncode} without an artifact: {(r.stdout or '')[-400:]}")
        it = nt = dn = 0
        cs = {}
        for sf in glob.glob(stats + ".*"):
            for line in open(sf):
                k, _, v = line.strip().partition("=")
                if k == "iterations":
                    it += int(v)
                elif k == "nontrivial":
                    nt += int(v)
                elif k == "distinct_nontrivial":
                    dn += int(v)
                elif k == "sample":
                    if len(samples) < 8:
                        samples.append({"part": t, "case": v})
                elif k.startswith("c"):
                    cs[k] = cs.get(k, 0) + int(v)
        names = {"index_ops": {"c0": "add_vector_calls", "c1": "parallel_batch_inserts", "c2": "searches", "c3": "cancelled_searches", "c4": "concurrent_reader_sections", "c5": "iterations_with_engine_panic(not_UB)", "c6": "in_flight_cancellation_sections(4 swept delays, then a second tiny index)", "c7": "cancelled_searches_that_returned_short(the flag landed in flight or earlier)"},
                 "simd_kernels": {"c0": "lengths_not_multiple_of_16", "c5": "iterations_with_panic(not_UB)"}}[t]
        for k, v in cs.items():
            if k in names:
                counters[f"{t}:{names[k]}"] = v
        cov = [l for l in logs.splitlines() if " cov: " in l]
        parts[t] = {"evaluations": it, "distinct_nontrivial": dn, "exhaustive": False, "jobs": jobs, "runs_per_job": runs, "last_status_line": (cov[-1].strip()[:160] if cov else "")}
        tot_eval += it
        tot_nontriv += dn
    ev = {
        "property_id": "C17",
        "level": "exploration",
        "tier": tier,
        "seed": seed,
        "coverage": {
            "evaluations": tot_eval,
            "distinct_nontrivial": tot_nontriv,
            "rule": "index_ops: an iteration is non-trivial if at least one search ran on an index holding >= 2 vectors; simd_kernels: slices of length >= 1; distinct = distinct input byte strings (FNV hash) per fuzzing job, summed over jobs",
            "samples": samples,
            "parts": parts,
            "counters": counters,
            "excluded": {},
            "known_finding_hits": {},
        },
        "assumptions": [
            "AddressSanitizer build (cargo-fuzz, nightly) of the engine from the working tree; debug assertions on",
            "the index runs with the kernel the CPU dispatch selects (AVX-512 here); the other kernels (scalar, SSE2, AVX2) are exercised directly through a copy of simd.rs included into the target",
            "libFuzzer -seed pins a campaign only approximately when several jobs share a corpus directory; saved artifacts are the reproducible unit",
            "a panic inside the engine is counted, not reported: it is not undefined behaviour",
        ],
        "violations": len(violations),
        "violation_replays": violations,
        "inconclusive": inconclusive,
        "wall_s": round(time.time() - t0, 1),
    }
    os.makedirs(os.path.join(ROOT, "evidence"), exist_ok=True)
    json.dump(ev, open(os.path.join(ROOT, "evidence", "C17.json"), "w"), indent=1)
    shutil.rmtree(work, ignore_errors=True)
    print(f"[C17] tier={tier} seed={seed} evaluations={tot_eval} distinct_nontrivial={tot_nontriv} violations={len(violations)} wall={time.time()-t0:.1f}s")
    for v in violations:
        print(f"VIOLATION property=C17 replay={v}")
    if violations:
        sys.exit(1)
    if inconclusive:
        for i in inconclusive:
            print("INCONCLUSIVE:", i)
        sys.exit(2)
    sys.exit(0)


main()
