#!/usr/bin/env python3
"""Re-run every confirmed seeded change against the quick tier of the checks that claim to catch it.
Applies seeded/<id>/patch.diff to /repo, runs ./check <C> quick, reverts. Writes seeded/MATRIX.json
and seeded/MATRIX.md. Must run alone: it modifies /repo's working tree while it runs."""
import glob, json, os, subprocess, sys, time
ROOT = os.path.dirname(os.path.dirname(os.path.abspath(__file__)))
only = sys.argv[1:]
rows = []
ev_backup = os.path.join(ROOT, "target", "evidence.backup")
subprocess.run(["rm", "-rf", ev_backup]); subprocess.run(["cp", "-r", os.path.join(ROOT, "evidence"), ev_backup])
for d in sorted(glob.glob(os.path.join(ROOT, "seeded", "*", "meta.json"))):
    sid = os.path.basename(os.path.dirname(d))
    if only and sid not in only:
        continue
    meta = json.load(open(d))
    while os.path.exists("/tmp/pause"):
        time.sleep(10)
    patch = os.path.join(os.path.dirname(d), "patch.diff")
    st = subprocess.run(["git", "-C", "/repo", "status", "--short"], capture_output=True, text=True).stdout.strip()
    if st:
        print("refusing: /repo working tree is not clean:", st); sys.exit(2)
    if subprocess.run(["git", "-C", "/repo", "apply", patch]).returncode != 0:
        rows.append({"seeded": sid, "applies": False}); continue
    res = {}
    try:
        for c in meta.get("caught_by_quick_checks", []) or [meta["property"]]:
            t0 = time.time()
            r = subprocess.run([os.path.join(ROOT, "check"), c, "quick"], cwd=ROOT, capture_output=True, text=True)
            viol = [l for l in r.stdout.splitlines() if l.startswith("VIOLATION")]
            res[c] = {"exit": r.returncode, "violations": len(viol), "seconds": round(time.time() - t0, 1)}
    finally:
        subprocess.run(["git", "-C", "/repo", "checkout", "--", "."])
        subprocess.run(["rm", "-rf", os.path.join(ROOT, "replays", "out")])
    rows.append({"seeded": sid, "applies": True, "checks": res, "caught": any(v["exit"] == 1 and v["violations"] > 0 for v in res.values())})
    print(sid, res, flush=True)
# evidence written during mutation runs describes mutated trees: restore the clean-tree evidence
subprocess.run(["rm", "-rf", os.path.join(ROOT, "evidence")]); subprocess.run(["mv", ev_backup, os.path.join(ROOT, "evidence")])
if not only:
    json.dump(rows, open(os.path.join(ROOT, "seeded", "MATRIX.json"), "w"), indent=1)
    with open(os.path.join(ROOT, "seeded", "MATRIX.md"), "w") as f:
        f.write("| seeded change | applies at HEAD | check: exit / VIOLATION lines / seconds | caught |\n|---|---|---|---|\n")
        for r in rows:
            cs = "; ".join(f"{c}: {v['exit']} / {v['violations']} / {v['seconds']}" for c, v in r.get("checks", {}).items())
            f.write(f"| {r['seeded']} | {r['applies']} | {cs} | {r.get('caught')} |\n")
print("caught", sum(1 for r in rows if r.get("caught")), "of", len(rows))
