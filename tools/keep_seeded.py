#!/usr/bin/env python3
"""tools/keep_seeded.py <ID> <m1|m2> <seq> "<caught_by csv>" "<note>" : copy a confirmed agent mutation into /verif/seeded/<ID>-<seq>/"""
import json, os, shutil, sys, glob
ID, M, SEQ, CAUGHT, NOTE = sys.argv[1:6]
src = f"/tmp/wt/{ID}-out/{M}"
dst = f"/verif/seeded/{ID}-{SEQ}"
os.makedirs(dst, exist_ok=True)
shutil.copy(f"{src}/patch.diff", f"{dst}/patch.diff")
for f in glob.glob(f"{src}/*.rs"):
    shutil.copy(f, dst)
meta = json.load(open(f"{src}/meta.json"))
conf = json.load(open(f"{src}/confirm.json"))
out = {
    "property": ID,
    "summary": meta.get("summary"),
    "needs": meta.get("needs"),
    "files_touched": meta.get("files_touched"),
    "origin": "written by an independent sub-agent that saw only the property text and a scratch worktree",
    "confirmed": {
        "how": "tools/confirm_mut.sh in a scratch worktree: git apply; cargo nextest run --workspace --offline (full pinned suite); demonstration copied into engine/tests and run with and without the patch",
        "suite_with_patch": conf.get("suite_summary"),
        "demo_fails_with_patch": conf.get("demo_fails_with_patch"),
        "demo_passes_without_patch": conf.get("demo_passes_without_patch"),
    },
    "caught_by_quick_checks": [c for c in CAUGHT.split(",") if c],
    "note": NOTE,
}
json.dump(out, open(f"{dst}/meta.json", "w"), indent=1)
print("kept", dst, out["caught_by_quick_checks"])
