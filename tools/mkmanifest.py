#!/usr/bin/env python3
"""Regenerates /verif/MANIFEST.json from the table below and validates it against the schema.
Usage: python3 tools/mkmanifest.py"""
import json, os, sys

ROOT = os.path.dirname(os.path.dirname(os.path.abspath(__file__)))
PROPS = [json.loads(l) for l in open(os.path.join(ROOT, "properties.jsonl"))]

# id -> (category, technique, level text, level note, design_ref)
CHECKS = {
    "C02": ("exploration",
            "model-based property testing (proptest byte tape -> op history interpreter vs reference model)",
            "Generated histories x configuration grid x restart placements against the real HnswBackend with persistence; at every restart dump(live) == reference model == dump(recovered), rebuilt metadata index == scan, history continues on the recovered engine. Sampled, not exhaustive: says the property held on every generated history.",
            "Trusts the public read API (scan/bulk_fetch) to report the engine's state, tmpfs as the file system, and clean stops (drop at an operation boundary).",
            "DESIGN.md §3 C02"),
}

CHECKS.update({
    "C04": ("exploration",
            "model-based stateful property testing with fault planting (stale/corrupt cache and mirror entries) and generated read sweeps",
            "Generated tiered histories x 5 cache strategies x capacities {1,3,64} x hard limits {1,2,8} x persistence, with adversarial pokes through the public cache/mirror handles; every read flavour (7) must equal the reference model of the latest acknowledged write after the generated sweep points; drains/ticks must leave the canonical dump equal to the model; a recovered copy must equal the model. Sampled.",
            "Sequential only. Trusts HnswBackend's scan/bulk_fetch as the canonical dump. Planted hot-only orphans that a drain repairs into the canonical store (documented behaviour) are adopted by the model and counted as excluded.",
            "DESIGN.md §3 C04"),
    "C11": ("exploration",
            "small-scope exhaustive enumeration + model-based property testing, three-way differential oracle",
            "Complete enumeration of all filter trees of depth <= 2 over 2 keys x 20 value classes x 4 range operators (107k trees) plus depth-3 trees over a reduced leaf set, on three fixed collections (fresh, churned, compacted+recovered): index result == independent reference semantics == scan with the repo matcher. Plus random histories on a TieredEngine with deep random trees and filtered batch deletes (removed set and count must equal the reference set, nothing else changes).",
            "The reference semantics are those of DESIGN.md §2.2 (written independently from metadata_filter.rs). The exhaustive part is complete only over its stated finite leaf set.",
            "DESIGN.md §3 C11"),
    "C20": ("exploration",
            "model-based stateful property testing with invariant checks after every step",
            "Generated tiered histories with capacities {1,2,5}, hard limits {1,2,4}, index capacities {4,6,16,1000}, every strategy: cache sizes <= capacity after every operation and sweep, recent-write tier <= hard limit whenever an insert returns, and full read sweeps equal the reference model (evicted/drained content stays readable). Plus direct operation sequences on VectorCache / QueryHashCache / SemanticAdapter.",
            "AbTestSplitter owns two caches, bound 2 x capacity. Sampled histories. Part race (scheduler engine): the recent-write tier filled exactly to its hard limit {1,2,5}, one thread inserting 1-2 new ids against one thread running delete / batch delete / filtered delete / drain / reads, every single-preemption schedule; the tier size is read by the inserting thread right after each insert returns.",
            "DESIGN.md §3 C20"),
})

CHECKS.update({
    "C06": ("exploration",
            "model-based property testing with a validity-predicate oracle (f64 reference distances) and a completeness relation for recent writes",
            "Generated tiered histories (single/bulk writes, overwrites, duplicates, deletes to 95 % tombstones, drains, tombstone compaction, restarts) x 3 metrics x SIMD-tail dimensions 1..130 x k 1..1000 x ef overrides, searched through all five search entry points; each result must have <= k distinct live ids, non-decreasing distances, each distance within 2e-4+2e-4|d| of the f64 distance to the id's current vector, and must not omit a still-mirrored acknowledged write that is strictly closer than the k-th result.",
            "Cosine/InnerProduct accept either of the engine's two documented distance forms (1-dot on stored vectors, 1-cos). Completeness is judged only for results with exactly k entries (the property's wording) and only for documents present in the recent-write tier at judgement time. Degraded paths are excluded.",
            "DESIGN.md §3 C06"),
    "C07": ("exploration",
            "model-based property testing with boundary-aimed generation and a history oracle over the search/write log; schedule enumeration (single preemption, complete) and generation for searcher || writer under the controlled scheduler",
            "Generated search/write histories over a small query pool, 3 scopes, k in {1,2,3,5,10}, cache capacities {1,2,16}, dims on both sides of the 32-lane prefix, with writes placed at relative offsets 1e-6..0.5 on both sides of the cached boundary (tail-heavy energy), deletes/overwrites of cached ids, bulk loads, drains, stale-mirror pokes. Every CacheHit must be explainable by a same-scope store of an equivalent query with k' >= k, contain only live ids with distances matching their current vectors, and omit no document written since the store that lies strictly inside the boundary.",
            "Schedule part (race_pairs / race_programs): one searcher against one writer under the controlled scheduler (cache empty / warmed with the query / warmed with another query x mirrored / drained documents x k 1-3 x 8 writer operations x every single-preemption schedule, plus generated programs and 1-4 preemptions); after both threads finished the query is searched again and a CacheHit must equal the exact top-k of the final collection (Euclidean line set-up with a unique top-k). Similarity threshold 1.0. Equal 1/32768-quantised normalised queries are one key by documented design. Metadata-dependent staleness is a server-level (filter) matter and is judged there.",
            "DESIGN.md §3 C07"),
})

CHECKS.update({
    "C12": ("exploration",
            "model-based property testing (restore round trip) + complete single-fault enumeration over small archives + generated retention timelines",
            "Generated histories with full/incremental backups at quiescent points (snapshots, rotation, compaction, restarts in between): every backup restored into an empty directory, recovered strictly and compared with the model as of that backup; point-in-time targets on real 1.1 s spaced backups; EVERY byte x bits {0,5} (all 8 bits in thorough) and every truncation length of three small archives and their metadata, restored over a directory of sentinel files: rejected with the target byte-identical, or accepted with the expected collection; non-empty target without confirmation; synthetic retention timelines x policies: survivors keep all ancestors, reported == deleted.",
            "Backups are taken while no write is in flight. Tamper enumeration is complete only for the three fixed fixtures. Retention timelines are synthetic metadata with stub archives.",
            "DESIGN.md §3 C12"),
    "C13": ("fault_enumeration",
            "fault injection over generated data directories (structure-aware single-fault generator), round-trip oracle against the pre-damage dump",
            "Generated data directories (histories with snapshots, rotation, compaction, restarts) x generated single faults per file class (MANIFEST, newest/non-final/unlisted WAL, primary/stale snapshot): bit flips at structural offsets parsed from the files (magic, frame length, CRC, entry header, seq_no, snapshot size/version/last_wal_seq, every manifest byte) and random offsets, truncation at frame boundaries +-1 and random lengths, deletion. Strict recover must return Err or exactly the pre-damage dump; faults on the newest listed segment may also yield a frame-prefix replay (the property's exclusion). ~28 faults per directory, 1500 directories in the quick tier.",
            "Part damage: engine-level strict recovery with structure-aware faults (plus a directed MANIFEST fault: one listed segment name replaced by another listed name, what a single flipped bit does when two time-based names are neighbours). Part server: directories produced by the real kyrodb_server (gRPC writes, snapshots, rotation, SIGTERM), 3-8 byte-level faults each, started through the real binary in strict mode with fresh start disabled: it must exit or serve exactly the pre-damage census. Snapshot size-field faults are recovered in a child process (the engine may abort on an unbounded allocation; an abort counts as refusing to start). Two listed known findings (C13-F1a/b) are counted and the search continues behind them.",
            "DESIGN.md §3 C13"),
})

CHECKS.update({
    "C15": ("exploration",
            "structured request generation (RPC x field x boundary/pathological value, mixed valid/invalid streams) through the real server binary; stamp-based reference model of 'exactly the accepted items applied'",
            "Generated RPC sequences (auth on/off x cosine/euclidean) over 15 request kinds: Insert / BulkInsert / BulkLoadHnsw items with vector classes {valid, empty, short, long, 4097 lanes, NaN, +Inf, -Inf, zero, -0.0, overflowing norm, denormal} x id classes {1..6, 0, u32::MAX, above u32::MAX, u64::MAX} x metadata classes {plain, empty key, reserved keys, 100 KB value, 2000 keys}; a 10,001-item BulkInsert; UpdateMetadata, Delete, BatchDelete (ids incl. 10,006-id list and allowed lists of 511-9,990 ids with the generated ids at the end, malformed / 3000-deep / 40,000-wide / empty filters, no criteria), Query, BulkQuery, Search and BulkSearch with k in {0,1,3,10,1000,1001,u32::MAX}, ef_search in {0,1,16,200,10000,10001,u32::MAX}, non-finite min_score, 10 KB namespace; flushes, SIGTERM and SIGKILL restarts. Every write carries a unique stamp; after every request: an answer arrived, MUST-REFUSE classes were refused (status or failed item), VALID ones accepted, BulkQuery census == model of accepted items only, Health and a canary Search still OK, and across every READ request (valid or not, incl. bursts of 3-8 identical searches) the canary's answer is unchanged; after every burst each live document is looked up by Query (the point-lookup path sits behind circuit breakers that the BulkQuery census bypasses) and must be found with its stamp; after the final restart the census is unchanged.",
            "EITHER-class inputs (zero / -0.0 / overflowing-norm / denormal vectors, odd metadata, malformed filters, non-finite min_score, ids above u32::MAX without auth) may be accepted or refused; only agreement between the answer and the effect is judged for them. 'Unanswered' = DEADLINE_EXCEEDED after 20 s, UNAVAILABLE, CANCELLED or UNKNOWN.",
            "DESIGN.md §3 C15"),
})

CHECKS.update({
    "C08": ("exploration",
            "schedule enumeration and generation at lock granularity (patched parking_lot + controlled scheduler): complete single-preemption enumeration over all ordered operation pairs, generated multi-preemption schedules; deadlock candidates confirmed with the real blocking lock primitives",
            "Part pairs: every ORDERED pair of a 24-operation catalogue (insert new / overwrite hot / overwrite cold, delete hot / cold, point read, read with metadata, bulk read, search, cached search, batch search, metadata update, drain, snapshot, engine / hot-tier / cache statistics, batch delete, filtered delete, bulk load, exists, filter ids, and filter ids / filtered delete with a filter the index cannot compile) on a pre-populated persistent TieredEngine (snapshot interval 3, rotation at 300 bytes) x cache strategy x engine shape x EVERY scheduling decision of the non-preemptive run at which the other thread could be chosen (complete at preemption bound 1; blocking switches are free): ~37k schedules in the quick tier. Part schedules: 2-3 threads x 1-3 operations x 1-4 generated preemptions x 5 cache strategies x 3 engine shapes. Oracle: all threads finish; a state with no runnable thread is re-tried by every parked thread with the real timed blocking acquisition at the same time and reported only if all time out.",
            "Scheduling points are lock acquisitions, releases and API-call boundaries; code between two lock operations runs un-interleaved. Writer preference of parking_lot's RwLock (a waiting writer blocks new readers) is modelled and confirmed on the real lock. tokio spawn_blocking workers (timed search) and rayon workers are not controlled. Preemption bound 2+ is sampled, not enumerated.",
            "DESIGN.md §3 C08, §2.5"),
})

CHECKS.update({
    "C05": ("exploration",
            "schedule enumeration and generation at lock granularity (patched parking_lot + controlled scheduler) with a linearizability checker (exhaustive memoised Wing-Gong search per document) over the recorded call/return history",
            "2-3 client threads run programs of write / overwrite / delete / batch delete / point read / read with metadata / bulk read / metadata read / exists / drain / search on two shared ids (one mirrored in the recent-write tier, one canonical-only with a warm L1a entry); every write carries a unique version in the vector AND the metadata (plus same-vector writes whose version is in the metadata only, indistinguishable by vector digest). Part pairs: every ordered pair of single-operation programs (and the same pair preceded by a fresh write) on each id x 5 cache strategies x 3 engine shapes x EVERY single-preemption schedule (complete at bound 1; ~210k schedules). Part programs: generated programs x 1-4 generated preemptions. Oracles: a linearization exists per id (real-time order respected, reads return the latest write or absent), no read returns a version that was not written, vector and metadata of one read carry the same version; quiescent reads before and after a quiescent drain are appended to every history. Part server_reads (real server binary, OS schedule): one writer client running 150-600 sequential overwrites (version in the vector and in the metadata), metadata-only updates and deletes on one id against 1-2 reader clients (Query / BulkQuery with embeddings) and optionally a client forcing drains; every completed read must pair vector and metadata of one write and must equal the state after some writer operation between the last one acknowledged before the read began and the last one sent when it returned.",
            "Scheduling points are lock operations and API-call boundaries: races on atomics between two lock operations are not interleaved. A delete's `existed` flag is not judged (the property constrains reads); writes returning Err may or may not take effect. The schedule-controlled parts drive the engine API (TieredEngine); the gRPC handlers are driven only by the server_reads part under the OS schedule (a clean pass there is weak evidence; it found C05-F4 in the first cases).",
            "DESIGN.md §3 C05, §2.5"),
})

CHECKS.update({
    "C09": ("exploration",
            "schedule enumeration and generation at lock granularity (patched parking_lot + controlled scheduler); round-trip oracle: strict recovery of the data directory after all calls returned == final live collection",
            "1-2 writer threads (insert / overwrite / delete / metadata update / batch delete) against manual snapshots, with automatic snapshot triggers (interval 0-5), WAL rotation at 64-300 bytes and tombstone compaction at capacity 6-12, on the persistent HnswBackend. Part pairs: fixed prefix + every ordered pair of single-operation programs from {insert new, overwrite, delete, metadata update, batch delete, manual snapshot} (plus two writers against a double snapshot) x 12 configurations x EVERY single-preemption schedule. Part programs: generated prefix and writer programs, 0-2 manual snapshots, 1-4 generated preemptions. After the run: live dump; backend dropped; strict recover must succeed and equal the live dump.",
            "Scheduling points are lock operations and API-call boundaries; file I/O runs un-interleaved between them. The live collection after quiescence is the reference (its own linearizability is C05's matter). fsync policy Never (durability under crashes is C01/C02).",
            "DESIGN.md §3 C09, §2.5"),
})

CHECKS.update({
    "C17": ("exploration",
            "coverage-guided fuzzing (cargo-fuzz / libFuzzer) of structured operation sequences under AddressSanitizer, with result-validity and f64-reference oracles inside the targets",
            "Target index_ops: bytes -> (dimension from a boundary-biased list 1..130 incl. non-multiples of every SIMD width, M 4..64, ef_construction, capacity 1..4096, metric, normalisation check on/off) + up to 48 operations on HnswVectorIndex: add (fresh/duplicate vector, fresh/duplicate id), parallel batch insert, search with k and ef from {1..10,000} boundary lists, search cancelled before the start, search cancelled by a helper thread after a generated spin, in-flight cancellation sections (a persistent helper released by a go flag right before the search raises the flag after a swept number of spins, four delays per section, then a freshly built two-vector index is searched from the same thread so that thread-local scratch meets a smaller graph), two concurrent readers; oracle = AddressSanitizer + at most k results, only added ids, ascending distances. Target simd_kernels: every kernel (scalar, SSE2, AVX2, AVX-512; private functions reached by including a copy of simd.rs taken from the working tree at build time) on slices of every length 0..130 (+ long ones) at generated offsets inside exact-size heap allocations (red zone right behind the last lane), compared with an f64 reference. Fixed-work campaigns (-runs) from a committed seed corpus, 4 jobs (quick) / 8 jobs (thorough).",
            "The index itself runs with the kernel the CPU dispatch selects (AVX-512 on this machine); the other kernels are exercised at kernel level only. libFuzzer -seed pins a multi-job campaign only approximately; saved artifacts are the reproducible unit (./check replay <artifact>). Engine panics are counted, not reported (not undefined behaviour). Miri is not part of the registered commands (the index under Miri is too slow for a useful sequence length).",
            "DESIGN.md §3 C17, §2.8"),
})

CHECKS.update({
    "C14": ("exploration",
            "model-based property testing through the real server binary (reference count per tenant, admission oracle at the boundary) + racing client pairs followed by an admission probe",
            "Part sequence: one tenant with limit 3..6; generated Insert (new/existing/invalid), BulkInsert and BulkLoadHnsw (duplicates, existing+new, invalid items), Delete of present/absent ids, BatchDelete by ids (duplicates, foreign ids) and by filter, FlushHotTier, SIGTERM and SIGKILL restarts. After EVERY RPC: admission outcome vs model count, BulkQuery census == model, /usage vector_count == live count; at the end fill to the limit (each insert must be admitted) and one more must be RESOURCE_EXHAUSTED, so a drifted counter is visible through admission alone. Part race: two real clients race insert||delete, overwrite||batch-delete (by ids and by filter), bulk-insert||delete on the same ids for 150-650 rounds, then census + the same final probe.",
            "The race part runs under the OS scheduler: a clean pass there is weak evidence (it found C14-F1 within seconds, now fixed and kept as a regression replay). After SIGKILL /usage is not judged (persisted periodically). A BulkLoadHnsw refused only because invalid items were counted in its reservation is excluded (counted).",
            "DESIGN.md §3 C14"),
})

CHECKS.update({
    "C01": ("fault_enumeration",
            "crash-point enumeration over generated histories: LD_PRELOAD syscall trace -> file-system model -> every effect-log prefix x failure model, recovered by the real strict recovery and compared with the reference model",
            "Each generated history (writes, batch deletes, metadata updates, manual snapshots, clean restarts; snapshot interval x rotation x capacity x 4 fsync policies) runs once under the syscall tracer; EVERY prefix of its file-system effect log and torn prefixes (1, half, len-1 bytes) of every write is a crash point; each is materialised under process kill and, for fsync-every-write policies, under power loss (drop all unsynced + 2 seeded in-order prefix choices per file/directory) and recovered with the real strict recover: start-up must succeed and the dump must equal model(acknowledged) or model(acknowledged + in-flight). One state in eight is crashed again at every effect of its own recovery. 3,000 histories / ~930k crash states in the quick tier; under Periodic(1 h) HnswBackend::sync_wal() is called after about half of the operations and the state right after each completed call is additionally judged under power loss against all acknowledged operations (the periodic clause at engine level); complete over the crash points of each generated history. Part server_kill: the real kyrodb_server is SIGKILLed after a generated number of acknowledgements plus 0-3000 us while a client streams inserts / deletes / batch deletes and records every acknowledgement (fsync policy x snapshot interval x rotation); optional second SIGKILL 1-30 ms into the restart; strict start-up must succeed and the census must equal the acknowledged operations, optionally plus the one in flight (400 kills in the quick tier).",
            "Trusts the syscall shim to see every file-system effect (open/write/fsync/fdatasync/rename/unlink/truncate families are interposed) and the flat-directory file-system model. Power-loss model exactly as written in the property. Crash points before the database's initial creation finished are not explored. One listed known finding (C01-F3, partial batch delete) is counted and skipped.",
            "DESIGN.md §3 C01, §2.4"),
    "C03": ("fault_enumeration",
            "model-based property testing with invalid-input classes on every write path + syscall-level storage fault injection; each failing call followed by a live dump and a strict recovery of a copy",
            "Part invalid: generated histories on a persistent TieredEngine with 9 invalid vector classes (+ index full) on 4 write paths (cold insert, tiered insert, bulk load incl. invalid item inside a valid batch, drain repair), targeting fresh / existing / deleted ids: Err (or item counted failed) => live dump unchanged and strict recovery of a copy equals the pre-call dump; Ok => recoverable. Part storage: see level_note.",
            "An invalid-class vector that the engine legitimately accepts (Euclidean accepts tiny/huge finite vectors) is treated as an ordinary acknowledged write. Part storage: a generated history is re-run with one fault sequence armed in the LD_PRELOAD shim: n-th call (sampled over the calls counted in a fault-free pass) of write / fsync+fdatasync / rename, or masks that also cover the rollback's ftruncate, x errno {ENOSPC, EIO, EDQUOT, EINTR, EACCES, short write} x partial length {0,1,half,len-1} (short write first, errno on the following call, as POSIX specifies) x repeat {1,2,8}; per operation Err => live state unchanged, Ok => applied; after every operation hit by the fault or returning Err a copy of the directory is recovered strictly and must equal the acknowledged operations. One listed known finding (C03-F3, failed append + failed rollback truncate).",
            "DESIGN.md §3 C03"),
})

CHECKS.update({
    "C18": ("exploration",
            "exhaustive enumeration of the discrete configuration grid x delivery channel against a one-directional oracle",
            "The complete cross product of the 11 safety-relevant settings (72,576 rows: environment incl. case/whitespace variants x fsync x snapshot interval x recovery mode x cache strategy x auth x rate limit x observability auth x fresh-start x TLS x 7 bind hosts) is loaded through the real KyroDbConfig::load from generated TOML files (complete in both tiers), YAML files and a seeded per-setting mix of file / KYRODB__ environment override / default (complete in thorough, seeded slices in quick). If load returns Ok for a production/pilot row, every safety condition of the property must hold for the intended values.",
            "One-directional, as the property: nothing is asserted about rejected rows. The server binary's refusal to start on a rejected configuration is exercised by the server driver rows. The environment channel is process-global and runs single-threaded. Part server: a seeded sample of rows violating exactly one stated condition (6 per condition in quick, 40 in thorough; a seeded quarter of the settings delivered through the child's KYRODB__ environment) plus accepted benchmark controls, started through the real kyrodb_server binary: a rejected row must exit non-zero without opening its port (still running after 15 s = violation), a control must open it.",
            "DESIGN.md §3 C18"),
    "C19": ("exploration",
            "property-based testing on the real clock with bounds that time can only loosen; clock-free rules on sequential scripts",
            "Generated (rate, global rate, tenants, threads, call/gap script) cases against RateLimiter: for every window of calls, admitted <= burst + rate x (caller-clock interval from before the first to after the last call) + 1, per tenant and globally, also with 2-8 real threads; on sequential scripts additionally: a global refusal leaves the tenant's tokens unchanged, and no call is refused while the tenant's admitted count is below its rate and the global budget has room. ~5 % of the cases are a scripted drain / refused-hammer / 1.1 s idle / burst pattern.",
            "Concurrency uses the OS schedule (the bound is sound for every schedule). The server-level max_qps row is part of the server driver. Part server: the real binary with auth and rate limiting on, tenant max_qps {1,2,5,20} x global {3, none} x 1-4 concurrent gRPC clients x 10-60 calls with a pause; admitted = any answer other than RESOURCE_EXHAUSTED; the same window bound on the callers' clocks.",
            "DESIGN.md §3 C19"),
})

CHECKS.update({
    "C16": ("exploration",
            "property-based testing over seeded datasets with a brute-force f64 oracle (metamorphic relation across build routes)",
            "Seeded datasets (uniform sphere / Gaussian clusters / 3-d manifold embedded in d) x 3 metrics x dim {8,16,32,64} x size {500..1200 and 2600 quick; 500..5000 incl. 2600/3100/4097 thorough, so that the batch builder's internal block boundaries are crossed} at the default index parameters; the same live set is reached by online inserts, the bulk constructor, 3x insert + delete two thirds + forced tombstone compaction, and snapshot/WAL recovery; 200 held-out queries per dataset: mean recall@10 >= 0.80 per route, |recall(route) - recall(online)| <= 0.10, and repeating a query returns bit-identical distances and the same documents outside exact ties.",
            "Everything is seeded; the floor is the weakest threshold the project's own guards use. Recall counts a returned document whose reference distance is within the true 10th distance.",
            "DESIGN.md §3 C16"),
})

CHECKS.update({
    "C10": ("exploration",
            "model-based testing of the real server binary over gRPC/HTTP with per-tenant reference models plus a differential non-interference relation (same case replayed with one tenant alone)",
            "Generated multi-tenant RPC sequences (Insert, BulkInsert, BulkLoadHnsw, Query, BulkQuery, Search, BulkSearch, UpdateMetadata, Delete, BatchDelete by ids and by filter, FlushHotTier, GET /usage; callers alpha/beta/gamma/admin/disabled key/unknown key/no key; colliding local ids incl. 2^32-1, shared vectors and queries, 3 namespaces, spoofed reserved keys, filters of every shape also ON the reserved keys, SIGTERM restart inside the case) against the real kyrodb_server process. Every response is judged against a per-tenant reference model (found flags, vectors, metadata without reserved keys, existed, deleted_count, containment of search results, UNAUTHENTICATED for invalid keys, /usage rows), and the case is replayed on fresh servers with only alpha's / only beta's requests: that tenant's responses must be identical in both worlds.",
            "The server binary is the repository's kyrodb_server.rs compiled in the harness workspace (same engine library, no target-cpu=native). Search non-interference is judged only while all documents are in the exhaustively scanned recent-write tier; tie groups are compared as sets. Known finding C10-F1 (tenant filtering after the global top-k) is counted and skipped.",
            "DESIGN.md §3 C10, §2.7"),
})

NOT_APPLICABLE = {
}

PENDING_REASON = "check not built yet in this round of work; see DESIGN.md §7 build order"

def main():
    checks = []
    for p in PROPS:
        pid = p["id"]
        if pid not in CHECKS:
            continue
        cat, tech, text, note, ref = CHECKS[pid]
        checks.append({
            "property_id": pid,
            "quick_cmd": f"./check {pid} quick",
            "thorough_cmd": f"./check {pid} thorough",
            "evidence_file": f"/verif/evidence/{pid}.json",
            "replay_cmd_template": "./check replay {path}",
            "engine": ("kvfz" if pid == "C17" else "kvh"),
            "level_claimed": {"category": cat, "text": text, "design_ref": ref},
            "level_note": note,
            "technique": tech,
        })
    na = []
    for p in PROPS:
        pid = p["id"]
        if pid in CHECKS:
            continue
        na.append({"property_id": pid, "reason": NOT_APPLICABLE.get(pid, PENDING_REASON)})
    man = {
        "version": 1,
        "setup_cmd": "./setup.sh",
        "hooks": {
            "guard": "--cfg kyrodb_verif",
            "enable": "none needed so far: checks observe through the public API, an LD_PRELOAD syscall shim, a patched parking_lot dependency and source files included at build time; the guard name is reserved",
            "baseline_off_cmd": "cd /repo && cargo test --workspace --no-fail-fast --offline",
            "source_commits": [],
            "add_only": True,
        },
        "engines": [
            {"name": "kvh", "path": "/verif/harness", "serves_properties": sorted(k for k in CHECKS.keys() if k != "C17"),
             "kind_free_text": "Rust binary: proptest TestRunner driving byte-tape decoders + interpreters against reference models; sharded over 16 threads; shrinking to replay JSON. Includes the LD_PRELOAD syscall shim (crash-state enumeration, fault injection), the controlled scheduler over a patched parking_lot (/verif/plshim) and the driver for the real kyrodb_server binary built from the working tree"},
            {"name": "kvfz", "path": "/verif/fz/fuzz", "serves_properties": ["C17"],
             "kind_free_text": "cargo-fuzz (libFuzzer) targets index_ops and simd_kernels built with AddressSanitizer from the working tree; driven by tools/c17.py (fixed -runs campaigns from the committed seed corpus, evidence from counters dumped by the targets)"},
        ],
        "checks": checks,
        "not_applicable": na,
        "notes": "Every check: exit 0 held / exit 1 VIOLATION line / exit 2 inconclusive. VERIF_SEED seeds every generator. known_findings.json is read-only at run time.",
    }
    out = os.path.join(ROOT, "MANIFEST.json")
    json.dump(man, open(out, "w"), indent=1)
    try:
        import jsonschema
        schema = json.load(open("/root/.vp/MANIFEST.schema.json"))
        jsonschema.validate(man, schema)
        print("MANIFEST.json valid;", len(checks), "checks,", len(na), "not claimed")
    except ImportError:
        print("MANIFEST.json written (jsonschema not available for validation)")

if __name__ == "__main__":
    main()
