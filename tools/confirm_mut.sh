#!/bin/bash
# tools/confirm_mut.sh <ID> <m1|m2> : confirm an agent-produced mutation in its scratch worktree /tmp/wt/<ID>
#  1. patch applies and the workspace test suite passes with it
#  2. the demonstration fails with the patch and passes without it
# Writes /tmp/wt/<ID>-out/<m>/confirm.json
ID=$1; M=$2
WT=/tmp/wt/$ID; OUT=/tmp/wt/$ID-out/$M
export CARGO_NET_OFFLINE=true
cd $WT || exit 2
git checkout -q -- . ; git clean -fdq engine/tests engine/src 2>/dev/null
if ! git apply $OUT/patch.diff; then echo '{"applies": false}' > $OUT/confirm.json; exit 1; fi
cargo nextest run --workspace --offline --no-fail-fast --test-threads 6 > $OUT/confirm_suite.log 2>&1
SUITE_RC=$?
SUMMARY=$(grep -E "^\s*Summary" $OUT/confirm_suite.log | tail -1)
DEMOS=$(ls $OUT/*.rs 2>/dev/null)
WITH_RC=0; WITHOUT_RC=0; NAMES=""
for d in $DEMOS; do
  n=$(basename $d .rs); NAMES="$NAMES $n"
  cp $d engine/tests/$n.rs
done
for d in $DEMOS; do
  n=$(basename $d .rs)
  cargo test --offline -p kyrodb-engine --test $n > $OUT/confirm_demo_with_$n.log 2>&1; rc=$?; [ $rc -ne 0 ] && WITH_RC=1
done
git apply -R $OUT/patch.diff
for d in $DEMOS; do
  n=$(basename $d .rs)
  cargo test --offline -p kyrodb-engine --test $n > $OUT/confirm_demo_without_$n.log 2>&1; rc=$?; [ $rc -ne 0 ] && WITHOUT_RC=1
  rm -f engine/tests/$n.rs
done
git checkout -q -- . ; git status --short > $OUT/confirm_status.txt
python3 - <<PY
import json
json.dump({"applies": True, "suite_exit": $SUITE_RC, "suite_summary": """$SUMMARY""".strip(), "demos": "$NAMES".split(), "demo_fails_with_patch": bool($WITH_RC), "demo_passes_without_patch": not bool($WITHOUT_RC)}, open("$OUT/confirm.json","w"), indent=1)
PY
cat $OUT/confirm.json
