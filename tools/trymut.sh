#!/bin/bash
# tools/trymut.sh <patch-file|-e 'python expr on file'> -- <check args...>
# Applies a patch to /repo, runs ./check with the given args, reverts /repo. For sensitivity tests.
set -u
PATCH="$1"; shift
[ "$1" = "--" ] && shift
cd /repo || exit 2
if ! git apply "$PATCH"; then echo "patch does not apply"; exit 2; fi
cd /verif
for c in "$@"; do
  echo "== $c"
  ./check $c quick 2>&1 | grep -E 'violation|evaluations=|INCONCLUSIVE|error' | cut -c1-500 | head -6
done
git -C /repo checkout -- . && git -C /repo status --short
rm -rf /verif/replays/out
