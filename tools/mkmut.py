#!/usr/bin/env python3
"""tools/mkmut.py NAME FILE <<< 'OLD\n===\nNEW'  -> writes /tmp/muts/NAME.diff (a patch against /repo HEAD)"""
import subprocess, sys
name, path = sys.argv[1], sys.argv[2]
old, new = sys.stdin.read().split("\n===\n")
new = new.rstrip("\n")
s = open(path).read()
assert old in s, f"{name}: old text not found"
open(path, "w").write(s.replace(old, new, 1))
d = subprocess.run(["git", "diff"], capture_output=True, text=True, cwd="/repo").stdout
import os
os.makedirs("/tmp/muts", exist_ok=True)
open(f"/tmp/muts/{name}.diff", "w").write(d)
subprocess.run(["git", "checkout", "--", "."], cwd="/repo")
print("wrote", name, len(d), "bytes")
