fn main() {
    // values the engine's own build script exports for its binaries
    println!("cargo:rustc-env=GIT_COMMIT_HASH=verif-harness");
    println!("cargo:rustc-env=TARGET_TRIPLE={}", std::env::var("TARGET").unwrap_or_default());
    println!("cargo:rerun-if-changed=build.rs");
}
