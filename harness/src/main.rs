//! kvh — KyroDB verification harness (property-based testing engine E1 and friends).
//!
//!   kvh <Cxx> quick|thorough      run the generated checks of one property
//!   kvh replay <file>             re-execute one saved case without the PBT library
//!
//! exit 0 = held on everything explored (KNOWN-FINDING lines allowed)
//! exit 1 = VIOLATION line printed
//! exit 2 = inconclusive (infrastructure problem, watchdog, non-reproducible failure)

mod common;
mod props;

use common::runner::{finish, install_quiet_panic_hook, Ctx, Tier};

fn watchdog(limit_s: u64) {
    std::thread::spawn(move || {
        std::thread::sleep(std::time::Duration::from_secs(limit_s));
        eprintln!("INCONCLUSIVE: watchdog fired after {} s", limit_s);
        std::process::exit(2);
    });
}

fn main() {
    let args: Vec<String> = std::env::args().collect();
    if args.len() < 3 {
        eprintln!("usage: kvh <Cxx> quick|thorough | kvh replay <file>");
        std::process::exit(2);
    }
    install_quiet_panic_hook();
    if args[1] == "schedtime" {
        use crate::common::tiered::Strat;
        use crate::props::c08;
        let root = std::path::PathBuf::from(format!("/dev/shm/kvh.schedtime.{}", std::process::id()));
        let cfg = c08::cfg_for(Strat::LearnedTrained, 0);
        for i in 0..5 {
            let t0 = std::time::Instant::now();
            let d = root.join(format!("d{}", i));
            std::fs::create_dir_all(&d).unwrap();
            let t = c08::build(&cfg, &d).map_err(|e| e.msg).unwrap();
            let t1 = t0.elapsed();
            let e1 = std::sync::Arc::clone(&t.engine);
            let e2 = std::sync::Arc::clone(&t.engine);
            let progs: Vec<crate::common::sched::Program> = vec![Box::new(move |_| c08::apply(&e1, c08::OpK::InsertNew, 0, 0)), Box::new(move |_| c08::apply(&e2, c08::OpK::Delete, 1, 0))];
            let out = crate::common::sched::run(progs, &[(3, 1)]);
            let t2 = t0.elapsed();
            drop(t);
            let t3 = t0.elapsed();
            println!("build {:?} run {:?} (decisions {}) drop {:?}", t1, t2 - t1, out.decisions, t3 - t2);
        }
        let _ = std::fs::remove_dir_all(&root);
        return;
    }
    if args[1] == "srvtest" {
        srvtest();
        return;
    }
    if args[1] == "probe-recover" && args.len() >= 4 {
        std::process::exit(props::c13::probe_main(&args[2], &args[3]));
    }
    if args[1] == "replay" {
        let text = std::fs::read_to_string(&args[2]).unwrap_or_else(|e| {
            eprintln!("cannot read {}: {}", args[2], e);
            std::process::exit(2)
        });
        let v: serde_json::Value = serde_json::from_str(&text).unwrap_or_else(|e| {
            eprintln!("cannot parse {}: {}", args[2], e);
            std::process::exit(2)
        });
        let prop = v["property"].as_str().unwrap_or("").to_string();
        if matches!(prop.as_str(), "C01" | "C03") {
            common::shim::ensure_loaded_or_reexec();
        }
        let ctx = Ctx::new(&prop, Tier::Quick);
        watchdog(1800);
        let code = props::REGISTRY.iter().find(|e| e.id == prop).and_then(|e| (e.replay)(&ctx, &v));
        if std::env::var("KVH_KEEP_SCRATCH").is_err() {
        let _ = std::fs::remove_dir_all(&ctx.scratch_base);
    }
        match code {
            Some(c) => std::process::exit(c),
            None => {
                eprintln!("no check registered for property {:?} part {:?}", prop, v["part"]);
                std::process::exit(2)
            }
        }
    }
    let prop = args[1].clone();
    let tier = match args[2].as_str() {
        "quick" => Tier::Quick,
        "thorough" => Tier::Thorough,
        other => {
            eprintln!("unknown tier {}", other);
            std::process::exit(2)
        }
    };
    if matches!(prop.as_str(), "C01" | "C03") {
        common::shim::ensure_loaded_or_reexec();
    }
    watchdog(tier.pick(1500, 6 * 3600));
    let ctx = Ctx::new(&prop, tier);
    let Some(entry) = props::REGISTRY.iter().find(|e| e.id == prop) else {
        eprintln!("unknown property {}", prop);
        std::process::exit(2)
    };
    (entry.main)(&ctx);
    let level = entry.level;
    std::process::exit(finish(&ctx, level));
}

#[allow(dead_code)]
pub fn srvtest() {
    use common::srv::*;
    use kyrodb_engine::proto as pb;
    let root = std::path::PathBuf::from(format!("/dev/shm/kvh.srvtest.{}", std::process::id()));
    let t0 = std::time::Instant::now();
    let mut s = Server::new(SrvCfg::default_for(4, "euclidean", true, 1000), &root, 0);
    s.start().unwrap();
    eprintln!("start: {:?}", t0.elapsed());
    let rt = tokio::runtime::Builder::new_current_thread().enable_all().build().unwrap();
    let key = key_for("alpha", 0xa1);
    for i in 0..5 {
        let t1 = std::time::Instant::now();
        let r = rt.block_on(async {
            let mut c = s.client().await.unwrap();
            let t2 = std::time::Instant::now();
            let r = c.insert(with_key(pb::InsertRequest { doc_id: 1 + i, embedding: vec![1.0, 0.0, 0.0, 0.0], metadata: Default::default(), namespace: String::new() }, Some(&key))).await;
            (t2.elapsed(), r.is_ok())
        });
        eprintln!("rpc {}: total {:?} call {:?} ok={}", i, t1.elapsed(), r.0, r.1);
    }
    let t3 = std::time::Instant::now();
    eprintln!("usage: {:?} in {:?}", s.http_get("/usage", Some(&key)).map(|x| x.0), t3.elapsed());
    let t4 = std::time::Instant::now();
    s.stop_term();
    eprintln!("stop_term: {:?}", t4.elapsed());
    let t5 = std::time::Instant::now();
    s.start().unwrap();
    eprintln!("restart: {:?}", t5.elapsed());
    s.stop_kill();
    let _ = std::fs::remove_dir_all(&root);
}
