//! Crash-state explorer: replays a prefix of a recorded effect log into a small file-system
//! model and materialises the state a crash at that instant leaves on disk, under the two
//! failure models of C01:
//!   * process kill — every completed effect persists;
//!   * power loss   — per file an in-order prefix of the data operations since that file's
//!                    last fsync survives (the last surviving one possibly torn), and an
//!                    in-order prefix of the directory operations since the last directory
//!                    fsync survives.
//! The data directory is flat (the engine never creates sub-directories).

use super::shim::Eff;
use super::tape::Mix;
use std::collections::BTreeMap;
use std::path::Path;

#[derive(Clone, Debug)]
enum DataOp {
    Write { off: u64, data: Vec<u8> },
    Trunc { len: u64 },
}

#[derive(Clone, Debug, Default)]
struct Inode {
    content: Vec<u8>,
    durable: Vec<u8>,
    pending: Vec<DataOp>,
}

#[derive(Clone, Debug)]
enum DirOp {
    Create { name: String, ino: usize },
    Rename { from: String, to: String },
    Unlink { name: String },
}

#[derive(Clone, Debug, Default)]
pub struct FsModel {
    inodes: Vec<Inode>,
    live: BTreeMap<String, usize>,
    durable_dir: BTreeMap<String, usize>,
    pending_dir: Vec<DirOp>,
}

fn apply_data(buf: &mut Vec<u8>, op: &DataOp, torn: Option<usize>) {
    match op {
        DataOp::Write { off, data } => {
            let n = torn.unwrap_or(data.len()).min(data.len());
            let end = *off as usize + n;
            if buf.len() < end {
                buf.resize(end, 0);
            }
            buf[*off as usize..end].copy_from_slice(&data[..n]);
        }
        DataOp::Trunc { len } => buf.resize(*len as usize, 0),
    }
}

fn apply_dir(ns: &mut BTreeMap<String, usize>, op: &DirOp) {
    match op {
        DirOp::Create { name, ino } => {
            ns.insert(name.clone(), *ino);
        }
        DirOp::Rename { from, to } => {
            if let Some(i) = ns.remove(from) {
                ns.insert(to.clone(), i);
            }
        }
        DirOp::Unlink { name } => {
            ns.remove(name);
        }
    }
}

/// How much of the unsynced state survives a power loss.
#[derive(Clone, Debug, PartialEq)]
pub enum Loss {
    /// process kill: everything completed persists
    Kill,
    /// nothing unsynced survives
    DropAll,
    /// generated prefix vector: seeded choice of a surviving prefix per file and for the directory
    Seeded(u64),
}

pub type FileSet = BTreeMap<String, Vec<u8>>;

impl FsModel {
    pub fn from_files(files: &FileSet) -> FsModel {
        let mut m = FsModel::default();
        for (name, content) in files {
            let ino = m.inodes.len();
            m.inodes.push(Inode { content: content.clone(), durable: content.clone(), pending: vec![] });
            m.live.insert(name.clone(), ino);
            m.durable_dir.insert(name.clone(), ino);
        }
        m
    }

    fn rel<'a>(root: &str, path: &'a str) -> Option<&'a str> {
        path.strip_prefix(root).map(|p| p.trim_start_matches('/'))
    }

    /// Apply one effect (optionally only the first `torn` bytes of a write).
    pub fn apply(&mut self, root: &str, e: &Eff, torn: Option<usize>) {
        match e {
            Eff::Open { path, flags, existed } => {
                let Some(name) = Self::rel(root, path) else { return };
                if name.is_empty() {
                    return;
                }
                let creat = (*flags & libc::O_CREAT as i64) != 0;
                let trunc = (*flags & libc::O_TRUNC as i64) != 0;
                match self.live.get(name).copied() {
                    None => {
                        if creat && !*existed {
                            let ino = self.inodes.len();
                            self.inodes.push(Inode::default());
                            self.live.insert(name.to_string(), ino);
                            self.pending_dir.push(DirOp::Create { name: name.to_string(), ino });
                        }
                    }
                    Some(ino) => {
                        if trunc && !self.inodes[ino].content.is_empty() {
                            self.inodes[ino].content.clear();
                            self.inodes[ino].pending.push(DataOp::Trunc { len: 0 });
                        }
                    }
                }
            }
            Eff::Write { path, off, data, .. } => {
                let Some(name) = Self::rel(root, path) else { return };
                if let Some(ino) = self.live.get(name).copied() {
                    let n = torn.unwrap_or(data.len()).min(data.len());
                    let op = DataOp::Write { off: *off, data: data[..n].to_vec() };
                    apply_data(&mut self.inodes[ino].content, &op, None);
                    self.inodes[ino].pending.push(op);
                }
            }
            Eff::Truncate { path, len } => {
                let Some(name) = Self::rel(root, path) else { return };
                if let Some(ino) = self.live.get(name).copied() {
                    let op = DataOp::Trunc { len: *len };
                    apply_data(&mut self.inodes[ino].content, &op, None);
                    self.inodes[ino].pending.push(op);
                }
            }
            Eff::Fsync { path, is_dir } => {
                if *is_dir {
                    if Self::rel(root, path).map_or(false, |r| r.is_empty()) {
                        self.durable_dir = self.live.clone();
                        self.pending_dir.clear();
                    }
                } else if let Some(name) = Self::rel(root, path) {
                    if let Some(ino) = self.live.get(name).copied() {
                        let i = &mut self.inodes[ino];
                        i.durable = i.content.clone();
                        i.pending.clear();
                    }
                }
            }
            Eff::Rename { from, to } => {
                let (Some(f), Some(t)) = (Self::rel(root, from), Self::rel(root, to)) else { return };
                let op = DirOp::Rename { from: f.to_string(), to: t.to_string() };
                apply_dir(&mut self.live, &op);
                self.pending_dir.push(op);
            }
            Eff::Unlink { path } => {
                let Some(name) = Self::rel(root, path) else { return };
                let op = DirOp::Unlink { name: name.to_string() };
                apply_dir(&mut self.live, &op);
                self.pending_dir.push(op);
            }
            Eff::Mkdir { .. } | Eff::Mark { .. } => {}
        }
    }

    /// The files a crash leaves behind under the given loss choice.
    pub fn crash_state(&self, loss: &Loss) -> FileSet {
        let mut out = FileSet::new();
        match loss {
            Loss::Kill => {
                for (name, ino) in &self.live {
                    out.insert(name.clone(), self.inodes[*ino].content.clone());
                }
            }
            Loss::DropAll => {
                for (name, ino) in &self.durable_dir {
                    out.insert(name.clone(), self.inodes[*ino].durable.clone());
                }
            }
            Loss::Seeded(seed) => {
                let mut m = Mix(*seed);
                let keep_dir = m.below(self.pending_dir.len() as u64 + 1) as usize;
                let mut ns = self.durable_dir.clone();
                for op in &self.pending_dir[..keep_dir] {
                    apply_dir(&mut ns, op);
                }
                for (name, ino) in &ns {
                    let i = &self.inodes[*ino];
                    let keep = m.below(i.pending.len() as u64 + 1) as usize;
                    let mut buf = i.durable.clone();
                    for (j, op) in i.pending[..keep].iter().enumerate() {
                        // the last surviving write may itself be torn
                        let torn = if j + 1 == keep && m.below(3) == 0 {
                            match op {
                                DataOp::Write { data, .. } if data.len() > 1 => Some(1 + m.below(data.len() as u64 - 1) as usize),
                                _ => None,
                            }
                        } else {
                            None
                        };
                        apply_data(&mut buf, op, torn);
                    }
                    out.insert(name.clone(), buf);
                }
            }
        }
        out
    }

    pub fn has_unsynced(&self) -> bool {
        !self.pending_dir.is_empty() || self.live.values().any(|i| !self.inodes[*i].pending.is_empty())
    }
}

pub fn materialise(files: &FileSet, dir: &Path) -> std::io::Result<()> {
    let _ = std::fs::remove_dir_all(dir);
    std::fs::create_dir_all(dir)?;
    for (name, content) in files {
        std::fs::write(dir.join(name), content)?;
    }
    Ok(())
}

pub fn read_files(dir: &Path) -> FileSet {
    let mut m = FileSet::new();
    if let Ok(rd) = std::fs::read_dir(dir) {
        for e in rd.flatten() {
            if e.path().is_file() {
                m.insert(e.file_name().to_string_lossy().to_string(), std::fs::read(e.path()).unwrap_or_default());
            }
        }
    }
    m
}

pub fn state_hash(files: &FileSet) -> u64 {
    let mut h: u64 = 0xcbf2_9ce4_8422_2325;
    let mut feed = |b: &[u8]| {
        for x in b {
            h ^= *x as u64;
            h = h.wrapping_mul(0x0100_0000_01b3);
        }
    };
    for (n, c) in files {
        feed(n.as_bytes());
        feed(&[0]);
        feed(&(c.len() as u64).to_le_bytes());
        feed(c);
    }
    h
}
