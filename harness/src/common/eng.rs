//! Thin helpers around the engine's public API: configuration, open / recover, full dumps.

use super::gens::Metric;
use super::model::{bits_of, meta_from_hash, Doc, Meta, Model};
use super::tape::Tape;
use kyrodb_engine::metrics::MetricsCollector;
use kyrodb_engine::{FsyncPolicy, HnswBackend};
use serde::{Deserialize, Serialize};
use std::collections::BTreeMap;
use std::path::Path;

#[derive(Clone, Copy, Debug, PartialEq, Eq, Serialize, Deserialize)]
pub enum Fsync {
    Always,
    Periodic0,
    PeriodicHour,
    Never,
}

impl Fsync {
    pub fn to_engine(self) -> FsyncPolicy {
        match self {
            Fsync::Always => FsyncPolicy::Always,
            Fsync::Periodic0 => FsyncPolicy::Periodic(0),
            Fsync::PeriodicHour => FsyncPolicy::Periodic(3_600_000),
            Fsync::Never => FsyncPolicy::Never,
        }
    }
}

/// Configuration grid of the persistent cold tier (C01, C02, C03, C09, C12, C13).
#[derive(Clone, Debug, PartialEq, Eq, Serialize, Deserialize)]
pub struct BackendCfg {
    pub metric: Metric,
    pub dim: usize,
    /// 0 = automatic snapshots disabled
    pub snapshot_interval: usize,
    /// WAL rotation threshold in bytes
    pub rotate_bytes: u64,
    /// HNSW capacity (small => tombstone compaction is reached)
    pub capacity: usize,
    pub fsync: Fsync,
}

impl BackendCfg {
    pub fn decode(t: &mut Tape, dims: &[usize]) -> BackendCfg {
        BackendCfg {
            metric: Metric::pick(t),
            dim: t.pick(dims),
            snapshot_interval: t.pick(&[0usize, 1, 3, 7, 1000]),
            rotate_bytes: t.pick(&[1u64 << 20, 64, 300]),
            capacity: t.pick(&[1000usize, 8, 12, 16]),
            fsync: Fsync::Never,
        }
    }

    pub fn create(&self, dir: &Path) -> anyhow::Result<HnswBackend> {
        HnswBackend::with_persistence(
            self.dim,
            self.metric.to_engine(),
            vec![],
            vec![],
            self.capacity,
            dir,
            self.fsync.to_engine(),
            self.snapshot_interval,
            self.rotate_bytes,
        )
    }

    pub fn recover(&self, dir: &Path) -> anyhow::Result<HnswBackend> {
        HnswBackend::recover(
            self.dim,
            self.metric.to_engine(),
            dir,
            self.capacity,
            self.fsync.to_engine(),
            self.snapshot_interval,
            self.rotate_bytes,
            MetricsCollector::new(),
        )
    }

    pub fn in_memory(&self) -> anyhow::Result<HnswBackend> {
        HnswBackend::new(self.dim, self.metric.to_engine(), vec![], vec![], self.capacity)
    }
}

pub type Dump = BTreeMap<u64, Doc>;

/// Full dump through the public API: ids by scan, then vectors and metadata.
pub fn dump_backend(b: &HnswBackend) -> Dump {
    let mut ids = b.scan(|_| true);
    ids.sort_unstable();
    let fetched = b.bulk_fetch(&ids);
    let mut out = Dump::new();
    for (id, f) in ids.iter().zip(fetched.into_iter()) {
        if let Some((v, m)) = f {
            out.insert(*id, Doc { bits: bits_of(&v), meta: meta_from_hash(&m) });
        }
    }
    out
}

pub fn dump_of_model(m: &Model) -> Dump {
    m.docs.clone()
}

/// Human-readable first difference between two dumps.
pub fn diff_dumps(expected: &Dump, got: &Dump) -> Option<String> {
    for (id, d) in expected {
        match got.get(id) {
            None => return Some(format!("id {} missing (expected meta {:?})", id, short_meta(&d.meta))),
            Some(g) => {
                if g.bits != d.bits {
                    return Some(format!("id {} vector differs: expected {:?} got {:?}", id, short_vec(&d.bits), short_vec(&g.bits)));
                }
                if g.meta != d.meta {
                    return Some(format!("id {} metadata differs: expected {:?} got {:?}", id, short_meta(&d.meta), short_meta(&g.meta)));
                }
            }
        }
    }
    for id in got.keys() {
        if !expected.contains_key(id) {
            return Some(format!("id {} present but not expected", id));
        }
    }
    None
}

pub fn short_vec(bits: &[u32]) -> Vec<f32> {
    bits.iter().take(6).map(|b| f32::from_bits(*b)).collect()
}

pub fn short_meta(m: &Meta) -> BTreeMap<String, String> {
    m.iter()
        .map(|(k, v)| (k.clone(), if v.len() > 24 { format!("{}…[{}]", &v.chars().take(12).collect::<String>(), v.len()) } else { v.clone() }))
        .collect()
}

pub fn dir_listing(dir: &Path) -> Vec<(String, u64)> {
    let mut v: Vec<(String, u64)> = std::fs::read_dir(dir)
        .map(|rd| {
            rd.flatten()
                .map(|e| (e.file_name().to_string_lossy().to_string(), e.metadata().map(|m| m.len()).unwrap_or(0)))
                .collect()
        })
        .unwrap_or_default();
    v.sort();
    v
}

pub fn copy_dir(src: &Path, dst: &Path) -> std::io::Result<()> {
    std::fs::create_dir_all(dst)?;
    for e in std::fs::read_dir(src)? {
        let e = e?;
        let p = e.path();
        if p.is_dir() {
            copy_dir(&p, &dst.join(e.file_name()))?;
        } else {
            std::fs::copy(&p, dst.join(e.file_name()))?;
        }
    }
    Ok(())
}
