//! PBT runner: drives a `Prop` with proptest (`TestRunner` from a binary, fixed seed, no
//! persistence), sharded over threads; counts evaluations / distinct non-trivial cases /
//! labels; matches failures against `known_findings.json`; shrinks and writes replay files.

use super::tape::{fnv64, mix64};
use proptest::collection::vec as pvec;
use proptest::prelude::*;
use proptest::test_runner::{Config, RngAlgorithm, TestCaseError, TestError, TestRng, TestRunner};
use serde::de::DeserializeOwned;
use serde::Serialize;
use serde_json::{json, Value};
use std::cell::RefCell;
use std::collections::{BTreeMap, HashSet};
use std::path::{Path, PathBuf};
use std::sync::atomic::{AtomicBool, AtomicU64, Ordering};
use std::sync::Mutex;
use std::time::Instant;

#[derive(Clone, Copy, Debug, PartialEq, Eq)]
pub enum Tier {
    Quick,
    Thorough,
}

impl Tier {
    pub fn name(self) -> &'static str {
        match self {
            Tier::Quick => "quick",
            Tier::Thorough => "thorough",
        }
    }
    pub fn pick<T>(self, quick: T, thorough: T) -> T {
        match self {
            Tier::Quick => quick,
            Tier::Thorough => thorough,
        }
    }
}

#[derive(Clone, Debug)]
pub struct KnownFinding {
    pub id: String,
    pub property: String,
    pub status: String,
    pub signature: Value,
    pub what: String,
}

pub fn verif_root() -> PathBuf {
    if let Ok(p) = std::env::var("KVH_ROOT") {
        return PathBuf::from(p);
    }
    PathBuf::from("/verif")
}

pub fn load_known_findings() -> Vec<KnownFinding> {
    let p = verif_root().join("known_findings.json");
    let Ok(s) = std::fs::read_to_string(&p) else { return vec![] };
    let v: Value = serde_json::from_str(&s).unwrap_or(Value::Null);
    let mut out = vec![];
    if let Some(arr) = v.as_array() {
        for e in arr {
            out.push(KnownFinding {
                id: e["id"].as_str().unwrap_or("").to_string(),
                property: e["property"].as_str().unwrap_or("").to_string(),
                status: e["status"].as_str().unwrap_or("").to_string(),
                signature: e["signature"].clone(),
                what: e["what"].as_str().unwrap_or("").to_string(),
            });
        }
    }
    out
}

/// What one executed case reports back.
#[derive(Default, Debug, Clone)]
pub struct CaseReport {
    pub nontrivial: bool,
    pub labels: Vec<String>,
    pub excluded: Vec<String>,
    /// known-finding signatures hit inside the case (already tolerated by the interpreter)
    pub known_sigs: Vec<Value>,
    /// extra numeric counters (summed into the evidence)
    pub counters: Vec<(String, u64)>,
}

impl CaseReport {
    pub fn label(&mut self, s: &str) {
        if !self.labels.iter().any(|x| x == s) {
            self.labels.push(s.to_string());
        }
    }
    pub fn count(&mut self, s: &str, n: u64) {
        if let Some(e) = self.counters.iter_mut().find(|(k, _)| k == s) {
            e.1 += n;
        } else {
            self.counters.push((s.to_string(), n));
        }
    }
}

#[derive(Debug, Clone)]
pub struct Failure {
    pub msg: String,
    /// classification of the failure (matched field by field against known findings)
    pub sig: Value,
    pub detail: Value,
}

impl Failure {
    pub fn new(kind: &str, msg: impl Into<String>) -> Failure {
        Failure { msg: msg.into(), sig: json!({ "kind": kind }), detail: Value::Null }
    }
    pub fn with_sig(mut self, sig: Value) -> Failure {
        self.sig = sig;
        self
    }
    pub fn with_detail(mut self, d: Value) -> Failure {
        self.detail = d;
        self
    }
}

#[derive(Clone, Debug)]
pub struct Raw {
    pub head: Vec<u8>,
    pub chunks: Vec<Vec<u8>>,
}

#[derive(Clone, Copy, Debug)]
pub struct RawShape {
    pub head_len: usize,
    pub chunk_len: usize,
    pub min_chunks: usize,
    pub max_chunks: usize,
}

pub struct CaseEnv<'a> {
    pub ctx: &'a Ctx,
    /// unique scratch directory for this execution (created lazily by `dir()`)
    scratch: PathBuf,
    /// strict = replay mode: known findings are still classified, nothing else changes
    pub replay: bool,
}

impl<'a> CaseEnv<'a> {
    /// A child environment with its own scratch directory below this one.
    pub fn sub(parent: &CaseEnv<'a>, name: &str) -> CaseEnv<'a> {
        CaseEnv { ctx: parent.ctx, scratch: parent.scratch.join(name), replay: parent.replay }
    }
    pub fn dir(&self, name: &str) -> PathBuf {
        let p = self.scratch.join(name);
        std::fs::create_dir_all(&p).expect("create scratch dir");
        p
    }
    pub fn scratch_root(&self) -> &Path {
        &self.scratch
    }
}

pub trait Prop: Sync {
    type Case: Serialize + DeserializeOwned + std::fmt::Debug + Send + Sync;
    fn part(&self) -> &'static str;
    fn shape(&self, tier: Tier) -> RawShape;
    fn decode(&self, raw: &Raw, tier: Tier) -> Self::Case;
    fn run(&self, case: &Self::Case, env: &CaseEnv) -> Result<CaseReport, Failure>;
    /// text of the non-trivial rule for the evidence file
    fn rule(&self) -> String;
    /// bound on shrink iterations (expensive cases lower it)
    fn max_shrink_iters(&self) -> u32 {
        4096
    }
}

#[derive(Default)]
pub struct PartStats {
    pub part: String,
    pub rule: String,
    pub evaluations: u64,
    pub nontrivial: HashSet<u64>,
    pub labels: BTreeMap<String, u64>,
    pub excluded: BTreeMap<String, u64>,
    pub counters: BTreeMap<String, u64>,
    pub known_hits: BTreeMap<String, u64>,
    pub samples: Vec<String>,
    pub exhaustive: bool,
}

impl PartStats {
    pub fn merge(&mut self, o: PartStats) {
        self.evaluations += o.evaluations;
        self.nontrivial.extend(o.nontrivial);
        for (k, v) in o.labels {
            *self.labels.entry(k).or_default() += v;
        }
        for (k, v) in o.excluded {
            *self.excluded.entry(k).or_default() += v;
        }
        for (k, v) in o.counters {
            *self.counters.entry(k).or_default() += v;
        }
        for (k, v) in o.known_hits {
            *self.known_hits.entry(k).or_default() += v;
        }
        for s in o.samples {
            if self.samples.len() < 4 {
                self.samples.push(s);
            }
        }
    }
    pub fn absorb(&mut self, rep: &CaseReport, case_hash: u64, sample: impl FnOnce() -> String, ctx: &Ctx) {
        // a case that judges several sub-evaluations (e.g. directory x faults) reports them
        // through the counter "evaluations_judged"; otherwise one case = one evaluation
        let sub: u64 = rep.counters.iter().filter(|(k, _)| k == "evaluations_judged").map(|(_, v)| *v).sum();
        self.evaluations += sub.max(1);
        *self.counters.entry("cases".to_string()).or_default() += 1;
        if rep.nontrivial {
            let fresh = self.nontrivial.insert(case_hash);
            if fresh && self.samples.len() < 2 {
                self.samples.push(sample());
            }
        }
        for l in &rep.labels {
            *self.labels.entry(l.clone()).or_default() += 1;
        }
        for l in &rep.excluded {
            *self.excluded.entry(l.clone()).or_default() += 1;
        }
        for (k, v) in &rep.counters {
            *self.counters.entry(k.clone()).or_default() += *v;
        }
        for s in &rep.known_sigs {
            if let Some(id) = ctx.known_id(s) {
                *self.known_hits.entry(id).or_default() += 1;
            }
        }
    }
}

pub struct Violation {
    pub part: String,
    pub msg: String,
    pub replay: PathBuf,
}

pub struct Ctx {
    pub prop: String,
    pub tier: Tier,
    pub seed: u64,
    pub known: Vec<KnownFinding>,
    pub scratch_base: PathBuf,
    pub start: Instant,
    pub threads: usize,
    case_counter: AtomicU64,
    pub parts: Mutex<Vec<PartStats>>,
    pub violations: Mutex<Vec<Violation>>,
    pub inconclusive: Mutex<Vec<String>>,
    pub assumptions: Mutex<Vec<String>>,
}

fn sig_matches(known: &Value, got: &Value) -> bool {
    // every field of the known signature must be present and equal in the computed one
    match (known.as_object(), got.as_object()) {
        (Some(k), Some(g)) => !k.is_empty() && k.iter().all(|(key, v)| g.get(key) == Some(v)),
        _ => false,
    }
}

impl Ctx {
    pub fn new(prop: &str, tier: Tier) -> Ctx {
        let seed: u64 = std::env::var("VERIF_SEED").ok().and_then(|s| s.trim().parse::<i64>().ok()).map(|x| x as u64).unwrap_or(1);
        let base = if Path::new("/dev/shm").is_dir() {
            PathBuf::from(format!("/dev/shm/kvh.{}", std::process::id()))
        } else {
            verif_root().join(format!("target/scratch/kvh.{}", std::process::id()))
        };
        let _ = std::fs::create_dir_all(&base);
        let threads = std::env::var("KVH_THREADS")
            .ok()
            .and_then(|s| s.parse().ok())
            .unwrap_or_else(|| std::thread::available_parallelism().map(|n| n.get()).unwrap_or(8).min(16));
        Ctx {
            prop: prop.to_string(),
            tier,
            seed,
            known: load_known_findings(),
            scratch_base: base,
            start: Instant::now(),
            threads,
            case_counter: AtomicU64::new(0),
            parts: Mutex::new(vec![]),
            violations: Mutex::new(vec![]),
            inconclusive: Mutex::new(vec![]),
            assumptions: Mutex::new(vec![]),
        }
    }

    pub fn assume(&self, s: &str) {
        let mut a = self.assumptions.lock().unwrap();
        if !a.iter().any(|x| x == s) {
            a.push(s.to_string());
        }
    }

    /// id of the `known` (not `fixed`) finding whose signature matches, if any
    pub fn known_id(&self, sig: &Value) -> Option<String> {
        self.known
            .iter()
            .find(|k| k.status == "known" && k.property == self.prop && sig_matches(&k.signature, sig))
            .map(|k| k.id.clone())
    }

    pub fn is_known(&self, sig: &Value) -> bool {
        self.known_id(sig).is_some()
    }

    pub fn env(&self, replay: bool) -> CaseEnv<'_> {
        let n = self.case_counter.fetch_add(1, Ordering::Relaxed);
        CaseEnv { ctx: self, scratch: self.scratch_base.join(format!("c{}", n)), replay }
    }

    pub fn part_seed(&self, part: &str, shard: usize) -> [u8; 32] {
        let a = mix64(self.seed, fnv64(self.prop.as_bytes()));
        let b = mix64(a, fnv64(part.as_bytes()));
        let c = mix64(b, shard as u64);
        let mut out = [0u8; 32];
        for i in 0..4 {
            out[i * 8..i * 8 + 8].copy_from_slice(&mix64(c, i as u64).to_le_bytes());
        }
        out
    }

    pub fn add_part(&self, st: PartStats) {
        let mut parts = self.parts.lock().unwrap();
        if let Some(p) = parts.iter_mut().find(|p| p.part == st.part) {
            p.merge(st);
        } else {
            parts.push(st);
        }
    }

    pub fn write_replay<C: Serialize>(&self, part: &str, case: &C, f: &Failure) -> PathBuf {
        let dir = verif_root().join("replays/out");
        let _ = std::fs::create_dir_all(&dir);
        // "part/regressions" (committed replays re-run) is stored under its base part name
        let part = part.split('/').next().unwrap_or(part);
        let body = json!({
            "property": self.prop,
            "part": part,
            "seed": self.seed,
            "tier": self.tier.name(),
            "case": serde_json::to_value(case).unwrap_or(Value::Null),
            "message": f.msg,
            "signature": f.sig,
            "detail": f.detail,
        });
        let text = serde_json::to_string_pretty(&body).unwrap();
        let h = fnv64(text.as_bytes());
        let path = dir.join(format!("{}-{}-{:016x}.json", self.prop, part, h));
        std::fs::write(&path, text).expect("write replay");
        path
    }

    pub fn report_violation<C: Serialize>(&self, part: &str, case: &C, f: &Failure) {
        let path = self.write_replay(part, case, f);
        eprintln!("[{}:{}] violation: {}", self.prop, part, f.msg);
        self.violations.lock().unwrap().push(Violation { part: part.to_string(), msg: f.msg.clone(), replay: path });
    }

    pub fn elapsed_s(&self) -> f64 {
        self.start.elapsed().as_secs_f64()
    }
}

thread_local! {
    static LAST_PANIC: RefCell<Option<String>> = const { RefCell::new(None) };
}

pub fn install_quiet_panic_hook() {
    std::panic::set_hook(Box::new(|info| {
        let loc = info.location().map(|l| format!("{}:{}", l.file(), l.line())).unwrap_or_default();
        let msg = if let Some(s) = info.payload().downcast_ref::<&str>() {
            s.to_string()
        } else if let Some(s) = info.payload().downcast_ref::<String>() {
            s.clone()
        } else {
            "<non-string panic>".to_string()
        };
        LAST_PANIC.with(|p| *p.borrow_mut() = Some(format!("{} at {}", msg, loc)));
        if std::env::var("KVH_VERBOSE_PANIC").is_ok() {
            eprintln!("panic: {} at {}", msg, loc);
        }
    }));
}

/// Run one case with panic containment: an engine panic on generated input is a failure of
/// kind "panic" (with the panic location as part of the signature).
pub fn run_guarded<P: Prop>(p: &P, case: &P::Case, env: &CaseEnv) -> Result<CaseReport, Failure> {
    let r = std::panic::catch_unwind(std::panic::AssertUnwindSafe(|| p.run(case, env)));
    let out = match r {
        Ok(x) => x,
        Err(_) => {
            let m = LAST_PANIC.with(|p| p.borrow_mut().take()).unwrap_or_else(|| "panic".into());
            let site = m.rsplit(" at ").next().unwrap_or("").to_string();
            Err(Failure { msg: format!("panic during case: {}", m), sig: json!({"kind": "panic", "site": site}), detail: Value::Null })
        }
    };
    if std::env::var("KVH_KEEP_SCRATCH").is_ok() {
        eprintln!("scratch kept: {}", env.scratch_root().display());
    } else {
        let _ = std::fs::remove_dir_all(env.scratch_root());
    }
    out
}

fn case_hash<C: Serialize>(c: &C) -> u64 {
    fnv64(serde_json::to_string(c).unwrap_or_default().as_bytes())
}

fn truncate(s: String, n: usize) -> String {
    if s.len() <= n {
        s
    } else {
        let mut cut = n;
        while !s.is_char_boundary(cut) {
            cut -= 1;
        }
        format!("{}… ({} chars)", &s[..cut], s.len())
    }
}

/// Drive `prop` with `cases` generated cases split over the context's threads.
/// Debug aid: KVH_PARTS=a,b restricts a run to the named parts (evidence of such a run is partial).
fn part_selected(part: &str) -> bool {
    match std::env::var("KVH_PARTS") {
        Ok(v) if !v.trim().is_empty() => v.split(',').any(|p| p.trim() == part),
        _ => true,
    }
}

pub fn run_pbt<P: Prop>(ctx: &Ctx, prop: &P, cases: u64) {
    if !part_selected(prop.part()) {
        return;
    }
    // KVH_SCALE multiplies every case count (experiments / deeper ad-hoc runs)
    let cases = match std::env::var("KVH_SCALE").ok().and_then(|s| s.parse::<f64>().ok()) {
        Some(f) if f > 0.0 => ((cases as f64) * f).ceil() as u64,
        _ => cases,
    };
    let shape = prop.shape(ctx.tier);
    let shards = ctx.threads.max(1).min(cases.max(1) as usize);
    let stop = AtomicBool::new(false);
    let merged = Mutex::new(PartStats { part: prop.part().to_string(), rule: prop.rule(), ..Default::default() });

    std::thread::scope(|scope| {
        for shard in 0..shards {
            let n = cases / shards as u64 + if (shard as u64) < cases % shards as u64 { 1 } else { 0 };
            if n == 0 {
                continue;
            }
            let stop = &stop;
            let merged = &merged;
            scope.spawn(move || {
                let stats = RefCell::new(PartStats::default());
                let failed = std::cell::Cell::new(false);
                // every failing execution seen (also during shrinking), by case hash: the shrunk
                // case's failure is reported from here even if the engine is not deterministic
                let seen_failures: RefCell<std::collections::HashMap<u64, Failure>> = RefCell::new(Default::default());
                let cfg = Config {
                    cases: n as u32,
                    failure_persistence: None,
                    max_shrink_iters: prop.max_shrink_iters(),
                    max_global_rejects: 1,
                    ..Config::default()
                };
                let rng = TestRng::from_seed(RngAlgorithm::ChaCha, &ctx.part_seed(prop.part(), shard));
                let mut runner = TestRunner::new_with_rng(cfg, rng);
                let strat = (
                    pvec(any::<u8>(), shape.head_len..=shape.head_len),
                    pvec(pvec(any::<u8>(), shape.chunk_len..=shape.chunk_len), shape.min_chunks..=shape.max_chunks),
                );
                let result = runner.run(&strat, |(head, chunks)| {
                    if stop.load(Ordering::Relaxed) && !failed.get() {
                        // another shard already found a violation: finish quickly
                        return Ok(());
                    }
                    let raw = Raw { head, chunks };
                    let case = prop.decode(&raw, ctx.tier);
                    let env = ctx.env(false);
                    match run_guarded(prop, &case, &env) {
                        Ok(rep) => {
                            if !failed.get() {
                                let h = case_hash(&case);
                                stats.borrow_mut().absorb(&rep, h, || truncate(format!("{:?}", case), 1800), ctx);
                            }
                            Ok(())
                        }
                        Err(f) => {
                            if f.sig["kind"] == "setup_failed" {
                                // infrastructure problem (harness / environment), not a verdict
                                let mut inc = ctx.inconclusive.lock().unwrap();
                                if inc.len() < 5 {
                                    inc.push(format!("{}:{} setup failed: {}", ctx.prop, prop.part(), f.msg));
                                }
                                return Ok(());
                            }
                            if ctx.is_known(&f.sig) {
                                if !failed.get() {
                                    let mut st = stats.borrow_mut();
                                    st.evaluations += 1;
                                    let id = ctx.known_id(&f.sig).unwrap();
                                    *st.known_hits.entry(id).or_default() += 1;
                                }
                                Ok(())
                            } else {
                                if !failed.get() {
                                    stats.borrow_mut().evaluations += 1;
                                }
                                failed.set(true);
                                stop.store(true, Ordering::Relaxed);
                                let msg = f.msg.clone();
                                seen_failures.borrow_mut().insert(case_hash(&case), f);
                                Err(TestCaseError::fail(msg))
                            }
                        }
                    }
                });
                if let Err(e) = result {
                    match e {
                        TestError::Fail(reason, (head, chunks)) => {
                            let raw = Raw { head, chunks };
                            let case = prop.decode(&raw, ctx.tier);
                            // re-execute the shrunk case to capture the structured failure
                            let mut last: Option<Failure> = None;
                            let mut reproduced = 0;
                            for _ in 0..5 {
                                let env = ctx.env(true);
                                if let Err(f) = run_guarded(prop, &case, &env) {
                                    if !ctx.is_known(&f.sig) && f.sig["kind"] != "setup_failed" {
                                        reproduced += 1;
                                        last = Some(f);
                                    }
                                }
                            }
                            if last.is_none() {
                                // not reproduced now (engine-side nondeterminism, e.g. hash-map
                                // iteration order among tied distances): report what was observed
                                last = seen_failures.borrow_mut().remove(&case_hash(&case));
                            }
                            if let Some(f) = last.as_mut() {
                                f.detail = json!({"detail": f.detail.clone(), "reproduced_in_5_reexecutions": reproduced});
                            }
                            match last {
                                Some(f) => ctx.report_violation(prop.part(), &case, &f),
                                None => ctx.inconclusive.lock().unwrap().push(format!(
                                    "{}:{} shrunk failure did not reproduce on re-execution ({})",
                                    ctx.prop,
                                    prop.part(),
                                    reason
                                )),
                            }
                        }
                        TestError::Abort(r) => {
                            ctx.inconclusive.lock().unwrap().push(format!("{}:{} aborted: {}", ctx.prop, prop.part(), r));
                        }
                    }
                }
                merged.lock().unwrap().merge(stats.into_inner());
            });
        }
    });
    ctx.add_part(merged.into_inner().unwrap());
}

/// Run explicit (enumerated or committed) cases through the same accounting.
pub fn run_cases<P: Prop>(ctx: &Ctx, prop: &P, part: &str, cases: Vec<P::Case>, exhaustive: bool) {
    if !part_selected(part.split('/').next().unwrap_or(part)) {
        return;
    }
    let merged = Mutex::new(PartStats { part: part.to_string(), rule: prop.rule(), exhaustive, ..Default::default() });
    let next = AtomicU64::new(0);
    let cases_ref = &cases;
    std::thread::scope(|scope| {
        for _ in 0..ctx.threads.max(1) {
            let merged = &merged;
            let next = &next;
            scope.spawn(move || {
                let mut st = PartStats::default();
                loop {
                    let i = next.fetch_add(1, Ordering::Relaxed) as usize;
                    if i >= cases_ref.len() {
                        break;
                    }
                    let case = &cases_ref[i];
                    let env = ctx.env(true);
                    match run_guarded(prop, case, &env) {
                        Ok(rep) => {
                            let h = case_hash(case);
                            st.absorb(&rep, h, || truncate(format!("{:?}", case), 1800), ctx);
                        }
                        Err(f) => {
                            st.evaluations += 1;
                            if f.sig["kind"] == "setup_failed" {
                                ctx.inconclusive.lock().unwrap().push(format!("{}:{} setup failed: {}", ctx.prop, part, f.msg));
                            } else if let Some(id) = ctx.known_id(&f.sig) {
                                *st.known_hits.entry(id).or_default() += 1;
                            } else {
                                ctx.report_violation(part, case, &f);
                            }
                        }
                    }
                }
                merged.lock().unwrap().merge(st);
            });
        }
    });
    ctx.add_part(merged.into_inner().unwrap());
}

/// Committed regression inputs (`/verif/replays/*.json`) for this property and part.
pub fn run_committed_replays<P: Prop>(ctx: &Ctx, prop: &P) {
    let dir = verif_root().join("replays");
    let Ok(rd) = std::fs::read_dir(&dir) else { return };
    let mut files: Vec<PathBuf> = rd.flatten().map(|e| e.path()).filter(|p| p.extension().map_or(false, |e| e == "json")).collect();
    files.sort();
    let mut cases = vec![];
    for f in files {
        let Ok(text) = std::fs::read_to_string(&f) else { continue };
        let Ok(v) = serde_json::from_str::<Value>(&text) else { continue };
        if v["property"].as_str() != Some(ctx.prop.as_str()) || v["part"].as_str() != Some(prop.part()) {
            continue;
        }
        match serde_json::from_value::<P::Case>(v["case"].clone()) {
            Ok(c) => cases.push(c),
            Err(e) => ctx.inconclusive.lock().unwrap().push(format!("replay {} does not decode: {}", f.display(), e)),
        }
    }
    if !cases.is_empty() {
        let part = format!("{}/regressions", prop.part());
        run_cases(ctx, prop, &part, cases, false);
    }
}

/// `kvh replay <file>` for one Prop: Some(exit code) if the file belongs to it.
pub fn replay_file<P: Prop>(ctx: &Ctx, prop: &P, v: &Value) -> Option<i32> {
    if v["part"].as_str() != Some(prop.part()) {
        return None;
    }
    let case: P::Case = match serde_json::from_value(v["case"].clone()) {
        Ok(c) => c,
        Err(e) => {
            eprintln!("replay: case does not decode: {}", e);
            return Some(2);
        }
    };
    let env = ctx.env(true);
    match run_guarded(prop, &case, &env) {
        Ok(_) => {
            println!("replay: property held on this case");
            Some(0)
        }
        Err(f) => {
            if let Some(id) = ctx.known_id(&f.sig) {
                println!("KNOWN-FINDING: property={} {} ({})", ctx.prop, id, f.msg);
                Some(0)
            } else {
                let path = ctx.write_replay(prop.part(), &case, &f);
                println!("{}", f.msg);
                println!("VIOLATION property={} replay={}", ctx.prop, path.display());
                Some(1)
            }
        }
    }
}

/// Write evidence, print protocol lines, return the exit code.
pub fn finish(ctx: &Ctx, level: &str) -> i32 {
    let parts = ctx.parts.lock().unwrap();
    let viol = ctx.violations.lock().unwrap();
    let inconc = ctx.inconclusive.lock().unwrap();

    let mut evaluations = 0u64;
    let mut distinct = 0u64;
    let mut samples: Vec<Value> = vec![];
    let mut rules: Vec<String> = vec![];
    let mut hist = serde_json::Map::new();
    let mut excluded = serde_json::Map::new();
    let mut counters = serde_json::Map::new();
    let mut known_hits: BTreeMap<String, u64> = BTreeMap::new();
    let mut parts_json = serde_json::Map::new();
    let mut all_exhaustive = !parts.is_empty();
    for p in parts.iter() {
        evaluations += p.evaluations;
        distinct += p.nontrivial.len() as u64;
        for s in &p.samples {
            samples.push(json!({ "part": p.part, "case": s }));
        }
        if !p.rule.is_empty() && !rules.contains(&format!("[{}] {}", p.part.split('/').next().unwrap_or(""), p.rule)) {
            rules.push(format!("[{}] {}", p.part.split('/').next().unwrap_or(""), p.rule));
        }
        for (k, v) in &p.labels {
            hist.insert(format!("{}:{}", p.part, k), json!(v));
        }
        for (k, v) in &p.excluded {
            excluded.insert(format!("{}:{}", p.part, k), json!(v));
        }
        for (k, v) in &p.counters {
            counters.insert(format!("{}:{}", p.part, k), json!(v));
        }
        for (k, v) in &p.known_hits {
            *known_hits.entry(k.clone()).or_default() += v;
        }
        all_exhaustive &= p.exhaustive;
        parts_json.insert(
            p.part.clone(),
            json!({"evaluations": p.evaluations, "distinct_nontrivial": p.nontrivial.len(), "exhaustive": p.exhaustive}),
        );
    }
    if samples.is_empty() {
        samples.push(json!("no non-trivial case was generated in this run"));
    }
    let mut coverage = json!({
        "evaluations": evaluations,
        "distinct_nontrivial": distinct,
        "rule": rules.join(" | "),
        "samples": samples,
        "class_histogram": hist,
        "excluded": excluded,
        "counters": counters,
        "known_finding_hits": known_hits,
        "parts": parts_json,
        "threads": ctx.threads,
    });
    if all_exhaustive {
        coverage["exhaustive"] = json!(true);
    }
    let ev = json!({
        "property_id": ctx.prop,
        "tier": ctx.tier.name(),
        "seed": ctx.seed as i64,
        "level": level,
        "coverage": coverage,
        "assumptions": *ctx.assumptions.lock().unwrap(),
        "wall_s": (ctx.elapsed_s() * 1000.0).round() / 1000.0,
        "violations": viol.len(),
        "inconclusive": *inconc,
    });
    let evdir = verif_root().join("evidence");
    let _ = std::fs::create_dir_all(&evdir);
    let evpath = evdir.join(format!("{}.json", ctx.prop));
    std::fs::write(&evpath, serde_json::to_string_pretty(&ev).unwrap()).expect("write evidence");

    for (id, n) in &known_hits {
        let what = ctx.known.iter().find(|k| &k.id == id).map(|k| k.what.clone()).unwrap_or_default();
        println!("KNOWN-FINDING: property={} {} hits={} {}", ctx.prop, id, n, what);
    }
    println!(
        "[{}] tier={} seed={} evaluations={} distinct_nontrivial={} violations={} wall={:.1}s",
        ctx.prop,
        ctx.tier.name(),
        ctx.seed,
        evaluations,
        distinct,
        viol.len(),
        ctx.elapsed_s()
    );
    if std::env::var("KVH_KEEP_SCRATCH").is_err() {
        let _ = std::fs::remove_dir_all(&ctx.scratch_base);
    }
    if !viol.is_empty() {
        for v in viol.iter() {
            println!("VIOLATION property={} replay={}", ctx.prop, v.replay.display());
        }
        return 1;
    }
    if !inconc.is_empty() {
        for m in inconc.iter().take(20) {
            eprintln!("INCONCLUSIVE: {}", m);
        }
        // A handful of cases that could not be set up (a server that did not come up in time on
        // a loaded machine) do not make the whole run inconclusive: they are not judged, they
        // are listed in the evidence, and the run is decided by everything else.  More than
        // that (or a watchdog / build problem, which never gets here) is exit 2.
        let tolerated = (evaluations / 100).max(2) as usize;
        if inconc.len() > tolerated || evaluations == 0 {
            return 2;
        }
        eprintln!("NOTE: {} case(s) could not be set up and were not judged (tolerated: up to {})", inconc.len(), tolerated);
    }
    0
}
