//! Rust side of the LD_PRELOAD syscall shim (`fsshim.so`): symbol lookup, re-exec of the
//! harness under the shim, effect-log decoding.

use std::ffi::{CStr, CString};
use std::os::raw::{c_char, c_int, c_long, c_uchar, c_void};
use std::path::PathBuf;

pub const F_WRITE: i32 = 1;
pub const F_FSYNC: i32 = 2;
pub const F_FDATASYNC: i32 = 4;
pub const F_FTRUNCATE: i32 = 8;
pub const F_RENAME: i32 = 16;
pub const F_OPEN: i32 = 32;
pub const F_UNLINK: i32 = 64;

pub struct Shim {
    begin: unsafe extern "C" fn(*const c_char),
    end: unsafe extern "C" fn(),
    mark: unsafe extern "C" fn(i64, i64),
    take: unsafe extern "C" fn(*mut *mut c_uchar, *mut usize),
    free: unsafe extern "C" fn(*mut c_uchar),
    arm: unsafe extern "C" fn(c_int, c_long, c_int, c_long, c_int),
    disarm: unsafe extern "C" fn(),
    count: unsafe extern "C" fn(c_int) -> c_long,
    fired: unsafe extern "C" fn() -> c_int,
}

unsafe fn sym(name: &str) -> *mut c_void {
    let c = CString::new(name).unwrap();
    libc::dlsym(libc::RTLD_DEFAULT, c.as_ptr())
}

pub fn shim_path() -> PathBuf {
    super::runner::verif_root().join("target/fsshim.so")
}

impl Shim {
    pub fn get() -> Option<&'static Shim> {
        static CELL: std::sync::OnceLock<Option<Shim>> = std::sync::OnceLock::new();
        CELL.get_or_init(|| unsafe {
            if sym("fsshim_version").is_null() {
                return None;
            }
            Some(Shim {
                begin: std::mem::transmute(sym("fsshim_begin")),
                end: std::mem::transmute(sym("fsshim_end")),
                mark: std::mem::transmute(sym("fsshim_mark")),
                take: std::mem::transmute(sym("fsshim_take")),
                free: std::mem::transmute(sym("fsshim_free")),
                arm: std::mem::transmute(sym("fsshim_arm")),
                disarm: std::mem::transmute(sym("fsshim_disarm")),
                count: std::mem::transmute(sym("fsshim_count")),
                fired: std::mem::transmute(sym("fsshim_fired")),
            })
        })
        .as_ref()
    }

    pub fn begin(&self, root: &std::path::Path) {
        let c = CString::new(root.to_string_lossy().as_bytes()).unwrap();
        unsafe { (self.begin)(c.as_ptr()) }
    }
    pub fn end(&self) {
        unsafe { (self.end)() }
    }
    pub fn mark(&self, a: i64, b: i64) {
        unsafe { (self.mark)(a, b) }
    }
    pub fn arm(&self, kind_mask: i32, nth: i64, err: i32, partial: i64, repeat: i32) {
        unsafe { (self.arm)(kind_mask, nth as c_long, err, partial as c_long, repeat) }
    }
    pub fn disarm(&self) {
        unsafe { (self.disarm)() }
    }
    pub fn count(&self, kind: i32) -> i64 {
        unsafe { (self.count)(kind) as i64 }
    }
    pub fn fired(&self) -> i32 {
        unsafe { (self.fired)() }
    }
    pub fn take(&self) -> Vec<Eff> {
        let mut p: *mut c_uchar = std::ptr::null_mut();
        let mut n: usize = 0;
        unsafe { (self.take)(&mut p, &mut n) };
        if p.is_null() {
            return vec![];
        }
        let bytes = unsafe { std::slice::from_raw_parts(p, n) }.to_vec();
        unsafe { (self.free)(p) };
        decode_log(&bytes)
    }
}

/// One recorded file-system effect (paths are absolute).
#[derive(Clone, Debug, PartialEq)]
pub enum Eff {
    Open { path: String, flags: i64, existed: bool },
    Write { path: String, off: u64, data: Vec<u8>, faulted: bool },
    Fsync { path: String, is_dir: bool },
    Rename { from: String, to: String },
    Unlink { path: String },
    Truncate { path: String, len: u64 },
    Mkdir { path: String },
    Mark { a: i64, b: i64 },
}

fn decode_log(b: &[u8]) -> Vec<Eff> {
    let mut out = vec![];
    let mut p = 0usize;
    let rd_u32 = |p: &mut usize| {
        let v = u32::from_le_bytes(b[*p..*p + 4].try_into().unwrap());
        *p += 4;
        v as usize
    };
    while p < b.len() {
        let kind = b[p];
        p += 1;
        let l1 = rd_u32(&mut p);
        let s1 = String::from_utf8_lossy(&b[p..p + l1]).to_string();
        p += l1;
        let l2 = rd_u32(&mut p);
        let d2 = b[p..p + l2].to_vec();
        p += l2;
        let a = i64::from_le_bytes(b[p..p + 8].try_into().unwrap());
        p += 8;
        let bb = i64::from_le_bytes(b[p..p + 8].try_into().unwrap());
        p += 8;
        out.push(match kind {
            1 => Eff::Open { path: s1, flags: a, existed: bb != 0 },
            2 => Eff::Write { path: s1, off: a as u64, data: d2, faulted: bb != 0 },
            3 => Eff::Fsync { path: s1, is_dir: a != 0 },
            4 => Eff::Rename { from: s1, to: String::from_utf8_lossy(&d2).to_string() },
            5 => Eff::Unlink { path: s1 },
            6 => Eff::Truncate { path: s1, len: a as u64 },
            7 => Eff::Mkdir { path: s1 },
            _ => Eff::Mark { a, b: bb },
        });
    }
    out
}

/// Re-execute the harness under LD_PRELOAD if the shim is not loaded yet.
pub fn ensure_loaded_or_reexec() {
    if Shim::get().is_some() {
        return;
    }
    if std::env::var("KVH_SHIM_REEXEC").is_ok() {
        eprintln!("INCONCLUSIVE: fsshim.so could not be loaded (LD_PRELOAD={:?})", std::env::var("LD_PRELOAD").ok());
        std::process::exit(2);
    }
    let so = shim_path();
    if !so.exists() {
        eprintln!("INCONCLUSIVE: {} missing (run ./setup.sh)", so.display());
        std::process::exit(2);
    }
    use std::os::unix::process::CommandExt;
    let exe = std::env::current_exe().expect("current_exe");
    let args: Vec<String> = std::env::args().skip(1).collect();
    let err = std::process::Command::new(exe).args(args).env("LD_PRELOAD", &so).env("KVH_SHIM_REEXEC", "1").exec();
    eprintln!("INCONCLUSIVE: re-exec under the shim failed: {}", err);
    std::process::exit(2);
}

pub fn errno_name(e: i32) -> &'static str {
    match e {
        libc::ENOSPC => "ENOSPC",
        libc::EIO => "EIO",
        libc::EDQUOT => "EDQUOT",
        libc::EINTR => "EINTR",
        libc::EACCES => "EACCES",
        0 => "short",
        _ => "errno",
    }
}

#[allow(dead_code)]
pub fn cstr(p: *const c_char) -> String {
    unsafe { CStr::from_ptr(p) }.to_string_lossy().to_string()
}
