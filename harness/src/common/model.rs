//! Reference model of the collection: id -> (stored vector bits, metadata).
//! Independent of the engine: a BTreeMap with upsert / delete / merge / replace semantics.

use kyrodb_engine::DistanceMetric;
use serde::{Deserialize, Serialize};
use std::collections::{BTreeMap, HashMap};

pub type Meta = BTreeMap<String, String>;

#[derive(Clone, Debug, PartialEq, Eq, Serialize, Deserialize)]
pub struct Doc {
    /// bit patterns of the stored f32 lanes (exact comparison, NaN-safe)
    pub bits: Vec<u32>,
    pub meta: Meta,
}

impl Doc {
    pub fn vec_f32(&self) -> Vec<f32> {
        self.bits.iter().map(|b| f32::from_bits(*b)).collect()
    }
    pub fn vec_f64(&self) -> Vec<f64> {
        self.bits.iter().map(|b| f32::from_bits(*b) as f64).collect()
    }
}

#[derive(Clone, Debug, Default, PartialEq, Eq, Serialize, Deserialize)]
pub struct Model {
    pub docs: BTreeMap<u64, Doc>,
}

pub fn bits_of(v: &[f32]) -> Vec<u32> {
    v.iter().map(|x| x.to_bits()).collect()
}

pub fn meta_from_hash(m: &HashMap<String, String>) -> Meta {
    m.iter().map(|(k, v)| (k.clone(), v.clone())).collect()
}

pub fn meta_to_hash(m: &Meta) -> HashMap<String, String> {
    m.iter().map(|(k, v)| (k.clone(), v.clone())).collect()
}

impl Model {
    pub fn new() -> Self {
        Model { docs: BTreeMap::new() }
    }
    pub fn len(&self) -> usize {
        self.docs.len()
    }
    pub fn contains(&self, id: u64) -> bool {
        self.docs.contains_key(&id)
    }
    pub fn get(&self, id: u64) -> Option<&Doc> {
        self.docs.get(&id)
    }
    /// upsert with already-normalised stored bits
    pub fn put(&mut self, id: u64, bits: Vec<u32>, meta: Meta) {
        self.docs.insert(id, Doc { bits, meta });
    }
    pub fn delete(&mut self, id: u64) -> bool {
        self.docs.remove(&id).is_some()
    }
    /// returns number of distinct existing ids removed
    pub fn batch_delete(&mut self, ids: &[u64]) -> u64 {
        let mut n = 0;
        for id in ids {
            if self.docs.remove(id).is_some() {
                n += 1;
            }
        }
        n
    }
    pub fn update_meta(&mut self, id: u64, meta: &Meta, merge: bool) -> bool {
        match self.docs.get_mut(&id) {
            None => false,
            Some(d) => {
                if merge {
                    for (k, v) in meta {
                        d.meta.insert(k.clone(), v.clone());
                    }
                } else {
                    d.meta = meta.clone();
                }
                true
            }
        }
    }
}

/// f64 re-implementation of the engine's documented write-time normalisation
/// (Cosine / InnerProduct: scale to unit length unless the squared norm is already inside
/// [0.98, 1.02]; Euclidean: verbatim).  Used only as a *sanity band* around the bits read
/// back from the engine, never as the exact expected value.
pub fn normalise_f64(metric: DistanceMetric, v: &[f32]) -> Option<Vec<f64>> {
    let x: Vec<f64> = v.iter().map(|a| *a as f64).collect();
    match metric {
        DistanceMetric::Euclidean => Some(x),
        _ => {
            let ns: f64 = x.iter().map(|a| a * a).sum();
            if !(ns.is_finite()) || ns <= 0.0 {
                return None;
            }
            if (0.98..=1.02).contains(&ns) {
                // engine decides in f32; near the band edge either outcome is legitimate
                return Some(x);
            }
            let inv = 1.0 / ns.sqrt();
            Some(x.iter().map(|a| a * inv).collect())
        }
    }
}

/// Is `stored` a plausible engine normalisation of `input`?  Accepts both "kept verbatim"
/// and "scaled to unit" when the squared norm is within 1e-3 of a band edge.
pub fn stored_plausible(metric: DistanceMetric, input: &[f32], stored: &[f32]) -> bool {
    if input.len() != stored.len() {
        return false;
    }
    let close = |a: &[f64], b: &[f32]| {
        a.iter().zip(b.iter()).all(|(x, y)| {
            let y = *y as f64;
            (x - y).abs() <= 1e-5 * (1.0 + x.abs())
        })
    };
    let raw: Vec<f64> = input.iter().map(|a| *a as f64).collect();
    match metric {
        DistanceMetric::Euclidean => input.iter().zip(stored).all(|(a, b)| a.to_bits() == b.to_bits()),
        _ => {
            let ns: f64 = raw.iter().map(|a| a * a).sum();
            let inv = 1.0 / ns.sqrt();
            let unit: Vec<f64> = raw.iter().map(|a| a * inv).collect();
            let in_band = (0.98 - 1e-3..=1.02 + 1e-3).contains(&ns);
            let strictly_in = (0.98 + 1e-3..=1.02 - 1e-3).contains(&ns);
            if strictly_in {
                close(&raw, stored)
            } else if in_band {
                close(&raw, stored) || close(&unit, stored)
            } else {
                close(&unit, stored)
            }
        }
    }
}

/// Reference distance in f64 between a query (as given by the caller) and a stored vector,
/// as the engine documents it: Euclidean = L2; Cosine / InnerProduct = max(0, 1 - dot) on
/// (normalised query, stored vector).
pub fn ref_distance(metric: DistanceMetric, query: &[f32], stored: &[f32]) -> f64 {
    match metric {
        DistanceMetric::Euclidean => {
            let s: f64 = query
                .iter()
                .zip(stored)
                .map(|(a, b)| {
                    let d = *a as f64 - *b as f64;
                    d * d
                })
                .sum();
            s.sqrt()
        }
        _ => {
            let q = normalise_query_f64(query);
            let dot: f64 = q.iter().zip(stored).map(|(a, b)| a * (*b as f64)).sum();
            (1.0 - dot).max(0.0)
        }
    }
}

/// Query normalisation as the engine does it (f32 decision on the band, then scale).
pub fn normalise_query_f64(query: &[f32]) -> Vec<f64> {
    let ns32: f32 = query.iter().map(|a| a * a).sum();
    let x: Vec<f64> = query.iter().map(|a| *a as f64).collect();
    if (0.98f32..=1.02f32).contains(&ns32) {
        return x;
    }
    let ns: f64 = x.iter().map(|a| a * a).sum();
    let inv = 1.0 / ns.sqrt();
    x.iter().map(|a| a * inv).collect()
}
