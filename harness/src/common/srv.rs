//! E4 — driver for the REAL `kyrodb_server` binary (built from the repository's source file in
//! this workspace): configuration + API-key files, process start/stop (SIGTERM / SIGKILL),
//! tonic client, plain HTTP for `/usage`.

use kyrodb_engine::proto::kyro_db_service_client::KyroDbServiceClient;
use std::io::{Read, Write};
use std::path::{Path, PathBuf};
use std::process::{Child, Command, Stdio};
use std::time::{Duration, Instant};
use tonic::transport::Channel;

pub type Client = KyroDbServiceClient<Channel>;

#[derive(Clone, Debug)]
pub struct TenantSpec {
    pub id: &'static str,
    pub key: String,
    pub max_vectors: usize,
    pub max_qps: u32,
    pub admin: bool,
    pub enabled: bool,
}

pub fn key_for(tenant: &str, n: u8) -> String {
    format!("kyro_{}_{}", tenant, format!("{:02x}", n).repeat(16))
}

#[derive(Clone, Debug)]
pub struct SrvCfg {
    pub dim: usize,
    pub metric: &'static str,
    pub auth: bool,
    pub tenants: Vec<TenantSpec>,
    /// hot tier soft size (cache.capacity): large keeps every recent write in the exhaustive tier
    pub cache_capacity: usize,
    pub snapshot_interval: u64,
    pub max_wal_bytes: u64,
    pub fsync: &'static str,
    pub rate_limit: bool,
    pub max_qps_global: usize,
    pub max_elements: usize,
    pub extra: String,
}

impl SrvCfg {
    pub fn default_for(dim: usize, metric: &'static str, auth: bool, max_vectors: usize) -> SrvCfg {
        let t = |id: &'static str, n: u8, admin: bool, enabled: bool| TenantSpec { id, key: key_for(id, n), max_vectors, max_qps: 0, admin, enabled };
        SrvCfg {
            dim,
            metric,
            auth,
            tenants: vec![t("alpha", 0xa1, false, true), t("beta", 0xb2, false, true), t("gamma", 0xc3, false, true), t("root", 0xd4, true, true), t("ghost", 0xe5, false, false)],
            cache_capacity: 5000,
            snapshot_interval: 0,
            max_wal_bytes: 100 << 20,
            fsync: "none",
            rate_limit: false,
            max_qps_global: 100_000,
            max_elements: 20_000,
            extra: String::new(),
        }
    }
}

pub struct Server {
    pub cfg: SrvCfg,
    pub root: PathBuf,
    pub port: u16,
    pub child: Option<Child>,
}

fn server_exe() -> PathBuf {
    let me = std::env::current_exe().expect("current_exe");
    me.parent().unwrap().join("kyrodb_server")
}

pub fn port_for(shard: usize) -> u16 {
    // per-process, per-shard port pair (gRPC, HTTP); avoids clashes between concurrent checks
    // stay below the kernel's ephemeral port range (32768..)
    20_000 + (std::process::id() % 60) as u16 * 200 + (shard % 100) as u16 * 2
}

impl Server {
    pub fn new(cfg: SrvCfg, root: &Path, shard: usize) -> Server {
        std::fs::create_dir_all(root).unwrap();
        Server { cfg, root: root.to_path_buf(), port: port_for(shard), child: None }
    }

    pub fn data_dir(&self) -> PathBuf {
        self.root.join("data")
    }

    fn write_files(&self) -> PathBuf {
        let keys = self.root.join("keys.yaml");
        let mut y = String::from("api_keys:\n");
        for t in &self.cfg.tenants {
            y.push_str(&format!(
                "  - key: {}\n    tenant_id: {}\n    tenant_name: {}\n    max_qps: {}\n    max_vectors: {}\n    is_admin: {}\n    enabled: {}\n",
                t.key, t.id, t.id, t.max_qps, t.max_vectors, t.admin, t.enabled
            ));
        }
        std::fs::write(&keys, y).unwrap();
        let c = &self.cfg;
        let toml = format!(
            r#"[environment]
type = "benchmark"
[server]
host = "127.0.0.1"
port = {port}
http_port = {http}
[persistence]
data_dir = "{data}"
fsync_policy = "{fsync}"
recovery_mode = "strict"
allow_fresh_start_on_recovery_failure = false
snapshot_interval_mutations = {snap}
max_wal_size_bytes = {wal}
wal_flush_interval_ms = 50
[hnsw]
dimension = {dim}
distance = "{metric}"
max_elements = {maxel}
[cache]
capacity = {cap}
strategy = "lru"
enable_training_task = false
query_cache_capacity = 64
query_cache_similarity_threshold = 1.0
hot_tier_max_age_secs = 36000
min_training_samples = 1
[auth]
enabled = {auth}
{keys}
[rate_limit]
enabled = {rl}
max_qps_global = {gq}
[timeouts]
cache_ms = 30000
hot_tier_ms = 30000
cold_tier_ms = 30000
[logging]
level = "error"
{extra}
"#,
            port = self.port,
            http = self.port + 1,
            data = self.data_dir().display(),
            fsync = c.fsync,
            snap = c.snapshot_interval,
            wal = c.max_wal_bytes,
            dim = c.dim,
            metric = c.metric,
            cap = c.cache_capacity,
            auth = c.auth,
            keys = if c.auth { format!("api_keys_file = \"{}\"", keys.display()) } else { String::new() },
            rl = c.rate_limit,
            gq = c.max_qps_global,
            maxel = c.max_elements,
            extra = c.extra,
        );
        let path = self.root.join("server.toml");
        std::fs::write(&path, toml).unwrap();
        path
    }

    /// Start the server and wait until its gRPC port accepts connections.
    pub fn start(&mut self) -> Result<(), String> {
        let mut last = String::new();
        for attempt in 0..4 {
            let cfg = self.write_files();
            match self.start_with_config(&cfg, Duration::from_secs(20)) {
                Ok(()) => return Ok(()),
                Err(e) => {
                    last = e;
                    if last.contains("in use") || last.contains("AddrInUse") {
                        // somebody else (or a lingering socket) owns the port: move on
                        self.port = 14_000 + (self.port % 5000) + attempt as u16 * 2;
                        continue;
                    }
                    if last.contains("did not open port") && attempt == 0 {
                        // a heavily loaded machine: give it one more (fresh) attempt
                        self.stop_kill();
                        continue;
                    }
                    return Err(last);
                }
            }
        }
        Err(last)
    }

    pub fn start_with_config(&mut self, cfg: &Path, wait: Duration) -> Result<(), String> {
        let log = std::fs::File::create(self.root.join("server.log")).map_err(|e| e.to_string())?;
        let mut cmd = Command::new(server_exe());
        cmd.arg("--config").arg(cfg).env("RUST_BACKTRACE", "0").stdin(Stdio::null()).stdout(Stdio::from(log.try_clone().unwrap())).stderr(Stdio::from(log));
        for (k, _) in std::env::vars() {
            if k.starts_with("KYRODB") || k == "LD_PRELOAD" {
                cmd.env_remove(k);
            }
        }
        let child = cmd.spawn().map_err(|e| format!("spawn server: {}", e))?;
        self.child = Some(child);
        let t0 = Instant::now();
        loop {
            if std::net::TcpStream::connect(("127.0.0.1", self.port)).is_ok() {
                return Ok(());
            }
            if let Some(c) = self.child.as_mut() {
                if let Ok(Some(st)) = c.try_wait() {
                    self.child = None;
                    return Err(format!("server exited during start-up: {:?}; log tail: {}", st, self.log_tail()));
                }
            }
            if t0.elapsed() > wait {
                return Err(format!("server did not open port {} within {:?}; log tail: {}", self.port, wait, self.log_tail()));
            }
            std::thread::sleep(Duration::from_millis(15));
        }
    }

    pub fn log_tail(&self) -> String {
        let s = std::fs::read_to_string(self.root.join("server.log")).unwrap_or_default();
        // the interesting part of a failed start is the first "Error:" line, not the backtrace
        if let Some(p) = s.find("Error:") {
            return s[p..].chars().take(500).collect::<String>().replace('\n', " | ");
        }
        let n = s.len();
        let mut cut = n.saturating_sub(600);
        while !s.is_char_boundary(cut) {
            cut += 1;
        }
        s[cut..].replace('\n', " | ")
    }

    pub fn is_alive(&mut self) -> bool {
        match self.child.as_mut() {
            Some(c) => matches!(c.try_wait(), Ok(None)),
            None => false,
        }
    }

    /// Graceful stop (SIGTERM) — the server drains and persists usage state.
    pub fn stop_term(&mut self) -> Option<i32> {
        let Some(mut c) = self.child.take() else { return None };
        unsafe { libc::kill(c.id() as i32, libc::SIGTERM) };
        let t0 = Instant::now();
        loop {
            match c.try_wait() {
                Ok(Some(st)) => return st.code(),
                Ok(None) => {}
                Err(_) => return None,
            }
            if t0.elapsed() > Duration::from_secs(15) {
                let _ = c.kill();
                let _ = c.wait();
                return None;
            }
            std::thread::sleep(Duration::from_millis(10));
        }
    }

    pub fn stop_kill(&mut self) {
        if let Some(mut c) = self.child.take() {
            let _ = c.kill();
            let _ = c.wait();
        }
    }

    pub async fn client(&self) -> Result<Client, String> {
        let ep = tonic::transport::Endpoint::from_shared(format!("http://127.0.0.1:{}", self.port)).map_err(|e| e.to_string())?.timeout(Duration::from_secs(20)).connect_timeout(Duration::from_secs(5));
        let ch = ep.connect().await.map_err(|e| format!("connect: {}", e))?;
        Ok(KyroDbServiceClient::new(ch).max_decoding_message_size(64 << 20).max_encoding_message_size(64 << 20))
    }

    /// GET on the observability port; returns (status code, body).
    pub fn http_get(&self, path: &str, api_key: Option<&str>) -> Result<(u16, String), String> {
        let mut s = std::net::TcpStream::connect(("127.0.0.1", self.port + 1)).map_err(|e| e.to_string())?;
        s.set_read_timeout(Some(Duration::from_secs(10))).ok();
        let mut req = format!("GET {} HTTP/1.1\r\nHost: 127.0.0.1\r\nConnection: close\r\n", path);
        if let Some(k) = api_key {
            req.push_str(&format!("x-api-key: {}\r\n", k));
        }
        req.push_str("\r\n");
        s.write_all(req.as_bytes()).map_err(|e| e.to_string())?;
        let mut buf = Vec::new();
        let _ = s.read_to_end(&mut buf);
        let text = String::from_utf8_lossy(&buf).to_string();
        let code = text.split_whitespace().nth(1).and_then(|c| c.parse::<u16>().ok()).unwrap_or(0);
        let body = text.split("\r\n\r\n").nth(1).unwrap_or("").to_string();
        // chunked bodies: strip chunk size lines crudely
        let body = if text.to_ascii_lowercase().contains("transfer-encoding: chunked") {
            body.lines().filter(|l| !l.trim().chars().all(|c| c.is_ascii_hexdigit()) || l.trim().is_empty()).collect::<Vec<_>>().join("")
        } else {
            body
        };
        Ok((code, body))
    }
}

impl Drop for Server {
    fn drop(&mut self) {
        self.stop_kill();
    }
}

/// A start-up that merely timed out (process alive, port not open yet: a loaded machine) is a
/// set-up problem, not a verdict; a process that EXITED during start-up is a refusal to start.
pub fn start_failure(kind_if_refused: &str, msg: String, err: &str) -> crate::common::runner::Failure {
    if err.contains("did not open port") {
        crate::common::runner::Failure::new("setup_failed", format!("(start-up timed out, not judged) {}", msg))
    } else {
        crate::common::runner::Failure::new(kind_if_refused, msg)
    }
}

/// Attach an API key to a request.
pub fn with_key<T>(msg: T, key: Option<&str>) -> tonic::Request<T> {
    let mut r = tonic::Request::new(msg);
    if let Some(k) = key {
        if let Ok(v) = k.parse() {
            r.metadata_mut().insert("x-api-key", v);
        }
    }
    r.set_timeout(Duration::from_secs(20));
    r
}
