//! Operation language over the persistent cold tier (`HnswBackend`) and its interpreter
//! against the reference model.  Shared by C01, C02, C03, C09, C12, C13.

use super::eng::BackendCfg;
use super::gens::{meta_map, valid_vector, FVec};
use super::model::{bits_of, meta_to_hash, stored_plausible, Meta, Model};
use super::runner::Failure;
use super::tape::Tape;
use kyrodb_engine::HnswBackend;
use serde::{Deserialize, Serialize};
use serde_json::json;

#[derive(Clone, Debug, PartialEq, Serialize, Deserialize)]
pub enum BOp {
    Insert { id: u64, vec: FVec, meta: Meta },
    Delete { id: u64 },
    BatchDelete { ids: Vec<u64> },
    UpdateMeta { id: u64, meta: Meta, merge: bool },
    Snapshot,
    Restart,
}

impl BOp {
    pub fn is_write(&self) -> bool {
        !matches!(self, BOp::Snapshot | BOp::Restart)
    }
    pub fn short(&self) -> String {
        match self {
            BOp::Insert { id, .. } => format!("insert({})", id),
            BOp::Delete { id } => format!("delete({})", id),
            BOp::BatchDelete { ids } => format!("batch_delete({:?})", ids),
            BOp::UpdateMeta { id, merge, .. } => format!("update_meta({}, merge={})", id, merge),
            BOp::Snapshot => "snapshot".into(),
            BOp::Restart => "restart".into(),
        }
    }
}

pub const BIG_IDS: &[u64] = &[0, 4_294_967_296 + 5, 1 << 50, u64::MAX - 1];

pub fn pick_id(t: &mut Tape, pool: usize) -> u64 {
    if t.chance(12) {
        BIG_IDS[t.below(BIG_IDS.len())]
    } else {
        1 + t.below(pool) as u64
    }
}

/// Weights: insert, delete, batch delete, update metadata, snapshot, restart
pub fn decode_bop(chunk: &[u8], cfg: &BackendCfg, pool: usize, weights: &[u32; 6]) -> BOp {
    let mut t = Tape::new(chunk);
    match t.weighted(weights) {
        0 => {
            let id = pick_id(&mut t, pool);
            let vec = FVec(valid_vector(&mut t, cfg.dim, cfg.metric));
            let meta = meta_map(&mut t, 3);
            BOp::Insert { id, vec, meta }
        }
        1 => BOp::Delete { id: pick_id(&mut t, pool) },
        2 => {
            let n = t.below(5);
            let mut ids: Vec<u64> = (0..n).map(|_| pick_id(&mut t, pool)).collect();
            if n >= 2 && t.chance(100) {
                let d = ids[0];
                ids.push(d); // duplicate inside the batch
            }
            BOp::BatchDelete { ids }
        }
        3 => {
            let id = pick_id(&mut t, pool);
            let merge = t.chance(128);
            let meta = meta_map(&mut t, 3);
            BOp::UpdateMeta { id, meta, merge }
        }
        4 => BOp::Snapshot,
        _ => BOp::Restart,
    }
}

#[derive(Default, Debug, Clone)]
pub struct StepInfo {
    pub overwrote: bool,
    pub deleted_existing: bool,
    pub reinserted: bool,
    pub index_full_err: bool,
}

/// Apply one write operation to the engine and to the model, checking the return value.
/// `ever_deleted` tracks ids that were deleted at some point (for the re-insertion label).
pub fn apply_write(
    b: &HnswBackend,
    model: &mut Model,
    op: &BOp,
    cfg: &BackendCfg,
    ever_deleted: &mut std::collections::BTreeSet<u64>,
) -> Result<StepInfo, Failure> {
    let mut info = StepInfo::default();
    match op {
        BOp::Insert { id, vec, meta } => {
            let existed = model.contains(*id);
            match b.insert(*id, vec.0.clone(), meta_to_hash(meta)) {
                Ok(()) => {
                    let stored = b.fetch_document(*id).ok_or_else(|| {
                        Failure::new("ack_not_visible", format!("insert({}) acknowledged but fetch_document returns None", id))
                    })?;
                    if !stored_plausible(cfg.metric.to_engine(), &vec.0, &stored) {
                        return Err(Failure::new(
                            "stored_vector_implausible",
                            format!("insert({}) stored {:?} for input {:?} under {:?}", id, &stored[..stored.len().min(6)], vec, cfg.metric),
                        ));
                    }
                    model.put(*id, bits_of(&stored), meta.clone());
                    info.overwrote = existed;
                    info.reinserted = !existed && ever_deleted.contains(id);
                }
                Err(e) => {
                    let msg = format!("{:#}", e);
                    if msg.contains("HNSW index full") && model.len() >= cfg.capacity {
                        info.index_full_err = true;
                    } else {
                        return Err(Failure::new(
                            "valid_insert_rejected",
                            format!("valid insert({}) failed with live={} capacity={}: {}", id, model.len(), cfg.capacity, msg),
                        )
                        .with_sig(json!({"kind": "valid_insert_rejected"})));
                    }
                }
            }
        }
        BOp::Delete { id } => {
            let expect = model.contains(*id);
            match b.delete(*id) {
                Ok(got) => {
                    if got != expect {
                        return Err(Failure::new("delete_return", format!("delete({}) returned {} but model says {}", id, got, expect)));
                    }
                    if got {
                        model.delete(*id);
                        ever_deleted.insert(*id);
                        info.deleted_existing = true;
                    }
                }
                Err(e) => return Err(Failure::new("valid_delete_rejected", format!("delete({}) failed: {:#}", id, e))),
            }
        }
        BOp::BatchDelete { ids } => {
            let mut m2 = model.clone();
            let expect = m2.batch_delete(ids);
            match b.batch_delete(ids) {
                Ok(got) => {
                    if got != expect {
                        return Err(Failure::new(
                            "batch_delete_return",
                            format!("batch_delete({:?}) returned {} but model says {}", ids, got, expect),
                        ));
                    }
                    for id in ids {
                        if model.contains(*id) {
                            ever_deleted.insert(*id);
                        }
                    }
                    *model = m2;
                    info.deleted_existing = expect > 0;
                }
                Err(e) => return Err(Failure::new("valid_delete_rejected", format!("batch_delete({:?}) failed: {:#}", ids, e))),
            }
        }
        BOp::UpdateMeta { id, meta, merge } => {
            let expect = model.contains(*id);
            match b.update_metadata(*id, meta_to_hash(meta), *merge) {
                Ok(got) => {
                    if got != expect {
                        return Err(Failure::new(
                            "update_return",
                            format!("update_metadata({}) returned {} but model says {}", id, got, expect),
                        ));
                    }
                    model.update_meta(*id, meta, *merge);
                }
                Err(e) => return Err(Failure::new("valid_update_rejected", format!("update_metadata({}) failed: {:#}", id, e))),
            }
        }
        BOp::Snapshot | BOp::Restart => unreachable!("not a write"),
    }
    Ok(info)
}

/// Pure model transition (used where the engine's acknowledgement is judged elsewhere,
/// e.g. crash exploration): stored bits must be supplied by the caller for inserts.
pub fn model_apply(model: &mut Model, op: &BOp, stored_bits: Option<Vec<u32>>) {
    match op {
        BOp::Insert { id, meta, .. } => {
            model.put(*id, stored_bits.expect("stored bits for insert"), meta.clone());
        }
        BOp::Delete { id } => {
            model.delete(*id);
        }
        BOp::BatchDelete { ids } => {
            model.batch_delete(ids);
        }
        BOp::UpdateMeta { id, meta, merge } => {
            model.update_meta(*id, meta, *merge);
        }
        _ => {}
    }
}
