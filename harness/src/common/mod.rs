pub mod eng;
pub mod gens;
pub mod hist;
pub mod model;
pub mod runner;
pub mod tape;
pub mod tiered;
