//! Construction of `TieredEngine` instances with handles to the caches kept by the harness
//! (L1a strategy, query cache) — shared by C04, C06, C07, C11, C20.

use super::gens::Metric;
use super::tape::Tape;
use kyrodb_engine::cache_strategy::{AbTestSplitter, CacheStrategy, LearnedCacheStrategy, LruCacheStrategy};
use kyrodb_engine::config::RecoveryMode;
use kyrodb_engine::learned_cache::{AccessEvent, AccessType, LearnedCachePredictor};
use kyrodb_engine::semantic_adapter::SemanticAdapter;
use kyrodb_engine::{FsyncPolicy, QueryHashCache, TieredEngine, TieredEngineConfig};
use serde::{Deserialize, Serialize};
use std::path::Path;
use std::sync::Arc;
use std::time::{Duration, SystemTime};

#[derive(Clone, Copy, Debug, PartialEq, Eq, Serialize, Deserialize)]
pub enum Strat {
    Lru,
    LearnedUntrained,
    LearnedTrained,
    LearnedSemantic,
    AbTest,
}

pub const STRATS: &[Strat] = &[Strat::Lru, Strat::LearnedUntrained, Strat::LearnedTrained, Strat::LearnedSemantic, Strat::AbTest];

#[derive(Clone, Debug, PartialEq, Serialize, Deserialize)]
pub struct TieredCfg {
    pub metric: Metric,
    pub dim: usize,
    pub strat: Strat,
    pub l1a_cap: usize,
    pub qcache_cap: usize,
    /// 1.0 = exact-match only
    pub qcache_sim: f32,
    pub hot_soft: usize,
    pub hot_hard: usize,
    pub capacity: usize,
    pub ef_search: usize,
    pub persist: bool,
    pub snapshot_interval: usize,
    pub rotate_bytes: u64,
}

impl TieredCfg {
    pub fn decode(t: &mut Tape, dims: &[usize], caps: &[usize], hard: &[usize]) -> TieredCfg {
        let metric = Metric::pick(t);
        let dim = t.pick(dims);
        let strat = t.pick(STRATS);
        let l1a_cap = t.pick(caps);
        let qcache_cap = t.pick(caps);
        let hot_hard = t.pick(hard);
        let hot_soft = 1 + t.below(hot_hard);
        TieredCfg {
            metric,
            dim,
            strat,
            l1a_cap,
            qcache_cap,
            qcache_sim: 1.0,
            hot_soft,
            hot_hard,
            capacity: t.pick(&[1000usize, 12, 16]),
            ef_search: 50,
            persist: t.chance(64),
            snapshot_interval: t.pick(&[0usize, 2, 5]),
            rotate_bytes: t.pick(&[1u64 << 20, 200]),
        }
    }

    pub fn engine_config(&self, dir: Option<&Path>) -> TieredEngineConfig {
        TieredEngineConfig {
            hot_tier_max_size: self.hot_soft,
            hot_tier_hard_limit: self.hot_hard,
            hot_tier_max_age: Duration::from_secs(3600),
            hnsw_max_elements: self.capacity,
            embedding_dimension: self.dim,
            hnsw_distance: self.metric.to_engine(),
            hnsw_ef_search: self.ef_search,
            data_dir: dir.map(|d| d.to_string_lossy().to_string()),
            fsync_policy: FsyncPolicy::Never,
            snapshot_interval: self.snapshot_interval,
            recovery_mode: RecoveryMode::Strict,
            max_wal_size_bytes: self.rotate_bytes,
            flush_interval: Duration::from_millis(1),
            cache_timeout_ms: 30_000,
            hot_tier_timeout_ms: 30_000,
            cold_tier_timeout_ms: 30_000,
            max_concurrent_queries: 64,
            ..TieredEngineConfig::default()
        }
    }
}

pub struct Tiered {
    pub engine: Arc<TieredEngine>,
    pub strategy: Arc<dyn CacheStrategy>,
    pub qcache: Arc<QueryHashCache>,
}

fn trained_predictor(cap: usize, pool: &[u64]) -> LearnedCachePredictor {
    let mut p = LearnedCachePredictor::new(cap.max(1)).expect("predictor");
    let now = SystemTime::now();
    let mut ev = vec![];
    for (i, id) in pool.iter().enumerate() {
        // even positions hot (many accesses), odd positions lukewarm
        let n = if i % 2 == 0 { 12 } else { 2 };
        for _ in 0..n {
            ev.push(AccessEvent { doc_id: *id, timestamp: now, access_type: AccessType::Read });
        }
    }
    let _ = p.train_from_accesses(&ev);
    p
}

pub fn make_strategy(s: Strat, cap: usize, pool: &[u64]) -> Arc<dyn CacheStrategy> {
    match s {
        Strat::Lru => Arc::new(LruCacheStrategy::new(cap)),
        Strat::LearnedUntrained => Arc::new(LearnedCacheStrategy::new(cap, LearnedCachePredictor::new(cap.max(1)).expect("predictor"))),
        Strat::LearnedTrained => Arc::new(LearnedCacheStrategy::new(cap, trained_predictor(cap, pool))),
        Strat::LearnedSemantic => Arc::new(LearnedCacheStrategy::new_with_semantic(cap, trained_predictor(cap, pool), SemanticAdapter::new())),
        Strat::AbTest => {
            let a: Arc<dyn CacheStrategy> = Arc::new(LruCacheStrategy::new(cap));
            let b: Arc<dyn CacheStrategy> = Arc::new(LearnedCacheStrategy::new(cap, trained_predictor(cap, pool)));
            Arc::new(AbTestSplitter::new(a, b))
        }
    }
}

impl Tiered {
    pub fn build(cfg: &TieredCfg, dir: Option<&Path>, pool: &[u64]) -> anyhow::Result<Tiered> {
        let strategy = make_strategy(cfg.strat, cfg.l1a_cap, pool);
        let qcache = Arc::new(QueryHashCache::new(cfg.qcache_cap, cfg.qcache_sim));
        let engine = TieredEngine::new_with_shared_strategy(
            Arc::clone(&strategy),
            Arc::clone(&qcache),
            vec![],
            vec![],
            cfg.engine_config(dir),
        )?;
        Ok(Tiered { engine: Arc::new(engine), strategy, qcache })
    }

    /// Restart from the data directory (fresh caches, fresh mirror), like a server restart.
    pub fn recover(cfg: &TieredCfg, dir: &Path, pool: &[u64]) -> anyhow::Result<Tiered> {
        // `TieredEngine::recover` takes ownership of a boxed strategy; build the same kind
        // again and keep a second handle through a forwarding wrapper.
        let strategy = make_strategy(cfg.strat, cfg.l1a_cap, pool);
        let qcache = Arc::new(QueryHashCache::new(cfg.qcache_cap, cfg.qcache_sim));
        let boxed: Box<dyn CacheStrategy> = Box::new(Forward(Arc::clone(&strategy)));
        let engine = TieredEngine::recover(boxed, Arc::clone(&qcache), dir, cfg.engine_config(Some(dir)))?;
        Ok(Tiered { engine: Arc::new(engine), strategy, qcache })
    }
}

/// Forwarding wrapper so the harness keeps a handle to a strategy the engine owns as a Box.
pub struct Forward(pub Arc<dyn CacheStrategy>);

impl CacheStrategy for Forward {
    fn get_cached(&self, doc_id: u64) -> Option<kyrodb_engine::CachedVector> {
        self.0.get_cached(doc_id)
    }
    fn peek_cached(&self, doc_id: u64) -> Option<kyrodb_engine::CachedVector> {
        self.0.peek_cached(doc_id)
    }
    fn should_cache(&self, doc_id: u64, embedding: &[f32]) -> bool {
        self.0.should_cache(doc_id, embedding)
    }
    fn insert_cached(&self, v: kyrodb_engine::CachedVector) {
        self.0.insert_cached(v)
    }
    fn invalidate(&self, doc_id: u64) {
        self.0.invalidate(doc_id)
    }
    fn name(&self) -> &str {
        self.0.name()
    }
    fn stats(&self) -> String {
        self.0.stats()
    }
    fn size(&self) -> usize {
        self.0.size()
    }
    fn lifecycle_stats(&self) -> Option<kyrodb_engine::CacheLifecycleStats> {
        self.0.lifecycle_stats()
    }
}
