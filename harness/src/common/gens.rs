//! Shared generators: vectors by class, metadata values by class, filter trees.
//! Everything is decoded from a `Tape`, so the PBT library owns all randomness.

use super::model::Meta;
use super::tape::{Mix, Tape};
use kyrodb_engine::DistanceMetric;
use serde::{Deserialize, Deserializer, Serialize, Serializer};

/// f32 vector serialised as bit patterns (exact, NaN/Inf-safe).
#[derive(Clone, PartialEq)]
pub struct FVec(pub Vec<f32>);

impl std::fmt::Debug for FVec {
    fn fmt(&self, f: &mut std::fmt::Formatter<'_>) -> std::fmt::Result {
        if self.0.len() <= 8 {
            write!(f, "{:?}", self.0)
        } else {
            write!(f, "[{:?}, {:?}, {:?}, .. dim={}]", self.0[0], self.0[1], self.0[2], self.0.len())
        }
    }
}

impl Serialize for FVec {
    fn serialize<S: Serializer>(&self, s: S) -> Result<S::Ok, S::Error> {
        let bits: Vec<u32> = self.0.iter().map(|x| x.to_bits()).collect();
        bits.serialize(s)
    }
}

impl<'de> Deserialize<'de> for FVec {
    fn deserialize<D: Deserializer<'de>>(d: D) -> Result<Self, D::Error> {
        let bits: Vec<u32> = Vec::deserialize(d)?;
        Ok(FVec(bits.into_iter().map(f32::from_bits).collect()))
    }
}

#[derive(Clone, Copy, Debug, PartialEq, Eq, Serialize, Deserialize)]
pub enum Metric {
    Cosine,
    Euclidean,
    InnerProduct,
}

impl Metric {
    pub fn to_engine(self) -> DistanceMetric {
        match self {
            Metric::Cosine => DistanceMetric::Cosine,
            Metric::Euclidean => DistanceMetric::Euclidean,
            Metric::InnerProduct => DistanceMetric::InnerProduct,
        }
    }
    pub fn pick(t: &mut Tape) -> Metric {
        t.pick(&[Metric::Euclidean, Metric::Cosine, Metric::InnerProduct])
    }
    pub fn needs_unit(self) -> bool {
        !matches!(self, Metric::Euclidean)
    }
}

pub const DIMS_SMALL: &[usize] = &[2, 3, 4, 5, 7, 8];
pub const DIMS_SIMD: &[usize] = &[1, 2, 3, 4, 7, 8, 9, 15, 16, 17, 31, 32, 33, 64, 65, 96, 130];

/// Valid vector classes (accepted by every write path for the given metric).
#[derive(Clone, Copy, Debug, PartialEq, Eq)]
pub enum VClass {
    Unit,
    Scaled,     // un-normalised, scale in {1e-2, 1, 10, 1e3}
    NearBand,   // squared norm in 0.97..1.03
    Axis,       // sparse / axis aligned
    Integer,    // integer valued lanes with |x| >= 1 somewhere
    Gauss,
}

pub fn valid_vector(t: &mut Tape, dim: usize, metric: Metric) -> Vec<f32> {
    // Euclidean stores inputs verbatim and accepts every finite vector, including all-zero
    // vectors (+0.0 / -0.0 lanes) and vectors of tiny norm
    if metric == Metric::Euclidean && t.chance(10) {
        let neg = t.chance(128);
        return match t.below(3) {
            0 => vec![if neg { -0.0 } else { 0.0 }; dim],
            1 => (0..dim).map(|i| if (i % 2 == 0) == neg { -0.0 } else { 0.0 }).collect(),
            _ => vec![1e-20; dim],
        };
    }
    let class = match t.weighted(&[4, 3, 2, 2, 2, 3]) {
        0 => VClass::Unit,
        1 => VClass::Scaled,
        2 => VClass::NearBand,
        3 => VClass::Axis,
        4 => VClass::Integer,
        _ => VClass::Gauss,
    };
    let seed = t.u32() as u64;
    vector_of_class(class, seed, dim, metric)
}

pub fn vector_of_class(class: VClass, seed: u64, dim: usize, _metric: Metric) -> Vec<f32> {
    let mut m = Mix(seed.wrapping_mul(0x9E37_79B9).wrapping_add(dim as u64));
    let mut raw: Vec<f64> = (0..dim).map(|_| m.gauss()).collect();
    // keep every "valid" class comfortably away from the zero-norm rejection threshold
    if raw.iter().map(|x| x * x).sum::<f64>().sqrt() < 0.05 {
        raw[0] = if raw[0] < 0.0 { raw[0] - 1.0 } else { raw[0] + 1.0 };
    }
    let norm = raw.iter().map(|x| x * x).sum::<f64>().sqrt();
    let unit: Vec<f64> = raw.iter().map(|x| x / norm).collect();
    let out: Vec<f64> = match class {
        VClass::Unit => unit,
        VClass::Gauss => raw,
        VClass::Scaled => {
            let s = [1e-2, 1.0, 10.0, 1e3][(m.below(4)) as usize];
            unit.iter().map(|x| x * s).collect()
        }
        VClass::NearBand => {
            let ns = 0.97 + 0.06 * m.unit();
            let s = ns.sqrt();
            unit.iter().map(|x| x * s).collect()
        }
        VClass::Axis => {
            let mut v = vec![0.0; dim];
            let a = m.below(dim as u64) as usize;
            v[a] = if m.below(2) == 0 { 1.0 } else { -1.0 };
            if dim > 1 && m.below(2) == 0 {
                let b = m.below(dim as u64) as usize;
                if b != a {
                    v[b] = 0.5;
                }
            }
            v
        }
        VClass::Integer => {
            let mut v: Vec<f64> = (0..dim).map(|_| (m.below(11) as f64) - 5.0).collect();
            if v.iter().all(|x| *x == 0.0) {
                v[0] = 3.0;
            }
            v
        }
    };
    out.into_iter().map(|x| x as f32).collect()
}

/// Invalid vector classes (C03 / C15).
#[derive(Clone, Copy, Debug, PartialEq, Eq, Serialize, Deserialize)]
pub enum BadClass {
    WrongDimShort,
    WrongDimLong,
    Empty,
    Zero,
    TinyNorm,
    NaN,
    PosInf,
    NegInf,
    Overflow,
}

pub const BAD_CLASSES: &[BadClass] = &[
    BadClass::WrongDimShort,
    BadClass::WrongDimLong,
    BadClass::Empty,
    BadClass::Zero,
    BadClass::TinyNorm,
    BadClass::NaN,
    BadClass::PosInf,
    BadClass::NegInf,
    BadClass::Overflow,
];

pub fn bad_vector(class: BadClass, seed: u64, dim: usize) -> Vec<f32> {
    let base = vector_of_class(VClass::Unit, seed, dim.max(1), Metric::Cosine);
    let mut m = Mix(seed ^ 0xBAD);
    match class {
        BadClass::WrongDimShort => base[..dim.saturating_sub(1)].to_vec(),
        BadClass::WrongDimLong => {
            let mut v = base.clone();
            v.push(0.25);
            v
        }
        BadClass::Empty => vec![],
        BadClass::Zero => vec![0.0; dim],
        BadClass::TinyNorm => base.iter().map(|x| x * 1e-5).collect(),
        BadClass::NaN => {
            let mut v = base;
            let i = m.below(dim as u64) as usize;
            v[i] = f32::NAN;
            v
        }
        BadClass::PosInf => {
            let mut v = base;
            let i = m.below(dim as u64) as usize;
            v[i] = f32::INFINITY;
            v
        }
        BadClass::NegInf => {
            let mut v = base;
            let i = m.below(dim as u64) as usize;
            v[i] = f32::NEG_INFINITY;
            v
        }
        BadClass::Overflow => {
            let mut v = base;
            let i = m.below(dim as u64) as usize;
            v[i] = 3.0e38;
            if dim > 1 {
                v[(i + 1) % dim] = -2.5e38;
            }
            v
        }
    }
}

// ---------------------------------------------------------------------------------------
// metadata
// ---------------------------------------------------------------------------------------

pub const META_KEYS: &[&str] = &["a", "b", "c", "d"];

/// One representative per value class named in C11, plus a few neighbours so that ranges
/// have something on both sides.
pub const META_VALUES: &[&str] = &[
    "0", "1", "2", "5", "10", "-3", "007", "+5", " 5", "5 ", "2.5", "-0", "0.0", "1e3", "1E-2", ".5", "5.",
    "inf", "-inf", "+inf", "infinity", "NaN", "nan", "", "abc", "B", "a", "Z9", "2023-01-01", "é", "数",
    "0x10", "1_000", "١",
];

pub fn long_value(seed: u64) -> String {
    let n = 1024 + (seed % 3072) as usize;
    let mut s = String::with_capacity(n);
    let mut m = Mix(seed);
    for _ in 0..n {
        s.push((b'a' + (m.below(26) as u8)) as char);
    }
    s
}

pub fn meta_value(t: &mut Tape) -> String {
    // small integers are over-weighted so Exact / In / Range hit often
    match t.weighted(&[6, 10, 1]) {
        0 => format!("{}", t.below(6)),
        1 => META_VALUES[t.below(META_VALUES.len())].to_string(),
        _ => long_value(t.u16() as u64),
    }
}

pub fn meta_map(t: &mut Tape, max_keys: usize) -> Meta {
    let n = t.below(max_keys + 1);
    let mut m = Meta::new();
    for _ in 0..n {
        let k = META_KEYS[t.below(META_KEYS.len())].to_string();
        m.insert(k, meta_value(t));
    }
    m
}

// ---------------------------------------------------------------------------------------
// filters (independent AST; converted to the engine's proto type at the call site)
// ---------------------------------------------------------------------------------------

#[derive(Clone, Debug, PartialEq, Eq, Serialize, Deserialize)]
pub enum Bound {
    Gte(String),
    Lte(String),
    Gt(String),
    Lt(String),
    None,
}

#[derive(Clone, Debug, PartialEq, Eq, Serialize, Deserialize)]
pub enum Filter {
    /// MetadataFilter with no filter_type set
    Absent,
    Exact(String, String),
    In(String, Vec<String>),
    Range(String, Bound),
    And(Vec<Filter>),
    Or(Vec<Filter>),
    /// Not(None) = NotFilter without child
    Not(Option<Box<Filter>>),
}

pub fn filter_leaf(t: &mut Tape) -> Filter {
    let key = META_KEYS[t.below(META_KEYS.len())].to_string();
    match t.weighted(&[4, 3, 8, 1]) {
        0 => Filter::Exact(key, meta_value(t)),
        1 => {
            let n = t.below(4);
            Filter::In(key, (0..n).map(|_| meta_value(t)).collect())
        }
        2 => {
            let v = meta_value(t);
            let b = match t.below(5) {
                0 => Bound::Gte(v),
                1 => Bound::Lte(v),
                2 => Bound::Gt(v),
                3 => Bound::Lt(v),
                _ => Bound::None,
            };
            Filter::Range(key, b)
        }
        _ => Filter::Absent,
    }
}

pub fn filter_tree(t: &mut Tape, depth: usize) -> Filter {
    if depth == 0 || t.chance(96) {
        return filter_leaf(t);
    }
    match t.weighted(&[3, 3, 3, 1]) {
        0 => {
            let n = t.below(4);
            Filter::And((0..n).map(|_| filter_tree(t, depth - 1)).collect())
        }
        1 => {
            let n = t.below(4);
            Filter::Or((0..n).map(|_| filter_tree(t, depth - 1)).collect())
        }
        2 => Filter::Not(Some(Box::new(filter_tree(t, depth - 1)))),
        _ => Filter::Not(None),
    }
}

pub fn filter_to_proto(f: &Filter) -> kyrodb_engine::proto::MetadataFilter {
    use kyrodb_engine::proto::{
        metadata_filter::FilterType, range_match, AndFilter, ExactMatch, InMatch, MetadataFilter, NotFilter,
        OrFilter, RangeMatch,
    };
    let ft = match f {
        Filter::Absent => None,
        Filter::Exact(k, v) => Some(FilterType::Exact(ExactMatch { key: k.clone(), value: v.clone() })),
        Filter::In(k, vs) => Some(FilterType::InMatch(InMatch { key: k.clone(), values: vs.clone() })),
        Filter::Range(k, b) => {
            let bound = match b {
                Bound::Gte(v) => Some(range_match::Bound::Gte(v.clone())),
                Bound::Lte(v) => Some(range_match::Bound::Lte(v.clone())),
                Bound::Gt(v) => Some(range_match::Bound::Gt(v.clone())),
                Bound::Lt(v) => Some(range_match::Bound::Lt(v.clone())),
                Bound::None => None,
            };
            Some(FilterType::Range(RangeMatch { key: k.clone(), bound }))
        }
        Filter::And(fs) => Some(FilterType::AndFilter(AndFilter { filters: fs.iter().map(filter_to_proto).collect() })),
        Filter::Or(fs) => Some(FilterType::OrFilter(OrFilter { filters: fs.iter().map(filter_to_proto).collect() })),
        Filter::Not(None) => Some(FilterType::NotFilter(Box::new(NotFilter { filter: None }))),
        Filter::Not(Some(c)) => {
            Some(FilterType::NotFilter(Box::new(NotFilter { filter: Some(Box::new(filter_to_proto(c))) })))
        }
    };
    MetadataFilter { filter_type: ft }
}

/// Reference semantics, written independently of `metadata_filter.rs`:
/// * Exact: key present and value byte-equal
/// * In: key present and value byte-equal to one list member
/// * Range: key present; if value and bound both parse with `f64::from_str` compare as
///   numbers (any comparison with NaN is false), otherwise byte-wise lexicographic; a range
///   without bound means "key present"
/// * And([]) = true, Or([]) = false, Not(None) = false, Absent = true
pub fn ref_matches(f: &Filter, m: &Meta) -> bool {
    match f {
        Filter::Absent => true,
        Filter::Exact(k, v) => m.get(k).map_or(false, |x| x.as_bytes() == v.as_bytes()),
        Filter::In(k, vs) => m.get(k).map_or(false, |x| vs.iter().any(|v| v.as_bytes() == x.as_bytes())),
        Filter::Range(k, b) => {
            let Some(val) = m.get(k) else { return false };
            let (bs, op): (&str, u8) = match b {
                Bound::Gte(s) => (s, 0),
                Bound::Lte(s) => (s, 1),
                Bound::Gt(s) => (s, 2),
                Bound::Lt(s) => (s, 3),
                Bound::None => return true,
            };
            let vn: Result<f64, _> = val.parse::<f64>();
            let bn: Result<f64, _> = bs.parse::<f64>();
            if let (Ok(x), Ok(y)) = (vn, bn) {
                match op {
                    0 => x >= y,
                    1 => x <= y,
                    2 => x > y,
                    _ => x < y,
                }
            } else {
                let (x, y) = (val.as_bytes(), bs.as_bytes());
                match op {
                    0 => x >= y,
                    1 => x <= y,
                    2 => x > y,
                    _ => x < y,
                }
            }
        }
        Filter::And(fs) => fs.iter().all(|c| ref_matches(c, m)),
        Filter::Or(fs) => fs.iter().any(|c| ref_matches(c, m)),
        Filter::Not(None) => false,
        Filter::Not(Some(c)) => !ref_matches(c, m),
    }
}

pub fn filter_has_range_or_not(f: &Filter) -> bool {
    match f {
        Filter::Range(..) | Filter::Not(_) => true,
        Filter::And(fs) | Filter::Or(fs) => fs.iter().any(filter_has_range_or_not),
        _ => false,
    }
}

pub fn filter_keys(f: &Filter, out: &mut Vec<String>) {
    match f {
        Filter::Exact(k, _) | Filter::In(k, _) | Filter::Range(k, _) => out.push(k.clone()),
        Filter::And(fs) | Filter::Or(fs) => fs.iter().for_each(|c| filter_keys(c, out)),
        Filter::Not(Some(c)) => filter_keys(c, out),
        _ => {}
    }
}
