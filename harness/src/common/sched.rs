//! E3 — controlled scheduler over the patched parking_lot (plshim).
//!
//! Each client program runs on its own OS thread, but exactly one controlled thread runs at a
//! time.  Scheduling points: every blocking / try acquisition (before the attempt), every
//! release, and explicit `Tctx::yield_now()` calls at API-call boundaries.  At each point the
//! next thread is taken from a sparse PLAN: `(decision index, alternative)` pairs; decisions
//! not listed continue the current thread (or the lowest runnable thread when the current one
//! is blocked or done), so the empty plan is the non-preemptive schedule and every listed pair
//! is one preemption.  The plan is the generated input (exhaustive enumeration of single
//! preemptions, or generated pairs) and is what shrinks / replays.
//!
//! Blocking is decided by the REAL lock through its non-blocking try_* (the thread whose try
//! fails is parked until that address is released), plus one modelled rule that try_* cannot
//! show: parking_lot's RwLock is writer-preferring — a writer waiting for readers to drain
//! (and an upgrade in progress) sets the writer bit, after which every other acquisition of
//! that lock blocks (recursive reads excepted while readers remain).
//!
//! A state in which no thread can run and not all are done is a deadlock CANDIDATE.  It is
//! CONFIRMED with the real blocking primitives: every parked thread simultaneously calls the
//! original timed acquisition (try_lock_for 150 ms).  Only if all of them time out is a
//! deadlock reported (threads are then unwound); if any acquires, control is given up and the
//! run finishes free-running (counted as `unconfirmed`, never a violation).

use parking_lot::verif as pv;
use serde_json::Value;
use std::cell::RefCell;
use std::collections::HashMap;
use std::sync::{Arc, Condvar, Mutex};
use std::time::{Duration, Instant};

pub type Tid = usize;

#[derive(Clone, Copy, Debug, PartialEq)]
enum St {
    Ready,
    Running,
    Blocked { addr: usize, mode: u8 },
    Done,
}

#[derive(Default)]
struct LockSt {
    holders: Vec<(Tid, u8)>,
    claim: Option<Tid>,
}

#[derive(Clone, Debug)]
pub struct Waiter {
    pub tid: Tid,
    pub lock: u32,
    pub mode: u8,
    pub holds: Vec<(u32, u8)>,
    pub held_by: Vec<(Tid, u8)>,
    pub claimed_by: Option<Tid>,
    /// innermost kyrodb_engine frames of the blocked thread
    pub site: Vec<String>,
    pub label: String,
}

#[derive(Clone, Debug)]
pub enum Outcome {
    Finished,
    Deadlock(Vec<Waiter>),
    Hang,
}

struct Confirm {
    pending: usize,
    acquired: usize,
    decided: bool,
}

struct Inner {
    st: Vec<St>,
    running: Option<Tid>,
    locks: HashMap<usize, LockSt>,
    lock_ids: HashMap<usize, u32>,
    decision: u32,
    plan: Vec<(u32, u8)>,
    /// per decision: (number of alternatives, was the current thread among them)
    trace: Vec<(u8, bool)>,
    events: Vec<(u32, Tid, Value)>,
    labels: Vec<String>,
    abort: bool,
    free_run: bool,
    confirm: Option<Confirm>,
    waiters: Vec<Waiter>,
    outcome: Option<Outcome>,
    unconfirmed: bool,
    errors: Vec<Option<String>>,
    edges: Vec<(u32, u32)>,
    blocks: u32,
}

pub struct Exec {
    m: Mutex<Inner>,
    cv: Condvar,
}

thread_local! {
    static CUR: RefCell<Option<(Arc<Exec>, Tid)>> = const { RefCell::new(None) };
}

struct SchedAbort;

fn cur() -> Option<(Arc<Exec>, Tid)> {
    CUR.with(|c| c.borrow().clone())
}

fn mode_name(m: u8) -> &'static str {
    match m {
        pv::MODE_MUTEX => "mutex",
        pv::MODE_SHARED => "read",
        pv::MODE_SHARED_RECURSIVE => "read_recursive",
        pv::MODE_EXCLUSIVE => "write",
        pv::MODE_UPGRADABLE => "upgradable_read",
        pv::MODE_UPGRADE => "upgrade",
        _ => "?",
    }
}

impl Inner {
    fn lock_id(&mut self, addr: usize) -> u32 {
        let n = self.lock_ids.len() as u32;
        *self.lock_ids.entry(addr).or_insert(n)
    }

    /// Pick the next thread to run.  `me` has already published its own status.
    fn reschedule(&mut self, me: Option<Tid>) {
        if self.abort || self.free_run {
            return;
        }
        let ready: Vec<Tid> = (0..self.st.len()).filter(|t| self.st[*t] == St::Ready).collect();
        if ready.is_empty() {
            self.running = None;
            if self.st.iter().all(|s| *s == St::Done) {
                self.outcome = Some(Outcome::Finished);
            } else if self.confirm.is_none() {
                // deadlock candidate: every unfinished thread is parked
                let n = self.st.iter().filter(|s| matches!(s, St::Blocked { .. })).count();
                self.confirm = Some(Confirm { pending: n, acquired: 0, decided: false });
            }
            return;
        }
        let mut alts: Vec<Tid> = vec![];
        let me_ready = me.map_or(false, |m| self.st[m] == St::Ready);
        if me_ready {
            alts.push(me.unwrap());
        }
        for t in &ready {
            if Some(*t) != me || !me_ready {
                alts.push(*t);
            }
        }
        let d = self.decision;
        let choice = self.plan.iter().find(|(s, _)| *s == d).map_or(0, |(_, a)| *a as usize % alts.len());
        self.trace.push((alts.len().min(255) as u8, me_ready));
        self.decision += 1;
        let next = alts[choice];
        self.st[next] = St::Running;
        self.running = Some(next);
    }

    fn wake_waiters(&mut self, addr: usize) {
        for s in self.st.iter_mut() {
            if let St::Blocked { addr: a, .. } = s {
                if *a == addr {
                    *s = St::Ready;
                }
            }
        }
    }
}

enum Turn {
    Go,
    Abort,
    Free,
    Confirm,
}

impl Exec {
    fn wait_turn<'a>(&'a self, mut g: std::sync::MutexGuard<'a, Inner>, me: Tid) -> (std::sync::MutexGuard<'a, Inner>, Turn) {
        loop {
            if g.abort {
                return (g, Turn::Abort);
            }
            if g.free_run {
                return (g, Turn::Free);
            }
            if g.running == Some(me) {
                return (g, Turn::Go);
            }
            if g.confirm.as_ref().map_or(false, |c| !c.decided) && matches!(g.st[me], St::Blocked { .. }) {
                return (g, Turn::Confirm);
            }
            g = self.cv.wait(g).unwrap();
        }
    }

    /// One scheduling point for a thread that can continue.
    fn yield_point(&self, me: Tid) -> Turn {
        let mut g = self.m.lock().unwrap();
        if g.abort {
            return Turn::Abort;
        }
        if g.free_run {
            return Turn::Free;
        }
        g.st[me] = St::Ready;
        g.reschedule(Some(me));
        self.cv.notify_all();
        let (_g, t) = self.wait_turn(g, me);
        t
    }
}

fn engine_frames() -> Vec<String> {
    let bt = std::backtrace::Backtrace::force_capture().to_string();
    if std::env::var("KVH_DUMP_BT").is_ok() {
        eprintln!("{}", bt);
    }
    let mut out = vec![];
    // frames come as "  4: insert_with_coherence" followed by "      at /repo/engine/src/hot_tier.rs:153:45"
    let mut last_fn = String::new();
    for line in bt.lines() {
        let l = line.trim();
        if let Some(rest) = l.strip_prefix("at ") {
            if let Some(p) = rest.find("/engine/src/") {
                let file = rest[p + "/engine/src/".len()..].split(':').next().unwrap_or("").trim_end_matches(".rs").to_string();
                let f = format!("{}::{}", file, last_fn);
                if !last_fn.contains("{closure") && out.last() != Some(&f) {
                    out.push(f);
                }
                if out.len() >= 4 {
                    break;
                }
            }
        } else if let Some((num, rest)) = l.split_once(": ") {
            if num.chars().all(|c| c.is_ascii_digit()) {
                last_fn = rest.split('<').next().unwrap_or(rest).to_string();
            }
        }
    }
    out
}

struct GlobalSched;

fn free_acquire(try_fn: &dyn Fn() -> bool, timed_fn: &dyn Fn(Duration) -> bool) {
    if try_fn() {
        return;
    }
    let t0 = Instant::now();
    while !timed_fn(Duration::from_millis(200)) {
        if t0.elapsed() > Duration::from_secs(20) {
            // give up: the watchdog reports the hang; unwinding releases what we hold
            std::panic::resume_unwind(Box::new(SchedAbort));
        }
    }
}

impl pv::Scheduler for GlobalSched {
    fn acquire(&self, addr: usize, mode: u8, try_fn: &dyn Fn() -> bool, timed_fn: &dyn Fn(Duration) -> bool) {
        let Some((ex, me)) = cur() else {
            pv::set_controlled(false);
            free_acquire(try_fn, timed_fn);
            return;
        };
        pv::set_controlled(false);
        let mut turn = ex.yield_point(me);
        loop {
            match turn {
                Turn::Abort => std::panic::resume_unwind(Box::new(SchedAbort)),
                Turn::Free => {
                    free_acquire(try_fn, timed_fn);
                    return; // stays uncontrolled
                }
                Turn::Confirm => {
                    // confirm the candidate with the real blocking primitive
                    let site = engine_frames();
                    let got = timed_fn(Duration::from_millis(150));
                    let mut g = ex.m.lock().unwrap();
                    let lid = g.lock_id(addr);
                    let holds: Vec<(u32, u8)> = {
                        let mine: Vec<(usize, u8)> = g.locks.iter().flat_map(|(a, l)| l.holders.iter().filter(|(t, _)| *t == me).map(move |(_, m)| (*a, *m))).collect();
                        mine.into_iter().map(|(a, m)| (g.lock_id(a), m)).collect()
                    };
                    let (held_by, claimed_by) = g.locks.get(&addr).map(|l| (l.holders.clone(), l.claim)).unwrap_or_default();
                    let label = g.labels.get(me).cloned().unwrap_or_default();
                    g.waiters.push(Waiter { tid: me, lock: lid, mode, holds, held_by, claimed_by, site, label });
                    let c = g.confirm.as_mut().unwrap();
                    c.pending -= 1;
                    if got {
                        c.acquired += 1;
                    }
                    if c.pending == 0 {
                        c.decided = true;
                        if c.acquired == 0 {
                            let w = std::mem::take(&mut g.waiters);
                            g.outcome = Some(Outcome::Deadlock(w));
                            g.abort = true;
                        } else {
                            g.unconfirmed = true;
                            g.free_run = true;
                        }
                        ex.cv.notify_all();
                    }
                    while !g.confirm.as_ref().unwrap().decided {
                        g = ex.cv.wait(g).unwrap();
                    }
                    let abort = g.abort;
                    drop(g);
                    if got {
                        if abort {
                            // cannot happen (abort needs acquired == 0); keep the lock and leave
                        }
                        return;
                    }
                    if abort {
                        std::panic::resume_unwind(Box::new(SchedAbort));
                    }
                    free_acquire(try_fn, timed_fn);
                    return;
                }
                Turn::Go => {
                    let mut g = ex.m.lock().unwrap();
                    let l = g.locks.entry(addr).or_default();
                    let claimed_by_other = l.claim.map_or(false, |c| c != me);
                    let readers_present = l.holders.iter().any(|(_, m)| *m == pv::MODE_SHARED || *m == pv::MODE_SHARED_RECURSIVE || *m == pv::MODE_UPGRADABLE);
                    let allowed = !claimed_by_other || (mode == pv::MODE_SHARED_RECURSIVE && readers_present);
                    if allowed && try_fn() {
                        let l = g.locks.get_mut(&addr).unwrap();
                        if l.claim == Some(me) {
                            l.claim = None;
                        }
                        if mode == pv::MODE_UPGRADE {
                            if let Some(h) = l.holders.iter_mut().find(|(t, m)| *t == me && *m == pv::MODE_UPGRADABLE) {
                                h.1 = pv::MODE_EXCLUSIVE;
                            }
                        } else {
                            l.holders.push((me, mode));
                        }
                        // lock-order edges: everything this thread holds -> addr
                        let held: Vec<usize> = g.locks.iter().filter(|(a, l)| **a != addr && l.holders.iter().any(|(t, _)| *t == me)).map(|(a, _)| *a).collect();
                        let to = g.lock_id(addr);
                        for h in held {
                            let from = g.lock_id(h);
                            if !g.edges.contains(&(from, to)) {
                                g.edges.push((from, to));
                            }
                        }
                        drop(g);
                        pv::set_controlled(true);
                        return;
                    }
                    // blocked: writers (and upgrades) waiting for readers claim the writer bit
                    let l = g.locks.get_mut(&addr).unwrap();
                    if l.claim.is_none() {
                        let writer_or_upgr_other = l.holders.iter().any(|(t, m)| *t != me && (*m == pv::MODE_EXCLUSIVE || *m == pv::MODE_UPGRADABLE));
                        if mode == pv::MODE_UPGRADE || (mode == pv::MODE_EXCLUSIVE && !writer_or_upgr_other) {
                            l.claim = Some(me);
                        }
                    }
                    g.st[me] = St::Blocked { addr, mode };
                    g.blocks += 1;
                    g.reschedule(Some(me));
                    ex.cv.notify_all();
                    let (g2, t) = ex.wait_turn(g, me);
                    drop(g2);
                    turn = t;
                }
            }
        }
    }

    fn try_acquire(&self, addr: usize, mode: u8, try_fn: &dyn Fn() -> bool) -> bool {
        let Some((ex, me)) = cur() else {
            return try_fn();
        };
        pv::set_controlled(false);
        match ex.yield_point(me) {
            Turn::Abort => std::panic::resume_unwind(Box::new(SchedAbort)),
            Turn::Free | Turn::Confirm => try_fn(),
            Turn::Go => {
                let mut g = ex.m.lock().unwrap();
                let l = g.locks.entry(addr).or_default();
                let claimed_by_other = l.claim.map_or(false, |c| c != me);
                let ok = !claimed_by_other && try_fn();
                if ok {
                    let l = g.locks.get_mut(&addr).unwrap();
                    if mode == pv::MODE_UPGRADE {
                        if let Some(h) = l.holders.iter_mut().find(|(t, m)| *t == me && *m == pv::MODE_UPGRADABLE) {
                            h.1 = pv::MODE_EXCLUSIVE;
                        }
                    } else {
                        l.holders.push((me, mode));
                    }
                }
                drop(g);
                pv::set_controlled(true);
                ok
            }
        }
    }

    fn release(&self, addr: usize, mode: u8) {
        let Some((ex, me)) = cur() else { return };
        pv::set_controlled(false);
        {
            let mut g = ex.m.lock().unwrap();
            if let Some(l) = g.locks.get_mut(&addr) {
                // an upgraded guard is released as exclusive
                if let Some(p) = l.holders.iter().position(|(t, m)| *t == me && *m == mode) {
                    l.holders.remove(p);
                } else if let Some(p) = l.holders.iter().position(|(t, _)| *t == me) {
                    l.holders.remove(p);
                }
            }
            g.wake_waiters(addr);
        }
        match ex.yield_point(me) {
            Turn::Abort => std::panic::resume_unwind(Box::new(SchedAbort)),
            Turn::Go => pv::set_controlled(true),
            Turn::Free | Turn::Confirm => {}
        }
    }

    fn convert(&self, addr: usize, from: u8, to: u8) {
        let Some((ex, me)) = cur() else { return };
        pv::set_controlled(false);
        {
            let mut g = ex.m.lock().unwrap();
            if let Some(l) = g.locks.get_mut(&addr) {
                if let Some(h) = l.holders.iter_mut().find(|(t, m)| *t == me && *m == from) {
                    h.1 = to;
                }
            }
            g.wake_waiters(addr);
        }
        pv::set_controlled(true);
    }
}

pub fn install() {
    static ONCE: std::sync::Once = std::sync::Once::new();
    ONCE.call_once(|| {
        pv::install(Box::new(GlobalSched));
    });
}

/// Handle given to each client program.
pub struct Tctx {
    ex: Arc<Exec>,
    pub tid: Tid,
}

impl Tctx {
    /// Record an API-level event stamped with the current decision counter.
    pub fn event(&self, v: Value) {
        let on = pv::controlled();
        pv::set_controlled(false);
        {
            let mut g = self.ex.m.lock().unwrap();
            let d = g.decision;
            g.events.push((d, self.tid, v));
        }
        pv::set_controlled(on);
    }
    /// Explicit scheduling point (API-call boundary).
    pub fn yield_now(&self) {
        if !pv::controlled() {
            return;
        }
        pv::set_controlled(false);
        match self.ex.yield_point(self.tid) {
            Turn::Abort => std::panic::resume_unwind(Box::new(SchedAbort)),
            Turn::Go => pv::set_controlled(true),
            Turn::Free | Turn::Confirm => {}
        }
    }
    pub fn label(&self, s: &str) {
        let on = pv::controlled();
        pv::set_controlled(false);
        {
            let mut g = self.ex.m.lock().unwrap();
            let t = self.tid;
            if g.labels.len() <= t {
                g.labels.resize(t + 1, String::new());
            }
            g.labels[t] = s.to_string();
        }
        pv::set_controlled(on);
    }
}

pub struct RunOut {
    pub outcome: Outcome,
    pub decisions: u32,
    pub trace: Vec<(u8, bool)>,
    pub events: Vec<(u32, Tid, Value)>,
    /// per thread: panic message of the program (engine panic), if any
    pub errors: Vec<Option<String>>,
    pub unconfirmed: bool,
    pub edges: Vec<(u32, u32)>,
    pub locks_seen: usize,
    /// how many times a thread had to wait for a lock
    pub blocked_events: u32,
}

pub type Program = Box<dyn FnOnce(&Tctx) + Send + 'static>;

type Job = Box<dyn FnOnce() + Send + 'static>;

thread_local! {
    /// controlled OS threads owned by the calling (worker) thread, reused across runs: spawning
    /// two threads per run from 16 workers serialises on the process's address-space lock
    static POOL: RefCell<Vec<std::sync::mpsc::Sender<Job>>> = const { RefCell::new(Vec::new()) };
}

fn pool_submit(slot: usize, job: Job) {
    POOL.with(|p| {
        let mut p = p.borrow_mut();
        while p.len() <= slot {
            let (tx, rx) = std::sync::mpsc::channel::<Job>();
            std::thread::Builder::new()
                .stack_size(8 << 20)
                .spawn(move || {
                    while let Ok(job) = rx.recv() {
                        job();
                    }
                })
                .expect("spawn controlled thread");
            p.push(tx);
        }
        let _ = p[slot].send(job);
    });
}

/// After a hang the pooled threads may be stuck inside the engine: forget them.
fn pool_discard() {
    POOL.with(|p| p.borrow_mut().clear());
}

/// Run the programs under the plan.  Blocks until all threads are done, a confirmed deadlock
/// was unwound, or the watchdog (30 s) fires.
pub fn run(programs: Vec<Program>, plan: &[(u32, u8)]) -> RunOut {
    install();
    let n = programs.len();
    let ex = Arc::new(Exec {
        m: Mutex::new(Inner {
            st: vec![St::Ready; n],
            running: None,
            locks: HashMap::new(),
            lock_ids: HashMap::new(),
            decision: 0,
            plan: plan.to_vec(),
            trace: vec![],
            events: vec![],
            labels: vec![String::new(); n],
            abort: false,
            free_run: false,
            confirm: None,
            waiters: vec![],
            outcome: None,
            unconfirmed: false,
            errors: vec![None; n],
            edges: vec![],
            blocks: 0,
        }),
        cv: Condvar::new(),
    });
    let (done_tx, done_rx) = std::sync::mpsc::channel::<()>();
    for (tid, prog) in programs.into_iter().enumerate() {
        let ex2 = Arc::clone(&ex);
        let done_tx = done_tx.clone();
        let job: Job = Box::new(move || {
                CUR.with(|c| *c.borrow_mut() = Some((Arc::clone(&ex2), tid)));
                // wait for the first turn
                let first = {
                    let g = ex2.m.lock().unwrap();
                    let (_g, t) = ex2.wait_turn(g, tid);
                    t
                };
                let tctx = Tctx { ex: Arc::clone(&ex2), tid };
                let res = std::panic::catch_unwind(std::panic::AssertUnwindSafe(|| {
                    if matches!(first, Turn::Go) {
                        pv::set_controlled(true);
                    }
                    if !matches!(first, Turn::Abort) {
                        prog(&tctx);
                    }
                }));
                pv::set_controlled(false);
                let mut g = ex2.m.lock().unwrap();
                if let Err(p) = res {
                    if p.downcast_ref::<SchedAbort>().is_none() {
                        let msg = p.downcast_ref::<String>().cloned().or_else(|| p.downcast_ref::<&str>().map(|s| s.to_string())).unwrap_or_else(|| "panic".into());
                        g.errors[tid] = Some(msg);
                    }
                }
                // drop anything the model still thinks we hold (unwinding released the real locks)
                let addrs: Vec<usize> = g.locks.iter().filter(|(_, l)| l.holders.iter().any(|(t, _)| *t == tid)).map(|(a, _)| *a).collect();
                for a in addrs {
                    if let Some(l) = g.locks.get_mut(&a) {
                        l.holders.retain(|(t, _)| *t != tid);
                        if l.claim == Some(tid) {
                            l.claim = None;
                        }
                    }
                    g.wake_waiters(a);
                }
                g.st[tid] = St::Done;
                g.reschedule(Some(tid));
                ex2.cv.notify_all();
                drop(g);
                CUR.with(|c| *c.borrow_mut() = None);
                let _ = done_tx.send(());
        });
        pool_submit(tid, job);
    }
    drop(done_tx);
    // start
    {
        let mut g = ex.m.lock().unwrap();
        g.reschedule(None);
        ex.cv.notify_all();
    }
    // wait for completion with a watchdog
    let t0 = Instant::now();
    let mut hang = false;
    {
        let mut g = ex.m.lock().unwrap();
        loop {
            if g.st.iter().all(|s| *s == St::Done) {
                break;
            }
            if t0.elapsed() > Duration::from_secs(30) {
                hang = true;
                g.abort = true;
                ex.cv.notify_all();
                break;
            }
            let (g2, _) = ex.cv.wait_timeout(g, Duration::from_millis(50)).unwrap();
            g = g2;
        }
    }
    if !hang {
        // wait until every job closure has returned (its thread goes back to the pool)
        for _ in 0..n {
            if done_rx.recv_timeout(Duration::from_secs(30)).is_err() {
                hang = true;
                break;
            }
        }
    }
    if hang {
        pool_discard();
    }
    let mut g = ex.m.lock().unwrap();
    let outcome = if hang {
        Outcome::Hang
    } else {
        match g.outcome.take() {
            Some(Outcome::Deadlock(w)) => Outcome::Deadlock(w),
            _ => Outcome::Finished,
        }
    };
    RunOut {
        outcome,
        decisions: g.decision,
        trace: std::mem::take(&mut g.trace),
        events: std::mem::take(&mut g.events),
        errors: std::mem::take(&mut g.errors),
        unconfirmed: g.unconfirmed,
        edges: std::mem::take(&mut g.edges),
        locks_seen: g.lock_ids.len(),
        blocked_events: g.blocks,
    }
}

pub fn describe_deadlock(ws: &[Waiter]) -> String {
    let mut s = String::new();
    for w in ws {
        s.push_str(&format!(
            "thread {} [{}] waits for lock L{} ({}) at {} | holds {:?} | L{} is held by {:?}{}; ",
            w.tid,
            w.label,
            w.lock,
            mode_name(w.mode),
            w.site.first().cloned().unwrap_or_else(|| "?".into()),
            w.holds.iter().map(|(l, m)| format!("L{}:{}", l, mode_name(*m))).collect::<Vec<_>>(),
            w.lock,
            w.held_by.iter().map(|(t, m)| format!("thread {}:{}", t, mode_name(*m))).collect::<Vec<_>>(),
            w.claimed_by.map_or(String::new(), |c| format!(", writer bit claimed by waiting thread {}", c)),
        ));
    }
    s
}

/// Signature of a deadlock: the sorted innermost engine functions the threads wait in.
pub fn deadlock_sites(ws: &[Waiter]) -> Vec<String> {
    let mut v: Vec<String> = ws
        .iter()
        .map(|w| {
            let f = w.site.first().cloned().unwrap_or_else(|| "?".into());
            // strip hashes and generic noise
            f.split("::h").next().unwrap_or(&f).to_string()
        })
        .collect();
    v.sort();
    v
}
