//! C05 — per-document operations are linearizable under concurrency.
//!
//! 2-3 client threads run short programs of insert / overwrite / delete / point read / read with
//! metadata / bulk read / metadata read / exists on two shared ids (one mirrored in the
//! recent-write tier, one only in the canonical store and the L1a cache) under the controlled
//! scheduler (sched.rs).  Every write carries a unique version in BOTH the vector and the
//! metadata.  History = call / return events in their real total order (one thread runs at a
//! time).  Oracles:
//!  (1) per id, a linearization exists: a total order of the operations that respects real-time
//!      precedence and in which every read returns the latest preceding write (or "absent"
//!      after a delete / before any write) and every delete reports whether the document
//!      existed — decided by an exhaustive memoised search (Wing-Gong) over the <= 14 operations
//!      of that id, with quiescent reads appended after all threads finished;
//!  (2) every read returns a version that was written (never an invented vector);
//!  (3) the vector and the metadata returned together by one read carry the same version.
//! Part `pairs`: every ordered pair of single-operation programs on the same id x every
//! single-preemption schedule (complete at bound 1).  Part `programs`: generated programs and
//! generated 1-4 preemptions.

use crate::common::gens::Metric;
use crate::common::runner::*;
use crate::common::sched::{self, Outcome, Program};
use crate::common::tape::Tape;
use crate::common::tiered::{Strat, Tiered, TieredCfg};
use serde::{Deserialize, Serialize};
use serde_json::{json, Value};
use std::collections::{HashMap, HashSet};
use std::sync::Arc;

const HOT: u64 = 6;
const COLD: u64 = 2;

#[derive(Clone, Copy, Debug, PartialEq, Eq, Serialize, Deserialize)]
pub enum OpK {
    Write,
    Delete,
    Get,
    GetWithMeta,
    Bulk,
    MetaOnly,
    Exists,
    /// internal maintenance, no abstract effect
    Drain,
    Search,
    /// delete through the batch path (also used by the filtered deletes)
    BatchDelete,
    /// overwrite with the id's FIXED vector (version 999 in the vector) and a unique version in
    /// the metadata only: two such writes are indistinguishable by vector digest
    WriteSameVec,
}

const OPS: &[OpK] = &[OpK::Write, OpK::Delete, OpK::Get, OpK::GetWithMeta, OpK::Bulk, OpK::MetaOnly, OpK::Exists, OpK::Drain, OpK::Search, OpK::BatchDelete, OpK::WriteSameVec];
const SAME: u32 = 999;

#[derive(Clone, Debug, Serialize, Deserialize)]
pub struct Case {
    pub strat: Strat,
    pub shape: u8,
    /// per thread: (operation, id selector 0 = hot id, 1 = cold-only id)
    pub threads: Vec<Vec<(OpK, u8)>>,
    pub plan: Vec<(u32, u8)>,
    #[serde(default)]
    pub relative: bool,
    /// also run every plan that adds one more preemption at a later decision
    #[serde(default)]
    pub expand: bool,
}

fn idof(sel: u8) -> u64 {
    if sel == 0 {
        HOT
    } else {
        COLD
    }
}

fn vv(id: u64, ver: u32) -> Vec<f32> {
    vec![id as f32, ver as f32, 0.25, 1.0]
}

fn mm(ver: u32) -> HashMap<String, String> {
    let mut m = HashMap::new();
    m.insert("v".into(), ver.to_string());
    m
}

fn ver_of_vec(v: &[f32]) -> Option<u32> {
    if v.len() == 4 && v[1] >= 0.0 && v[1].fract() == 0.0 {
        Some(v[1] as u32)
    } else {
        None
    }
}

fn ver_of_meta(m: &HashMap<String, String>) -> Option<u32> {
    m.get("v").and_then(|s| s.parse().ok())
}

fn cfg_for(strat: Strat, shape: u8) -> TieredCfg {
    TieredCfg {
        metric: Metric::Euclidean,
        dim: 4,
        strat,
        l1a_cap: 3,
        qcache_cap: 3,
        qcache_sim: 1.0,
        hot_soft: if shape == 1 { 2 } else { 6 },
        hot_hard: if shape == 1 { 3 } else { 64 },
        capacity: 256,
        ef_search: 32,
        persist: shape != 2,
        snapshot_interval: 3,
        rotate_bytes: 300,
    }
}

fn build(cfg: &TieredCfg, dir: &std::path::Path) -> Result<Tiered, Failure> {
    let pool: Vec<u64> = (1..=12).collect();
    let t = Tiered::build(cfg, if cfg.persist { Some(dir) } else { None }, &pool).map_err(|e| Failure::new("setup_failed", format!("{:#}", e)))?;
    let e = &t.engine;
    let sf = |x: anyhow::Error| Failure::new("setup_failed", format!("{:#}", x));
    e.insert(COLD, vv(COLD, 0), mm(0)).map_err(sf)?;
    e.insert(3, vv(3, 0), mm(0)).map_err(sf)?;
    e.flush_hot_tier(true).map_err(sf)?;
    e.insert(HOT, vv(HOT, 0), mm(0)).map_err(sf)?;
    // warm the L1a cache for the cold-only id
    let _ = e.query(COLD, None);
    let _ = e.query(COLD, None);
    Ok(t)
}

/// One observation of a document: None = absent; Some((vector version, metadata version)).
type Obs = Option<(Option<u32>, Option<u32>)>;

fn do_op(e: &kyrodb_engine::TieredEngine, t: &sched::Tctx, op: OpK, sel: u8, ver: u32) {
    let id = idof(sel);
    let call = |name: &str| t.event(json!({"e": "call", "op": name, "id": id, "ver": ver}));
    let ret = |v: Value| t.event(json!({"e": "ret", "r": v}));
    let obs_json = |o: Obs| match o {
        None => json!(null),
        Some((a, b)) => json!([a, b]),
    };
    match op {
        OpK::Write => {
            call("write");
            let r = e.insert(id, vv(id, ver), mm(ver));
            ret(json!({"ok": r.is_ok(), "err": r.err().map(|e| format!("{:#}", e))}));
        }
        OpK::WriteSameVec => {
            call("write");
            let r = e.insert(id, vv(id, SAME), mm(ver));
            ret(json!({"ok": r.is_ok(), "err": r.err().map(|e| format!("{:#}", e))}));
        }
        OpK::Delete => {
            call("delete");
            let r = e.delete(id);
            ret(match r {
                Ok(b) => json!({"ok": true, "existed": b}),
                Err(e) => json!({"ok": false, "err": format!("{:#}", e)}),
            });
        }
        OpK::Get => {
            call("read");
            let r = e.query(id, None);
            ret(obs_json(r.map(|v| (ver_of_vec(&v).or(Some(u32::MAX)), None))));
        }
        OpK::GetWithMeta => {
            call("read");
            let r = e.get_document_with_metadata(id);
            ret(obs_json(r.map(|(v, m)| (ver_of_vec(&v).or(Some(u32::MAX)), ver_of_meta(&m).or(Some(u32::MAX))))));
        }
        OpK::Bulk => {
            // two ids in one call: recorded as two reads sharing the call interval
            t.event(json!({"e": "call", "op": "bulk", "id": 0, "ver": ver}));
            let r = e.bulk_query_with_source(&[HOT, COLD], true);
            let o: Vec<Value> = r.into_iter().map(|x| obs_json(x.map(|(v, m, _)| (ver_of_vec(&v).or(Some(u32::MAX)), ver_of_meta(&m).or(Some(u32::MAX)))))).collect();
            ret(json!({"bulk": o}));
        }
        OpK::MetaOnly => {
            call("read");
            let r = e.get_metadata(id);
            ret(obs_json(r.map(|m| (None, ver_of_meta(&m).or(Some(u32::MAX))))));
        }
        OpK::Exists => {
            call("exists");
            let r = e.exists(id);
            ret(json!({"exists": r}));
        }
        OpK::BatchDelete => {
            call("delete");
            let r = e.batch_delete(&[id, 4242]);
            ret(match r {
                Ok(n) => json!({"ok": true, "existed": n > 0}),
                Err(e) => json!({"ok": false, "err": format!("{:#}", e)}),
            });
        }
        OpK::Drain => {
            let _ = e.flush_hot_tier(true);
        }
        OpK::Search => {
            let _ = e.knn_search(&vv(id, 0), 2);
        }
    }
}

#[derive(Clone, Debug)]
enum HKind {
    Write(u32),
    /// a write that returned Err: it may or may not have taken effect
    MaybeWrite(u32),
    Delete(bool),
    /// None = absent, Some(v) = version v seen (vector or metadata, already checked equal)
    Read(Option<u32>),
    Exists(bool),
}

#[derive(Clone, Debug)]
struct HOp {
    call: usize,
    ret: usize,
    kind: HKind,
    who: String,
}

/// Exhaustive search for a linearization of one id's operations. State: None = absent.
fn linearizable(ops: &[HOp], init: Option<u32>, strict_delete_flag: bool) -> bool {
    let n = ops.len();
    if n == 0 {
        return true;
    }
    let full: u32 = if n >= 32 { u32::MAX } else { (1u32 << n) - 1 };
    let mut seen: HashSet<(u32, Option<u32>)> = HashSet::new();
    let mut stack: Vec<(u32, Option<u32>)> = vec![(0, init)];
    while let Some((mask, state)) = stack.pop() {
        if mask == full {
            return true;
        }
        if !seen.insert((mask, state)) {
            continue;
        }
        // an operation may be linearized next iff no other pending operation returned before its call
        let min_ret = (0..n).filter(|i| mask & (1 << i) == 0).map(|i| ops[i].ret).min().unwrap();
        for i in 0..n {
            if mask & (1 << i) != 0 || ops[i].call > min_ret {
                continue;
            }
            if let HKind::MaybeWrite(_) = &ops[i].kind {
                // alternative: no effect
                stack.push((mask | (1 << i), state));
            }
            let next = match &ops[i].kind {
                HKind::Write(v) | HKind::MaybeWrite(v) => Some(Some(*v)),
                HKind::Delete(existed) => {
                    if !strict_delete_flag || *existed == state.is_some() {
                        Some(None)
                    } else {
                        None
                    }
                }
                HKind::Read(r) => {
                    if *r == state {
                        Some(state)
                    } else {
                        None
                    }
                }
                HKind::Exists(b) => {
                    if *b == state.is_some() {
                        Some(state)
                    } else {
                        None
                    }
                }
            };
            if let Some(s2) = next {
                stack.push((mask | (1 << i), s2));
            }
        }
    }
    false
}

pub struct C05 {
    pub part_name: &'static str,
}

fn programs(engine: &Arc<kyrodb_engine::TieredEngine>, threads: &[Vec<(OpK, u8)>]) -> Vec<Program> {
    threads
        .iter()
        .enumerate()
        .map(|(tid, ops)| {
            let e = Arc::clone(engine);
            let ops = ops.clone();
            let p: Program = Box::new(move |t| {
                for (n, (op, sel)) in ops.iter().enumerate() {
                    let ver = 1 + (tid as u32) * 10 + n as u32;
                    t.label(&format!("{:?}({})", op, idof(*sel)));
                    do_op(&e, t, *op, *sel, ver);
                    t.yield_now();
                }
            });
            p
        })
        .collect()
}

fn execute(case: &Case, env: &CaseEnv) -> Result<(sched::RunOut, Tiered), Failure> {
    let cfg = cfg_for(case.strat, case.shape);
    let mut plan = case.plan.clone();
    if case.relative {
        let t = build(&cfg, &env.dir("base"))?;
        let base = sched::run(programs(&t.engine, &case.threads), &[]);
        let n = base.decisions.max(1) as u64;
        plan = case.plan.iter().map(|(f, a)| ((((*f as u64) * n) >> 16) as u32, *a)).collect();
    }
    let t = build(&cfg, &env.dir("r"))?;
    let out = sched::run(programs(&t.engine, &case.threads), &plan);
    Ok((out, t))
}

fn judge(case: &Case, out: &sched::RunOut, t: &Tiered, rep: &mut CaseReport) -> Result<(), Failure> {
    match &out.outcome {
        Outcome::Finished => {}
        Outcome::Hang => return Err(Failure::new("setup_failed", "run did not finish within the watchdog".to_string())),
        Outcome::Deadlock(ws) => {
            // C08's business; do not judge linearizability of an aborted run
            rep.excluded.push(format!("deadlock:{:?}", sched::deadlock_sites(ws)));
            return Ok(());
        }
    }
    if let Some((tid, msg)) = out.errors.iter().enumerate().find_map(|(i, e)| e.as_ref().map(|m| (i, m.clone()))) {
        return Err(Failure::new("panic_under_schedule", format!("thread {} panicked: {}", tid, msg)).with_sig(json!({"kind": "panic_under_schedule"})));
    }
    // pair call/ret per thread, in the real total order of events
    let mut per_id: HashMap<u64, Vec<HOp>> = HashMap::new();
    let mut open: HashMap<usize, (usize, Value)> = HashMap::new();
    let mut written: HashMap<u64, HashSet<u32>> = HashMap::new();
    written.entry(HOT).or_default().insert(0);
    written.entry(COLD).or_default().insert(0);
    let mut samevec: HashMap<u64, HashSet<u32>> = HashMap::new();
    for (tid, ops) in case.threads.iter().enumerate() {
        for (n, (op, sel)) in ops.iter().enumerate() {
            if *op == OpK::Write {
                written.entry(idof(*sel)).or_default().insert(1 + (tid as u32) * 10 + n as u32);
            }
            if *op == OpK::WriteSameVec {
                written.entry(idof(*sel)).or_default().insert(1 + (tid as u32) * 10 + n as u32);
                samevec.entry(idof(*sel)).or_default().insert(1 + (tid as u32) * 10 + n as u32);
            }
        }
    }
    let describe = |o: &HOp| format!("{} [{}..{}] {:?}", o.who, o.call, o.ret, o.kind);
    let mut push_read = |per_id: &mut HashMap<u64, Vec<HOp>>, id: u64, call: usize, ret: usize, v: &Value, who: String| -> Result<(), Failure> {
        let kind = if v.is_null() {
            HKind::Read(None)
        } else {
            let mut a = v[0].as_u64().map(|x| x as u32);
            let b = v[1].as_u64().map(|x| x as u32);
            let is_same = |m: u32| samevec.get(&id).map_or(false, |s| s.contains(&m));
            if a == Some(SAME) {
                match b {
                    // same-vector writes carry their version in the metadata only
                    Some(m) if is_same(m) => a = Some(m),
                    Some(m) => {
                        return Err(Failure::new("torn_read", format!("{} on id {} returned the fixed vector of a same-vector write together with the metadata of version {} (a different-vector write)", who, id, m)).with_sig(json!({"kind": "torn_read"})));
                    }
                    None => {
                        // vector-only read of the fixed vector: it only proves presence
                        per_id.entry(id).or_default().push(HOp { call, ret, kind: HKind::Exists(true), who });
                        return Ok(());
                    }
                }
            } else if let (Some(av), Some(m)) = (a, b) {
                if is_same(m) && av != m {
                    return Err(Failure::new("torn_read", format!("{} on id {} returned the vector of version {} together with the metadata of same-vector write {}", who, id, av, m)).with_sig(json!({"kind": "torn_read"})));
                }
            }
            if let (Some(a), Some(b)) = (a, b) {
                if a != b {
                    return Err(Failure::new("torn_read", format!("{} on id {} returned the vector of version {} together with the metadata of version {}", who, id, a, b)).with_sig(json!({"kind": "torn_read"})));
                }
            }
            let v = a.or(b).unwrap_or(u32::MAX);
            if !written.get(&id).map_or(false, |s| s.contains(&v)) {
                return Err(Failure::new("invented_value", format!("{} on id {} returned version {} which was never written (vector/metadata not recognisable or of another id)", who, id, v)).with_sig(json!({"kind": "invented_value"})));
            }
            HKind::Read(Some(v))
        };
        per_id.entry(id).or_default().push(HOp { call, ret, kind, who });
        Ok(())
    };
    let mut inconclusive_err = false;
    let mut err_text = String::new();
    for (idx, (_, tid, ev)) in out.events.iter().enumerate() {
        if ev["e"] == "call" {
            open.insert(*tid, (idx, ev.clone()));
        } else if let Some((cidx, cev)) = open.remove(tid) {
            let id = cev["id"].as_u64().unwrap_or(0);
            let who = format!("thread {} {}", tid, cev["op"].as_str().unwrap_or(""));
            let r = &ev["r"];
            match cev["op"].as_str().unwrap_or("") {
                "write" => {
                    let ver = cev["ver"].as_u64().unwrap_or(0) as u32;
                    if r["ok"] != json!(true) {
                        rep.label(&format!("write_returned_err: {}", r["err"].as_str().unwrap_or("").chars().take(70).collect::<String>()));
                        per_id.entry(id).or_default().push(HOp { call: cidx, ret: idx, kind: HKind::MaybeWrite(ver), who });
                    } else {
                        per_id.entry(id).or_default().push(HOp { call: cidx, ret: idx, kind: HKind::Write(ver), who });
                    }
                }
                "delete" => {
                    if r["ok"] != json!(true) {
                        inconclusive_err = true;
                        err_text = r["err"].as_str().unwrap_or("").chars().take(90).collect();
                    } else {
                        per_id.entry(id).or_default().push(HOp { call: cidx, ret: idx, kind: HKind::Delete(r["existed"] == json!(true)), who });
                    }
                }
                "read" => push_read(&mut per_id, id, cidx, idx, r, who)?,
                "exists" => per_id.entry(id).or_default().push(HOp { call: cidx, ret: idx, kind: HKind::Exists(r["exists"] == json!(true)), who }),
                "bulk" => {
                    let arr = r["bulk"].as_array().cloned().unwrap_or_default();
                    for (k, id) in [HOT, COLD].iter().enumerate() {
                        push_read(&mut per_id, *id, cidx, idx, arr.get(k).unwrap_or(&Value::Null), format!("{}[{}]", who, id))?;
                    }
                }
                _ => {}
            }
        }
    }
    if inconclusive_err {
        rep.excluded.push(format!("write_or_delete_returned_err: {}", err_text));
        return Ok(());
    }
    // quiescent reads after all threads have finished (they follow everything in real time)
    let e = &t.engine;
    let mut stamp = out.events.len() + 10;
    // two rounds of quiescent reads: as left by the threads, and again after a quiescent drain
    // (a drain reconciles mirror entries against the canonical store and must change nothing)
    for round in 0..2 {
    if round == 1 {
        let _ = e.flush_hot_tier(true);
    }
    for id in [HOT, COLD] {
        let a = e.query(id, None).map(|v| (ver_of_vec(&v).or(Some(u32::MAX)), None));
        let b = e.get_document_with_metadata(id).map(|(v, m)| (ver_of_vec(&v).or(Some(u32::MAX)), ver_of_meta(&m).or(Some(u32::MAX))));
        let c = e.bulk_query_with_source(&[id], true).into_iter().next().flatten().map(|(v, m, _)| (ver_of_vec(&v).or(Some(u32::MAX)), ver_of_meta(&m).or(Some(u32::MAX))));
        let names = if round == 0 { ["final point read", "final read with metadata", "final bulk read"] } else { ["point read after quiescent drain", "read with metadata after quiescent drain", "bulk read after quiescent drain"] };
        for (name, o) in [(names[0], a), (names[1], b), (names[2], c)] {
            let v = match o {
                None => Value::Null,
                Some((x, y)) => json!([x, y]),
            };
            push_read(&mut per_id, id, stamp, stamp + 1, &v, name.to_string())?;
            stamp += 2;
        }
        per_id.entry(id).or_default().push(HOp { call: stamp, ret: stamp + 1, kind: HKind::Exists(e.exists(id)), who: if round == 0 { "final exists".into() } else { "exists after quiescent drain".into() } });
        stamp += 2;
    }
    }
    for (id, ops) in &per_id {
        if ops.len() > 30 {
            continue;
        }
        // The property constrains READS; a delete's `existed` flag is checked only as a label
        // (two racing deletes of one document can both report existed=true: the second one
        // finds the hot-tier mirror the first has not removed yet).
        if !linearizable(ops, Some(0), true) && linearizable(ops, Some(0), false) {
            rep.label("delete_existed_flag_not_linearizable(not judged)");
            rep.count("histories_checked", 1);
            continue;
        }
        if !linearizable(ops, Some(0), false) {
            let mut o2: Vec<&HOp> = ops.iter().collect();
            o2.sort_by_key(|o| o.call);
            return Err(Failure::new(
                "not_linearizable",
                format!("no total order respecting real time explains the history of id {} (initial version 0): {}", id, o2.iter().map(|o| describe(o)).collect::<Vec<_>>().join("; ")),
            )
            .with_sig(json!({"kind": "not_linearizable", "id_class": if *id == HOT { "recent_write_tier" } else { "canonical_only" }})));
        }
        rep.count("histories_checked", 1);
    }
    Ok(())
}

impl Prop for C05 {
    type Case = Case;
    fn part(&self) -> &'static str {
        self.part_name
    }
    fn shape(&self, _tier: Tier) -> RawShape {
        RawShape { head_len: 16, chunk_len: 3, min_chunks: 2, max_chunks: 9 }
    }
    fn max_shrink_iters(&self) -> u32 {
        80
    }
    fn rule(&self) -> String {
        "pairs: every ordered pair of single-operation programs (11 operations x 2 ids each side) x 5 cache strategies x 3 engine shapes x every single-preemption schedule; programs: 2-3 threads x 1-3 operations x 1-4 generated preemptions; non-trivial = at least one write or delete overlaps (in real time) another operation on the same id; distinct = hash of decoded case".into()
    }
    fn decode(&self, raw: &Raw, _tier: Tier) -> Case {
        let mut t = Tape::new(&raw.head);
        let strat = t.pick(&[Strat::Lru, Strat::LearnedTrained, Strat::LearnedSemantic, Strat::AbTest, Strat::LearnedUntrained]);
        let shape = t.below(3) as u8;
        let nthreads = 2 + t.below(2);
        let npre = 1 + t.below(4);
        let mut plan: Vec<(u32, u8)> = (0..npre).map(|_| (t.u16() as u32, 1 + t.below(2) as u8)).collect();
        plan.sort();
        // most programs hammer ONE id
        let focus = t.below(2) as u8;
        let mut threads: Vec<Vec<(OpK, u8)>> = vec![vec![]; nthreads];
        for (i, c) in raw.chunks.iter().enumerate() {
            let mut t = Tape::new(c);
            let op = OPS[t.weighted(&[6, 4, 3, 4, 2, 2, 2, 1, 1, 2, 4])];
            let sel = if t.chance(40) { 1 - focus } else { focus };
            threads[i % nthreads].push((op, sel));
        }
        for th in threads.iter_mut() {
            if th.is_empty() {
                th.push((OpK::GetWithMeta, focus));
            }
        }
        Case { strat, shape, threads, plan, relative: true, expand: false }
    }
    fn run(&self, case: &Case, env: &CaseEnv) -> Result<CaseReport, Failure> {
        let mut rep = CaseReport::default();
        let (out, t) = execute(case, env)?;
        judge(case, &out, &t, &mut rep)?;
        rep.count("decisions", out.decisions as u64);
        if case.expand && !case.relative {
            let last = case.plan.iter().map(|(d, _)| *d).max().unwrap_or(0);
            for (d, (alts, me_ready)) in out.trace.iter().enumerate() {
                if (d as u32) > last && *alts > 1 && *me_ready {
                    for alt in 1..(*alts).min(3) {
                        let mut c = case.clone();
                        c.expand = false;
                        c.plan.push((d as u32, alt));
                        let (o2, t2) = execute(&c, env)?;
                        judge(&c, &o2, &t2, &mut rep).map_err(|mut f| {
                            f.msg = format!("[plan {:?}] {}", c.plan, f.msg);
                            f
                        })?;
                        drop(t2);
                        let _ = std::fs::remove_dir_all(env.scratch_root().join("r"));
                        rep.count("evaluations_judged", 1);
                    }
                }
            }
        }
        // overlap: some write/delete interval intersects another op on the same id
        let mut spans: Vec<(usize, usize, usize, bool, u64)> = vec![];
        let mut open: HashMap<usize, (usize, bool, u64)> = HashMap::new();
        for (idx, (_, tid, ev)) in out.events.iter().enumerate() {
            if ev["e"] == "call" {
                let w = ev["op"] == "write" || ev["op"] == "delete";
                open.insert(*tid, (idx, w, ev["id"].as_u64().unwrap_or(0)));
            } else if let Some((c, w, id)) = open.remove(tid) {
                spans.push((*tid, c, idx, w, id));
            }
        }
        rep.nontrivial = spans.iter().any(|a| a.3 && spans.iter().any(|b| b.0 != a.0 && (b.4 == a.4 || b.4 == 0) && b.1 < a.2 && a.1 < b.2));
        if out.blocked_events > 0 {
            rep.label("some_thread_waited");
        }
        Ok(rep)
    }
}

fn pair_cases(ctx: &Ctx) -> Vec<Case> {
    let strats = [Strat::Lru, Strat::LearnedTrained, Strat::LearnedSemantic, Strat::AbTest, Strat::LearnedUntrained];
    let mut combos = vec![];
    for s in strats {
        for sh in 0..3u8 {
            for a in OPS {
                for b in OPS {
                    for sel in 0..2u8 {
                        // second thread: same id, preceded by a write so that there is a fresh version to lose
                        combos.push(Case { strat: s, shape: sh, threads: vec![vec![(*a, sel)], vec![(*b, sel)]], plan: vec![], relative: false, expand: false });
                        combos.push(Case { strat: s, shape: sh, threads: vec![vec![(OpK::Write, sel), (*a, sel)], vec![(*b, sel)]], plan: vec![], relative: false, expand: false });
                    }
                }
            }
        }
    }
    // three threads: writer, deleter and a maintenance drain on the same id, complete at
    // preemption bound 2 (single-preemption prefixes are expanded by one more preemption)
    let ntriple = combos.len();
    for s in [Strat::Lru, Strat::LearnedTrained] {
        for sh in 0..2u8 {
            for sel in 0..2u8 {
                for third in [OpK::Drain, OpK::GetWithMeta, OpK::Write] {
                    combos.push(Case { strat: s, shape: sh, threads: vec![vec![(OpK::Write, sel)], vec![(OpK::Delete, sel)], vec![(third, sel)]], plan: vec![], relative: false, expand: true });
                }
            }
        }
    }
    let _ = ntriple;
    let env = ctx.env(false);
    let next = std::sync::atomic::AtomicUsize::new(0);
    let out: std::sync::Mutex<Vec<(usize, Vec<Case>)>> = std::sync::Mutex::new(vec![]);
    std::thread::scope(|sc| {
        for w in 0..ctx.threads.max(1) {
            let (next, out, combos, env) = (&next, &out, &combos, &env);
            sc.spawn(move || loop {
                let i = next.fetch_add(1, std::sync::atomic::Ordering::Relaxed);
                if i >= combos.len() {
                    break;
                }
                let base = combos[i].clone();
                let mut v = vec![base.clone()];
                let cfg = cfg_for(base.strat, base.shape);
                let dir = env.dir(&format!("pb{}", w));
                if let Ok(t) = build(&cfg, &dir) {
                    let o = sched::run(programs(&t.engine, &base.threads), &[]);
                    for (d, (alts, me_ready)) in o.trace.iter().enumerate() {
                        if *alts > 1 && *me_ready {
                            for alt in 1..(*alts).min(3) {
                                let mut c = base.clone();
                                c.plan = vec![(d as u32, alt)];
                                v.push(c);
                            }
                        }
                    }
                }
                let _ = std::fs::remove_dir_all(&dir);
                out.lock().unwrap().push((i, v));
            });
        }
    });
    let mut out = out.into_inner().unwrap();
    out.sort_by_key(|(i, _)| *i);
    out.into_iter().flat_map(|(_, v)| v).collect()
}

pub fn main(ctx: &Ctx) {
    ctx.assume("scheduling points are lock acquisitions, releases and API-call boundaries; atomics-only races between two lock operations are not interleaved");
    ctx.assume("writes or deletes that return Err are not judged (none is expected without injected faults; counted under excluded)");
    ctx.assume("a delete's `existed` return flag is not judged (the property constrains reads); histories explained only by ignoring it are labelled");
    ctx.assume("each id is checked separately (the property is per document); a bulk read counts as one read per id over the same interval");
    sched::install();
    run_committed_replays(ctx, &C05 { part_name: "pairs" });
    run_committed_replays(ctx, &C05 { part_name: "programs" });
    let cases = pair_cases(ctx);
    run_cases(ctx, &C05 { part_name: "pairs" }, "pairs", cases, true);
    run_pbt(ctx, &C05 { part_name: "programs" }, ctx.tier.pick(40_000, 800_000));
    run_committed_replays(ctx, &super::c05srv::C05Srv);
    run_pbt(ctx, &super::c05srv::C05Srv, ctx.tier.pick(320, 6_400));
}

pub fn replay(ctx: &Ctx, v: &serde_json::Value) -> Option<i32> {
    sched::install();
    replay_file(ctx, &C05 { part_name: "pairs" }, v).or_else(|| replay_file(ctx, &C05 { part_name: "programs" }, v)).or_else(|| replay_file(ctx, &super::c05srv::C05Srv, v))
}
