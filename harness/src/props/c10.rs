//! C10 — tenants are isolated end to end (real server binary over gRPC + HTTP).
//!
//! Generated: a sequence of RPCs issued by tenants alpha / beta / gamma (+ admin, a disabled key,
//! an unknown key, no key) with colliding local ids, shared vectors and queries, namespaces,
//! spoofed reserved metadata keys and arbitrary filters (also ON the reserved keys).
//! Oracles:
//!  (1) per-tenant reference model for every point / write response (found flags, vectors,
//!      metadata without reserved keys, existed, deleted_count);
//!  (2) containment for Search / BulkSearch: every returned id is a live document of the caller
//!      matching namespace and filter, carrying the caller's metadata;
//!  (3) NON-INTERFERENCE, differential: the same case is replayed on a fresh server with only
//!      ONE tenant's RPCs; that tenant's observable responses (incl. result counts, total_found
//!      and its /usage row) must be identical in both worlds — judged for searches only while
//!      every document is still in the exhaustively scanned recent-write tier;
//!  (4) every data RPC without a valid enabled key is UNAUTHENTICATED and changes nothing;
//!  (5) /usage: exactly the caller's row; scope=all is refused to non-admins;
//!  (6) everything still holds after a restart inside the case.

use crate::common::gens::{filter_to_proto, ref_matches, Bound, Filter};
use crate::common::model::Meta;
use crate::common::runner::*;
use crate::common::srv::{key_for, with_key, Server, SrvCfg};
use crate::common::tape::Tape;
use kyrodb_engine::proto as pb;
use serde::{Deserialize, Serialize};
use serde_json::{json, Value};
use std::collections::BTreeMap;

#[derive(Clone, Copy, Debug, PartialEq, Eq, PartialOrd, Ord, Serialize, Deserialize)]
pub enum Who {
    Alpha,
    Beta,
    Gamma,
    Admin,
    Disabled,
    Unknown,
    NoKey,
    /// a SECOND enabled key of tenant alpha (only present in `evolve` cases)
    Alpha2,
    /// a tenant whose key is added to the key file at the restart inside an `evolve` case
    Delta,
}

impl Who {
    pub fn tenant(self) -> Option<&'static str> {
        match self {
            Who::Alpha => Some("alpha"),
            Who::Beta => Some("beta"),
            Who::Gamma => Some("gamma"),
            Who::Admin => Some("root"),
            Who::Alpha2 => Some("alpha"),
            Who::Delta => Some("delta"),
            _ => None,
        }
    }
    /// the tenant principal whose model / solo world this caller belongs to
    pub fn principal(self) -> Who {
        if self == Who::Alpha2 {
            Who::Alpha
        } else {
            self
        }
    }
    pub fn key(self) -> Option<String> {
        match self {
            Who::Alpha => Some(key_for("alpha", 0xa1)),
            Who::Beta => Some(key_for("beta", 0xb2)),
            Who::Gamma => Some(key_for("gamma", 0xc3)),
            Who::Admin => Some(key_for("root", 0xd4)),
            Who::Disabled => Some(key_for("ghost", 0xe5)),
            Who::Unknown => Some(key_for("nobody", 0xf6)),
            Who::NoKey => None,
            Who::Alpha2 => Some(key_for("alpha", 0xa9)),
            Who::Delta => Some(key_for("delta", 0xd7)),
        }
    }
    /// index assigned by the server: sorted enabled tenant ids
    pub fn idx(self) -> Option<u32> {
        match self {
            Who::Alpha => Some(0),
            Who::Beta => Some(1),
            Who::Gamma => Some(2),
            Who::Admin => Some(3),
            Who::Alpha2 => Some(0),
            // registered after the first boot: next free index
            Who::Delta => Some(4),
            _ => None,
        }
    }
}

#[derive(Clone, Debug, Serialize, Deserialize)]
pub struct Item {
    pub id: u64,
    pub vec: usize,
    pub meta: Meta,
    pub ns: String,
}

#[derive(Clone, Debug, Serialize, Deserialize)]
pub enum Kind {
    Insert(Item),
    BulkInsert(Vec<Item>),
    BulkLoad(Vec<Item>),
    Query { id: u64, ns: String, emb: bool },
    BulkQuery { ids: Vec<u64>, ns: String, emb: bool },
    Search { q: usize, k: u32, ns: String, filter: Option<Filter>, emb: bool },
    BulkSearch(Vec<(usize, u32, String, Option<Filter>)>),
    UpdateMeta { id: u64, meta: Meta, merge: bool, ns: String },
    Delete { id: u64, ns: String },
    BatchDeleteIds { ids: Vec<u64>, ns: String },
    BatchDeleteFilter { filter: Filter, ns: String },
    Flush,
    Usage { all: bool },
}

#[derive(Clone, Debug, Serialize, Deserialize)]
pub struct Rpc {
    pub who: Who,
    pub kind: Kind,
}

#[derive(Clone, Debug, Serialize, Deserialize)]
pub struct Case {
    pub cosine: bool,
    pub rpcs: Vec<Rpc>,
    /// restart the server (SIGTERM) before this RPC index
    pub restart_at: Option<usize>,
    /// hnsw.max_elements = 20 (25 with the fifth writer of evolving-key-file cases) = the number of documents the writers x five ids can hold: overwrites
    /// and deletes fill the graph with tombstones and inserts trigger tombstone compaction
    #[serde(default)]
    pub small_index: bool,
    /// the key file changes over the server's life: tenant alpha starts with TWO enabled keys and
    /// a new tenant (delta) is added at the restart; isolation must hold for the index the
    /// server assigns to the newcomer
    #[serde(default)]
    pub evolve: bool,
}

pub struct C10;

const DIM: usize = 4;
const IDS: &[u64] = &[1, 2, 3, 4, 4_294_967_295];
/// local ids beyond the tenant-local range whose high half names ANOTHER tenant's index
const BAD_IDS: &[u64] = &[(1 << 32) | 1, (1 << 32) | 2, (2 << 32) | 2, (2 << 32) | 3, 4_294_967_296, (1 << 32) | 4_294_967_295];

fn pick_id(t: &mut Tape) -> u64 {
    if t.chance(24) {
        t.pick(BAD_IDS)
    } else {
        t.pick(IDS)
    }
}
const NSS: &[&str] = &["", "n1", "n2"];

pub fn pool_vec(i: usize) -> Vec<f32> {
    // shared by all tenants: identical vectors and queries provoke cache reuse and crowding
    let v: [[f32; 4]; 6] = [[1.0, 0.0, 0.0, 0.0], [0.9, 0.1, 0.0, 0.0], [0.0, 1.0, 0.0, 0.0], [0.5, 0.5, 0.5, 0.5], [0.0, 0.0, 1.0, 0.2], [0.8, 0.0, 0.6, 0.0]];
    v[i % 6].to_vec()
}

fn gen_meta(t: &mut Tape) -> Meta {
    let mut m = Meta::new();
    for _ in 0..t.below(3) {
        let k = t.pick(&["a", "b"]).to_string();
        m.insert(k, t.pick(&["0", "1", "2", "x"]).to_string());
    }
    if t.chance(40) {
        // spoof the server-owned keys with another tenant's values
        match t.below(3) {
            0 => m.insert("__tenant_idx__".into(), t.pick(&["0", "1", "2"]).to_string()),
            1 => m.insert("__tenant_id__".into(), t.pick(&["alpha", "beta"]).to_string()),
            _ => m.insert("__namespace__".into(), t.pick(&["n1", "n2"]).to_string()),
        };
    }
    m
}

fn gen_filter(t: &mut Tape, depth: usize) -> Filter {
    if depth == 0 || t.chance(120) {
        let key = t.pick(&["a", "b", "a", "b", "__tenant_idx__", "__namespace__", "__tenant_id__"]).to_string();
        let val = if key == "__tenant_idx__" {
            t.pick(&["0", "1", "2"]).to_string()
        } else if key == "__namespace__" {
            t.pick(&["n1", "n2"]).to_string()
        } else if key == "__tenant_id__" {
            t.pick(&["alpha", "beta", "gamma"]).to_string()
        } else {
            t.pick(&["0", "1", "2", "x"]).to_string()
        };
        return match t.below(4) {
            0 => Filter::Exact(key, val),
            1 => Filter::In(key, vec![val, "1".into()]),
            2 => Filter::Range(key, if t.chance(128) { Bound::Gte(val) } else { Bound::Lt(val) }),
            _ => Filter::Range(key, Bound::None),
        };
    }
    match t.below(3) {
        0 => Filter::And((0..1 + t.below(2)).map(|_| gen_filter(t, depth - 1)).collect()),
        1 => Filter::Or((0..1 + t.below(2)).map(|_| gen_filter(t, depth - 1)).collect()),
        _ => Filter::Not(Some(Box::new(gen_filter(t, depth - 1)))),
    }
}

fn gen_item(t: &mut Tape) -> Item {
    Item { id: pick_id(t), vec: t.below(6), meta: gen_meta(t), ns: t.pick(NSS).to_string() }
}

#[derive(Clone, Debug, PartialEq)]
struct MDoc {
    vec: Vec<f32>,
    /// internal metadata as the server stores it (public keys + reserved keys)
    internal: Meta,
    ns: String,
}

#[derive(Default, Clone)]
struct TenantModel {
    docs: BTreeMap<u64, MDoc>,
}

fn public(m: &Meta) -> Meta {
    m.iter().filter(|(k, _)| !k.starts_with("__tenant_id") && !k.starts_with("__namespace") && k.as_str() != "__tenant_idx__" && k.as_str() != "__tenant_id__" && k.as_str() != "__namespace__").map(|(k, v)| (k.clone(), v.clone())).collect()
}

fn strip_reserved(m: &Meta) -> Meta {
    m.iter().filter(|(k, _)| !matches!(k.as_str(), "__tenant_id__" | "__tenant_idx__" | "__namespace__")).map(|(k, v)| (k.clone(), v.clone())).collect()
}

fn internal_meta(who: Who, item_meta: &Meta, ns: &str) -> Meta {
    let mut m = strip_reserved(item_meta);
    m.insert("__tenant_id__".into(), who.tenant().unwrap().into());
    m.insert("__tenant_idx__".into(), who.idx().unwrap().to_string());
    if !ns.is_empty() {
        m.insert("__namespace__".into(), ns.into());
    }
    m
}

fn ns_matches(doc_ns: &str, sel: &str) -> bool {
    sel.is_empty() || doc_ns == sel
}

fn valid_local(id: u64) -> bool {
    id >= 1 && id <= u32::MAX as u64
}

/// What one RPC returned, in a canonical comparable form (latency fields etc. removed).
fn canon_status(s: &tonic::Status) -> Value {
    json!({"status": format!("{:?}", s.code())})
}

struct World {
    srv: Server,
}

impl World {
    fn start(cosine: bool, small_index: bool, evolve: bool, root: &std::path::Path, shard: usize) -> Result<World, Failure> {
        let mut cfg = SrvCfg::default_for(DIM, if cosine { "cosine" } else { "euclidean" }, true, 1_000_000);
        if small_index {
            // >= the number of documents the writers can hold at once: 4 writers x 5 ids, plus
            // alpha's second key (same tenant) and delta in evolving-key-file cases = 5 x 5
            cfg.max_elements = if evolve { 25 } else { 20 };
        }
        if evolve {
            cfg.tenants.push(crate::common::srv::TenantSpec { id: "alpha", key: Who::Alpha2.key().unwrap(), max_vectors: 1_000_000, max_qps: 0, admin: false, enabled: true });
        }
        let mut srv = Server::new(cfg, root, shard);
        srv.start().map_err(|e| Failure::new("setup_failed", e))?;
        Ok(World { srv })
    }

    fn restart(&mut self, evolve: bool) -> Result<(), Failure> {
        self.srv.stop_term();
        if evolve && !self.srv.cfg.tenants.iter().any(|t| t.id == "delta") {
            self.srv.cfg.tenants.push(crate::common::srv::TenantSpec { id: "delta", key: Who::Delta.key().unwrap(), max_vectors: 1_000_000, max_qps: 0, admin: false, enabled: true });
        }
        self.srv.start().map_err(|e| crate::common::srv::start_failure("restart_failed", format!("server does not come back after SIGTERM: {}", e), &e))
    }

    /// Execute one RPC, return its canonical observable response.
    fn exec(&mut self, rpc: &Rpc, cosine: bool) -> Result<Value, Failure> {
        let key = rpc.who.key();
        let key = key.as_deref();
        let srv = &self.srv;
        let to_req = |it: &Item| pb::InsertRequest { doc_id: it.id, embedding: pool_vec(it.vec), metadata: it.meta.iter().map(|(k, v)| (k.clone(), v.clone())).collect(), namespace: it.ns.clone() };
        let canon_meta = |m: &std::collections::HashMap<String, String>| -> Value { json!(m.iter().collect::<BTreeMap<_, _>>()) };
        let canon_emb = |e: &Vec<f32>| -> Value { json!(e.iter().map(|x| (x * 1e5).round() / 1e5).collect::<Vec<f32>>()) };
        let _ = cosine;
        // one runtime per call: dropping it closes the client's sockets, otherwise the server's
        // graceful shutdown (SIGTERM) waits for connections whose driver task is no longer polled
        let rt = tokio::runtime::Builder::new_current_thread().enable_all().build().map_err(|e| Failure::new("setup_failed", e.to_string()))?;
        let out: Value = rt.block_on(async {
            let mut c = match srv.client().await {
                Ok(c) => c,
                Err(e) => return json!({"transport_error": e}),
            };
            match &rpc.kind {
                Kind::Insert(it) => match c.insert(with_key(to_req(it), key)).await {
                    Ok(r) => json!({"ok": r.get_ref().success}),
                    Err(s) => canon_status(&s),
                },
                Kind::BulkInsert(items) => {
                    let v: Vec<pb::InsertRequest> = items.iter().map(to_req).collect();
                    match c.bulk_insert(with_key(tokio_stream::iter(v), key)).await {
                        Ok(r) => json!({"inserted": r.get_ref().total_inserted, "failed": r.get_ref().total_failed}),
                        Err(s) => canon_status(&s),
                    }
                }
                Kind::BulkLoad(items) => {
                    let v: Vec<pb::InsertRequest> = items.iter().map(to_req).collect();
                    match c.bulk_load_hnsw(with_key(tokio_stream::iter(v), key)).await {
                        Ok(r) => json!({"loaded": r.get_ref().total_loaded, "failed": r.get_ref().total_failed}),
                        Err(s) => canon_status(&s),
                    }
                }
                Kind::Query { id, ns, emb } => match c.query(with_key(pb::QueryRequest { doc_id: *id, include_embedding: *emb, namespace: ns.clone() }, key)).await {
                    Ok(r) => {
                        let r = r.get_ref();
                        json!({"found": r.found, "embedding": canon_emb(&r.embedding), "metadata": canon_meta(&r.metadata)})
                    }
                    Err(s) => canon_status(&s),
                },
                Kind::BulkQuery { ids, ns, emb } => match c.bulk_query(with_key(pb::BulkQueryRequest { doc_ids: ids.clone(), include_embeddings: *emb, namespace: ns.clone() }, key)).await {
                    Ok(r) => {
                        let r = r.get_ref();
                        json!({"total_found": r.total_found, "results": r.results.iter().map(|q| json!({"id": q.doc_id, "found": q.found, "embedding": canon_emb(&q.embedding), "metadata": canon_meta(&q.metadata)})).collect::<Vec<_>>()})
                    }
                    Err(s) => canon_status(&s),
                },
                Kind::Search { q, k, ns, filter, emb } => {
                    let req = pb::SearchRequest { query_embedding: pool_vec(*q), k: *k, min_score: 0.0, namespace: ns.clone(), include_embeddings: *emb, ef_search: 0, filter: filter.as_ref().map(filter_to_proto), ..Default::default() };
                    match c.search(with_key(req, key)).await {
                        Ok(r) => {
                            let r = r.get_ref();
                            json!({"total_found": r.total_found, "results": r.results.iter().map(|x| json!({"id": x.doc_id, "score": (x.score * 1e4).round() / 1e4, "metadata": canon_meta(&x.metadata), "embedding": canon_emb(&x.embedding)})).collect::<Vec<_>>()})
                        }
                        Err(s) => canon_status(&s),
                    }
                }
                Kind::BulkSearch(list) => {
                    let reqs: Vec<pb::SearchRequest> = list
                        .iter()
                        .map(|(q, k, ns, f)| pb::SearchRequest { query_embedding: pool_vec(*q), k: *k, namespace: ns.clone(), filter: f.as_ref().map(filter_to_proto), ..Default::default() })
                        .collect();
                    match c.bulk_search(with_key(tokio_stream::iter(reqs), key)).await {
                        Ok(resp) => {
                            let mut st = resp.into_inner();
                            let mut outs = vec![];
                            loop {
                                match st.message().await {
                                    Ok(Some(r)) => outs.push(json!({"total_found": r.total_found, "results": r.results.iter().map(|x| json!({"id": x.doc_id, "score": (x.score * 1e4).round() / 1e4, "metadata": canon_meta(&x.metadata)})).collect::<Vec<_>>()})),
                                    Ok(None) => break,
                                    Err(s) => {
                                        outs.push(canon_status(&s));
                                        break;
                                    }
                                }
                            }
                            json!({"stream": outs})
                        }
                        Err(s) => canon_status(&s),
                    }
                }
                Kind::UpdateMeta { id, meta, merge, ns } => match c.update_metadata(with_key(pb::UpdateMetadataRequest { doc_id: *id, metadata: meta.iter().map(|(k, v)| (k.clone(), v.clone())).collect(), merge: *merge, namespace: ns.clone() }, key)).await {
                    Ok(r) => json!({"existed": r.get_ref().existed}),
                    Err(s) => canon_status(&s),
                },
                Kind::Delete { id, ns } => match c.delete(with_key(pb::DeleteRequest { doc_id: *id, namespace: ns.clone() }, key)).await {
                    Ok(r) => json!({"existed": r.get_ref().existed}),
                    Err(s) => canon_status(&s),
                },
                Kind::BatchDeleteIds { ids, ns } => {
                    let req = pb::BatchDeleteRequest { delete_criteria: Some(pb::batch_delete_request::DeleteCriteria::Ids(pb::IdList { doc_ids: ids.clone() })), namespace: ns.clone() };
                    match c.batch_delete(with_key(req, key)).await {
                        Ok(r) => json!({"deleted": r.get_ref().deleted_count}),
                        Err(s) => canon_status(&s),
                    }
                }
                Kind::BatchDeleteFilter { filter, ns } => {
                    let req = pb::BatchDeleteRequest { delete_criteria: Some(pb::batch_delete_request::DeleteCriteria::Filter(filter_to_proto(filter))), namespace: ns.clone() };
                    match c.batch_delete(with_key(req, key)).await {
                        Ok(r) => json!({"deleted": r.get_ref().deleted_count}),
                        Err(s) => canon_status(&s),
                    }
                }
                Kind::Flush => match c.flush_hot_tier(with_key(pb::FlushRequest { force: true }, key)).await {
                    Ok(r) => json!({"ok": r.get_ref().success}),
                    Err(s) => canon_status(&s),
                },
                Kind::Usage { all } => {
                    let path = if *all { "/usage?scope=all" } else { "/usage" };
                    match srv.http_get(path, key) {
                        Ok((code, body)) => {
                            let v: Value = serde_json::from_str(&body).unwrap_or(Value::Null);
                            let tenants = v["tenants"].as_array().cloned().unwrap_or_default();
                            json!({"http": code, "tenants": tenants.iter().map(|t| json!({"tenant_id": t["tenant_id"], "vector_count": t["vector_count"], "insert_count": t["insert_count"], "delete_count": t["delete_count"], "query_count": t["query_count"]})).collect::<Vec<_>>()})
                        }
                        Err(e) => json!({"transport_error": e}),
                    }
                }
            }
        });
        drop(rt);
        if out.get("transport_error").is_some() {
            return Err(Failure::new("setup_failed", format!("transport error on {:?}: {}", rpc, out)));
        }
        Ok(if matches!(rpc.kind, Kind::Search { .. } | Kind::BulkSearch(_)) { canon_search_order(out) } else { out })
    }
}

impl Prop for C10 {
    type Case = Case;
    fn part(&self) -> &'static str {
        "rpc"
    }
    fn shape(&self, tier: Tier) -> RawShape {
        RawShape { head_len: 4, chunk_len: 28, min_chunks: 8, max_chunks: tier.pick(48, 72) }
    }
    fn max_shrink_iters(&self) -> u32 {
        60
    }
    fn rule(&self) -> String {
        "generated multi-tenant RPC sequence against the real server (3 worlds: all tenants, alpha alone, beta alone); non-trivial = at least two tenants wrote the same local id and a cross-tenant read / update / delete attempt or an identical search followed; distinct = hash of decoded case".into()
    }
    fn decode(&self, raw: &Raw, _tier: Tier) -> Case {
        let mut t = Tape::new(&raw.head);
        let cosine = t.chance(100);
        let restart_sel = t.u8();
        let small_index = t.chance(100);
        let evolve = t.chance(64);
        let rpcs: Vec<Rpc> = raw
            .chunks
            .iter()
            .map(|c| {
                let mut t = Tape::new(c);
                let weights: &[u32] = if evolve { &[6, 6, 2, 7, 1, 1, 1, 3, 8] } else { &[10, 10, 3, 1, 1, 1, 1, 0, 1] };
                let who = match t.weighted(weights) {
                    0 => Who::Alpha,
                    1 => Who::Beta,
                    2 => Who::Gamma,
                    3 => Who::Admin,
                    4 => Who::Disabled,
                    5 => Who::Unknown,
                    6 => Who::NoKey,
                    7 => Who::Alpha2,
                    _ => Who::Delta,
                };
                let ns = |t: &mut Tape| t.pick(NSS).to_string();
                let weights: &[u32] = if small_index { &[30, 6, 4, 4, 3, 6, 1, 3, 4, 2, 5, 1, 1] } else { &[14, 3, 2, 8, 4, 12, 2, 4, 4, 2, 3, 1, 2] };
                let kind = match t.weighted(weights) {
                    0 => Kind::Insert(gen_item(&mut t)),
                    1 => Kind::BulkInsert((0..1 + t.below(3)).map(|_| gen_item(&mut t)).collect()),
                    2 => Kind::BulkLoad((0..1 + t.below(3)).map(|_| gen_item(&mut t)).collect()),
                    3 => Kind::Query { id: pick_id(&mut t), ns: ns(&mut t), emb: t.chance(128) },
                    4 => Kind::BulkQuery { ids: (0..1 + t.below(4)).map(|_| pick_id(&mut t)).collect(), ns: ns(&mut t), emb: t.chance(128) },
                    5 => Kind::Search { q: t.below(6), k: t.pick(&[1u32, 2, 3, 10]), ns: ns(&mut t), filter: if t.chance(100) { Some(gen_filter(&mut t, 2)) } else { None }, emb: t.chance(64) },
                    6 => Kind::BulkSearch((0..1 + t.below(3)).map(|_| (t.below(6), t.pick(&[1u32, 2, 10]), ns(&mut t), if t.chance(80) { Some(gen_filter(&mut t, 1)) } else { None })).collect()),
                    7 => Kind::UpdateMeta { id: pick_id(&mut t), meta: gen_meta(&mut t), merge: t.chance(128), ns: ns(&mut t) },
                    8 => Kind::Delete { id: pick_id(&mut t), ns: ns(&mut t) },
                    9 => Kind::BatchDeleteIds { ids: (0..1 + t.below(4)).map(|_| pick_id(&mut t)).collect(), ns: ns(&mut t) },
                    10 => Kind::BatchDeleteFilter { filter: gen_filter(&mut t, 2), ns: ns(&mut t) },
                    11 => Kind::Flush,
                    _ => Kind::Usage { all: t.chance(100) },
                };
                Rpc { who, kind }
            })
            .collect();
        let restart_at = if evolve && !rpcs.is_empty() {
            // the newcomer's key is added at a restart in the first half of the case
            Some(restart_sel as usize % (rpcs.len() / 2).max(1))
        } else if restart_sel < 50 && !rpcs.is_empty() {
            Some(restart_sel as usize % rpcs.len())
        } else {
            None
        };
        Case { cosine, rpcs, restart_at, small_index, evolve }
    }

    fn run(&self, case: &Case, env: &CaseEnv) -> Result<CaseReport, Failure> {
        let shard = SHARD.with(|s| *s);
        let mut rep = CaseReport::default();
        // ---------------- world 1: everybody --------------------------------------------------
        let mut w = World::start(case.cosine, case.small_index, case.evolve, &env.dir("w_all"), shard)?;
        let mut models: BTreeMap<Who, TenantModel> = BTreeMap::new();
        let mut responses: Vec<Value> = vec![];
        let mut exhaustive_tier = true; // every document still in the recent-write tier
        let mut exhaustive_at: Vec<bool> = vec![];
        let mut same_id_written_by: BTreeMap<u64, std::collections::BTreeSet<Who>> = BTreeMap::new();
        let mut collided = false;
        let mut restarted = false;
        for (i, rpc) in case.rpcs.iter().enumerate() {
            if case.restart_at == Some(i) {
                w.restart(case.evolve)?;
                restarted = true;
                exhaustive_tier = false;
                rep.label("restart");
            }
            if matches!(rpc.kind, Kind::Flush | Kind::BulkLoad(_)) && rpc.who.tenant().is_some() {
                exhaustive_tier = false;
            }
            exhaustive_at.push(exhaustive_tier);
            let resp = w.exec(rpc, case.cosine)?;
            // who the caller IS for the oracles: alpha's second key is alpha; delta's key is an
            // unknown key until the restart that adds it (and in cases that never add it)
            let judged_who = match rpc.who {
                Who::Alpha2 if case.evolve => Who::Alpha,
                Who::Alpha2 => Who::Unknown,
                Who::Delta if case.evolve && restarted => Who::Delta,
                Who::Delta => Who::Unknown,
                w => w,
            };
            let judged = Rpc { who: judged_who, kind: rpc.kind.clone() };
            let rpc_orig = rpc;
            let rpc = &judged;
            let _ = rpc_orig;
            judge_against_model(i, rpc, &resp, &mut models, case.cosine).map_err(|mut f| {
                f.msg = format!("rpc {} {:?} by {:?}: {}", i, kind_name(&rpc.kind), rpc.who, f.msg);
                f
            })?;
            // non-trivial bookkeeping
            if let (Some(_), Kind::Insert(it)) = (rpc.who.tenant(), &rpc.kind) {
                let e = same_id_written_by.entry(it.id).or_default();
                e.insert(rpc.who);
                if e.len() >= 2 {
                    collided = true;
                }
            }
            if collided && matches!(rpc.kind, Kind::Query { .. } | Kind::Search { .. } | Kind::Delete { .. } | Kind::UpdateMeta { .. } | Kind::BulkQuery { .. }) {
                rep.nontrivial = true;
            }
            responses.push(resp);
        }
        drop(w);
        // ---------------- worlds 2, 3: one tenant alone (non-interference) -----------------------
        for solo in [Who::Alpha, Who::Beta] {
            if !case.rpcs.iter().any(|r| r.who.principal() == solo) {
                continue;
            }
            let others_wrote = case.rpcs.iter().any(|r| r.who.principal() != solo && r.who.tenant().is_some() && matches!(r.kind, Kind::Insert(_) | Kind::BulkInsert(_) | Kind::BulkLoad(_)));
            if !others_wrote {
                continue;
            }
            let mut w = World::start(case.cosine, case.small_index, case.evolve, &env.dir(&format!("w_{:?}", solo)), shard)?;
            for (i, rpc) in case.rpcs.iter().enumerate() {
                if case.restart_at == Some(i) {
                    w.restart(case.evolve)?;
                }
                if rpc.who.principal() != solo || (rpc.who == Who::Alpha2 && !case.evolve) {
                    continue;
                }
                let alone = w.exec(rpc, case.cosine)?;
                let together = &responses[i];
                let is_search = matches!(rpc.kind, Kind::Search { .. } | Kind::BulkSearch(_));
                if is_search && !exhaustive_at[i] {
                    rep.excluded.push("search_after_drain_or_bulk_load_not_compared".into());
                    continue;
                }
                rep.count("evaluations_judged", 1);
                let (alone, together) = match &rpc.kind {
                    Kind::Search { k, .. } => (comparable_search(&alone, *k), comparable_search(together, *k)),
                    Kind::BulkSearch(list) => {
                        let f = |v: &Value| -> Value {
                            let mut v = v.clone();
                            if let Some(st) = v.get_mut("stream").and_then(|x| x.as_array_mut()) {
                                for (r, (_, k, _, _)) in st.iter_mut().zip(list.iter()) {
                                    *r = comparable_search(r, *k);
                                }
                            }
                            v
                        };
                        (f(&alone), f(together))
                    }
                    _ => (alone.clone(), together.clone()),
                };
                if alone != together {
                    let sig = json!({"kind": "tenant_observes_other_tenants", "rpc": kind_name(&rpc.kind)});
                    if env.ctx.is_known(&sig) {
                        rep.known_sigs.push(sig);
                        continue;
                    }
                    return Err(Failure::new(
                        "tenant_observes_other_tenants",
                        format!(
                            "rpc {} {:?} by {:?}: the response differs depending on whether OTHER tenants' requests were executed.\n  with the other tenants: {}\n  alone:                 {}",
                            i,
                            rpc.kind,
                            rpc.who,
                            together,
                            alone
                        ),
                    )
                    .with_sig(sig));
                }
            }
        }
        Ok(rep)
    }
}

/// Search results with exactly equal scores come back in an unspecified order (and a k-cut
/// inside a tie group may keep different members): sort each response's results by
/// (score desc, id) and, when the list is full, drop the trailing tie group before comparing.
fn canon_search_order(mut v: Value) -> Value {
    fn fix(r: &mut Value) {
        if let Some(arr) = r.get_mut("results").and_then(|x| x.as_array_mut()) {
            arr.sort_by(|a, b| {
                let (sa, sb) = (a["score"].as_f64().unwrap_or(0.0), b["score"].as_f64().unwrap_or(0.0));
                sb.partial_cmp(&sa).unwrap_or(std::cmp::Ordering::Equal).then(a["id"].as_u64().cmp(&b["id"].as_u64()))
            });
        }
    }
    if v.get("results").is_some() && v.get("total_found").is_some() {
        fix(&mut v);
    }
    if let Some(st) = v.get_mut("stream").and_then(|x| x.as_array_mut()) {
        for r in st.iter_mut() {
            fix(r);
        }
    }
    v
}

/// For the differential comparison: results without the trailing tie group when the list is full.
fn comparable_search(v: &Value, k: u32) -> Value {
    let mut v = v.clone();
    if let Some(arr) = v.get_mut("results").and_then(|x| x.as_array_mut()) {
        if arr.len() as u32 >= k && !arr.is_empty() {
            let last = arr.last().unwrap()["score"].clone();
            while arr.last().map_or(false, |x| x["score"] == last) {
                arr.pop();
            }
        }
    }
    v
}

thread_local! {
    pub static SHARD: usize = {
        static NEXT: std::sync::atomic::AtomicUsize = std::sync::atomic::AtomicUsize::new(0);
        NEXT.fetch_add(1, std::sync::atomic::Ordering::Relaxed)
    };
}

fn kind_name(k: &Kind) -> &'static str {
    match k {
        Kind::Insert(_) => "Insert",
        Kind::BulkInsert(_) => "BulkInsert",
        Kind::BulkLoad(_) => "BulkLoadHnsw",
        Kind::Query { .. } => "Query",
        Kind::BulkQuery { .. } => "BulkQuery",
        Kind::Search { .. } => "Search",
        Kind::BulkSearch(_) => "BulkSearch",
        Kind::UpdateMeta { .. } => "UpdateMetadata",
        Kind::Delete { .. } => "Delete",
        Kind::BatchDeleteIds { .. } => "BatchDelete(ids)",
        Kind::BatchDeleteFilter { .. } => "BatchDelete(filter)",
        Kind::Flush => "FlushHotTier",
        Kind::Usage { .. } => "GET /usage",
    }
}

fn norm_vec(v: &[f32], cosine: bool) -> Vec<f32> {
    if !cosine {
        return v.to_vec();
    }
    let ns: f32 = v.iter().map(|x| x * x).sum();
    if (0.98..=1.02).contains(&ns) {
        return v.to_vec();
    }
    let inv = 1.0 / ns.sqrt();
    v.iter().map(|x| x * inv).collect()
}

fn emb_close(v: &Value, want: &[f32]) -> bool {
    let got: Vec<f64> = v.as_array().map(|a| a.iter().filter_map(|x| x.as_f64()).collect()).unwrap_or_default();
    got.len() == want.len() && got.iter().zip(want).all(|(a, b)| (a - *b as f64).abs() <= 2e-5)
}

fn meta_eq(v: &Value, want: &Meta) -> bool {
    let got: Meta = v.as_object().map(|o| o.iter().map(|(k, x)| (k.clone(), x.as_str().unwrap_or("").to_string())).collect()).unwrap_or_default();
    &got == want
}

fn fail(kind: &str, msg: String) -> Failure {
    Failure::new(kind, msg)
}

/// Oracles (1), (2), (4), (5) against the per-tenant reference models; updates the models.
fn judge_against_model(_i: usize, rpc: &Rpc, resp: &Value, models: &mut BTreeMap<Who, TenantModel>, cosine: bool) -> Result<(), Failure> {
    let is_usage = matches!(rpc.kind, Kind::Usage { .. });
    // (4) unauthenticated callers
    if rpc.who.tenant().is_none() {
        if is_usage {
            if resp["http"] != json!(401) {
                return Err(fail("unauthenticated_usage_access", format!("/usage without a valid enabled key answered {}", resp)));
            }
        } else if resp["status"] != json!("Unauthenticated") {
            return Err(fail("unauthenticated_rpc_accepted", format!("data RPC without a valid enabled key was not refused with UNAUTHENTICATED: {}", resp)).with_sig(json!({"kind": "unauthenticated_rpc_accepted"})));
        }
        return Ok(());
    }
    let who = rpc.who;
    let m = models.entry(who).or_default();
    let no_reserved = |v: &Value| -> Result<(), Failure> {
        if let Some(o) = v.as_object() {
            if o.keys().any(|k| matches!(k.as_str(), "__tenant_id__" | "__tenant_idx__" | "__namespace__")) {
                return Err(fail("reserved_key_visible", format!("response metadata exposes a server-owned key: {}", v)).with_sig(json!({"kind": "reserved_key_visible"})));
            }
        }
        Ok(())
    };
    let apply_item = |m: &mut TenantModel, it: &Item| {
        m.docs.insert(it.id, MDoc { vec: norm_vec(&pool_vec(it.vec), cosine), internal: internal_meta(who, &it.meta, &it.ns), ns: it.ns.clone() });
    };
    match &rpc.kind {
        Kind::Insert(it) => {
            if !valid_local(it.id) {
                if resp["status"] != json!("InvalidArgument") {
                    return Err(fail("invalid_id_not_refused", format!("insert of local id {} answered {}", it.id, resp)));
                }
            } else {
                if resp["ok"] != json!(true) {
                    return Err(fail("valid_insert_refused", format!("answered {}", resp)));
                }
                apply_item(m, it);
            }
        }
        Kind::BulkInsert(items) | Kind::BulkLoad(items) => {
            let valid: Vec<&Item> = items.iter().filter(|it| valid_local(it.id)).collect();
            let (okk, failk) = if matches!(rpc.kind, Kind::BulkInsert(_)) { ("inserted", "failed") } else { ("loaded", "failed") };
            if resp[okk] != json!(valid.len() as u64) || resp[failk] != json!((items.len() - valid.len()) as u64) {
                return Err(fail("bulk_accounting", format!("{} valid of {} items but the server answered {}", valid.len(), items.len(), resp)));
            }
            for it in valid {
                apply_item(m, it);
            }
        }
        Kind::Query { id, ns, emb } => {
            if !valid_local(*id) {
                if resp["status"] != json!("InvalidArgument") {
                    return Err(fail("invalid_id_not_refused", format!("query of local id {} answered {}", id, resp)));
                }
                return Ok(());
            }
            let want = m.docs.get(id).filter(|d| ns_matches(&d.ns, ns));
            match want {
                None => {
                    if resp["found"] != json!(false) || !resp["metadata"].as_object().map_or(true, |o| o.is_empty()) || !resp["embedding"].as_array().map_or(true, |a| a.is_empty()) {
                        return Err(fail("found_foreign_or_absent_document", format!("the caller has no such document (id {}, namespace {:?}) but the server answered {}", id, ns, resp)).with_sig(json!({"kind": "cross_tenant_read"})));
                    }
                }
                Some(d) => {
                    no_reserved(&resp["metadata"])?;
                    if resp["found"] != json!(true) || !meta_eq(&resp["metadata"], &public(&d.internal)) || (*emb && !emb_close(&resp["embedding"], &d.vec)) {
                        return Err(fail("wrong_document_returned", format!("expected found with metadata {:?} vector {:?}; answered {}", public(&d.internal), d.vec, resp)).with_sig(json!({"kind": "wrong_document_returned"})));
                    }
                }
            }
        }
        Kind::BulkQuery { ids, ns, emb } => {
            if ids.iter().any(|i| *i > u32::MAX as u64) {
                if resp["status"] != json!("InvalidArgument") {
                    return Err(fail("invalid_id_not_refused", format!("bulk query answered {}", resp)));
                }
                return Ok(());
            }
            let arr = resp["results"].as_array().cloned().unwrap_or_default();
            if arr.len() != ids.len() {
                return Err(fail("bulk_query_length", format!("{} ids, {} answers: {}", ids.len(), arr.len(), resp)));
            }
            for (id, r) in ids.iter().zip(arr.iter()) {
                let want = m.docs.get(id).filter(|d| ns_matches(&d.ns, ns));
                match want {
                    None => {
                        if r["found"] != json!(false) || !r["metadata"].as_object().map_or(true, |o| o.is_empty()) || !r["embedding"].as_array().map_or(true, |a| a.is_empty()) {
                            return Err(fail("found_foreign_or_absent_document", format!("bulk query: caller has no document {} but got {}", id, r)).with_sig(json!({"kind": "cross_tenant_read"})));
                        }
                    }
                    Some(d) => {
                        no_reserved(&r["metadata"])?;
                        if r["found"] != json!(true) || !meta_eq(&r["metadata"], &public(&d.internal)) || (*emb && !emb_close(&r["embedding"], &d.vec)) {
                            return Err(fail("wrong_document_returned", format!("bulk query id {}: expected metadata {:?}; got {}", id, public(&d.internal), r)).with_sig(json!({"kind": "wrong_document_returned"})));
                        }
                    }
                }
            }
        }
        Kind::Search { ns, filter, k, .. } => {
            if resp.get("status").is_some() {
                return Err(fail("valid_search_refused", format!("answered {}", resp)));
            }
            judge_search(resp, m, ns, filter.as_ref(), *k, &no_reserved)?;
        }
        Kind::BulkSearch(list) => {
            let outs = resp["stream"].as_array().cloned().unwrap_or_default();
            if outs.len() != list.len() {
                return Err(fail("bulk_search_accounting", format!("{} requests, {} responses: {}", list.len(), outs.len(), resp)));
            }
            for ((_, k, ns, f), r) in list.iter().zip(outs.iter()) {
                if r.get("status").is_some() {
                    return Err(fail("valid_search_refused", format!("answered {}", r)));
                }
                judge_search(r, m, ns, f.as_ref(), *k, &no_reserved)?;
            }
        }
        Kind::UpdateMeta { id, meta, merge, ns } => {
            if !valid_local(*id) {
                if resp["status"] != json!("InvalidArgument") {
                    return Err(fail("invalid_id_not_refused", format!("answered {}", resp)));
                }
                return Ok(());
            }
            let target = m.docs.get_mut(id).filter(|d| ns_matches(&d.ns, ns));
            let expect = target.is_some();
            if resp["existed"] != json!(expect) {
                return Err(fail("update_existed_flag", format!("existed should be {} (caller's own documents only): {}", expect, resp)).with_sig(json!({"kind": "cross_tenant_write"})));
            }
            if let Some(d) = target {
                let user = strip_reserved(meta);
                let reserved: Meta = d.internal.iter().filter(|(k, _)| matches!(k.as_str(), "__tenant_id__" | "__tenant_idx__" | "__namespace__")).map(|(k, v)| (k.clone(), v.clone())).collect();
                if *merge {
                    for (k, v) in user {
                        d.internal.insert(k, v);
                    }
                } else {
                    d.internal = user;
                }
                for (k, v) in reserved {
                    d.internal.insert(k, v);
                }
            }
        }
        Kind::Delete { id, ns } => {
            if !valid_local(*id) {
                if resp["status"] != json!("InvalidArgument") {
                    return Err(fail("invalid_id_not_refused", format!("answered {}", resp)));
                }
                return Ok(());
            }
            let expect = m.docs.get(id).map_or(false, |d| ns_matches(&d.ns, ns));
            if resp["existed"] != json!(expect) {
                return Err(fail("delete_existed_flag", format!("existed should be {}: {}", expect, resp)).with_sig(json!({"kind": "cross_tenant_write"})));
            }
            if expect {
                m.docs.remove(id);
            }
        }
        Kind::BatchDeleteIds { ids, ns } => {
            if ids.iter().any(|i| *i > u32::MAX as u64) {
                if resp["status"] != json!("InvalidArgument") {
                    return Err(fail("invalid_id_not_refused", format!("answered {}", resp)));
                }
                return Ok(());
            }
            let victims: std::collections::BTreeSet<u64> = ids.iter().filter(|i| m.docs.get(i).map_or(false, |d| ns_matches(&d.ns, ns))).copied().collect();
            if resp["deleted"] != json!(victims.len() as u64) {
                return Err(fail("batch_delete_count", format!("the caller owns {} of the ids {:?} (namespace {:?}) but the server answered {}", victims.len(), ids, ns, resp)).with_sig(json!({"kind": "cross_tenant_write"})));
            }
            for v in victims {
                m.docs.remove(&v);
            }
        }
        Kind::BatchDeleteFilter { filter, ns } => {
            let victims: Vec<u64> = m.docs.iter().filter(|(_, d)| ns_matches(&d.ns, ns) && ref_matches(filter, &d.internal)).map(|(i, _)| *i).collect();
            if resp["deleted"] != json!(victims.len() as u64) {
                return Err(fail("batch_delete_count", format!("filter {:?} namespace {:?} selects {} of the caller's documents but the server answered {}", filter, ns, victims.len(), resp)).with_sig(json!({"kind": "cross_tenant_write"})));
            }
            for v in victims {
                m.docs.remove(&v);
            }
        }
        Kind::Flush => {}
        Kind::Usage { all } => {
            let is_admin = who == Who::Admin;
            if *all && !is_admin {
                if resp["http"] != json!(403) {
                    return Err(fail("usage_scope_all_not_refused", format!("non-admin asked scope=all and got {}", resp)).with_sig(json!({"kind": "usage_leak"})));
                }
            } else if !*all {
                let rows = resp["tenants"].as_array().cloned().unwrap_or_default();
                if resp["http"] != json!(200) || rows.len() > 1 || rows.iter().any(|r| r["tenant_id"] != json!(who.tenant().unwrap())) {
                    return Err(fail("usage_shows_foreign_rows", format!("caller {:?} got {}", who, resp)).with_sig(json!({"kind": "usage_leak"})));
                }
            }
        }
    }
    Ok(())
}

fn judge_search(r: &Value, m: &TenantModel, ns: &str, filter: Option<&Filter>, k: u32, no_reserved: &dyn Fn(&Value) -> Result<(), Failure>) -> Result<(), Failure> {
    let results = r["results"].as_array().cloned().unwrap_or_default();
    if results.len() > k as usize {
        return Err(fail("more_than_k", format!("{} results for k={}", results.len(), k)));
    }
    for x in &results {
        let id = x["id"].as_u64().unwrap_or(0);
        let Some(d) = m.docs.get(&id) else {
            return Err(fail("search_returned_foreign_document", format!("result id {} is not a live document of the caller: {}", id, x)).with_sig(json!({"kind": "cross_tenant_read"})));
        };
        if !ns_matches(&d.ns, ns) || !filter.map_or(true, |f| ref_matches(f, &d.internal)) {
            return Err(fail("search_ignored_namespace_or_filter", format!("result id {} (namespace {:?}, metadata {:?}) does not match namespace {:?} / filter {:?}", id, d.ns, d.internal, ns, filter)));
        }
        no_reserved(&x["metadata"])?;
        let meta_given = x["metadata"].as_object().map_or(false, |o| !o.is_empty());
        if meta_given && !meta_eq(&x["metadata"], &public(&d.internal)) {
            return Err(fail("search_returned_foreign_metadata", format!("result id {} carries metadata {} but the caller's document has {:?}", id, x["metadata"], public(&d.internal))).with_sig(json!({"kind": "cross_tenant_read"})));
        }
    }
    Ok(())
}

pub fn main(ctx: &Ctx) {
    ctx.assume("process-wide health / metrics counters are not inspected (outside the property)");
    ctx.assume("non-interference of search results and counts is judged only while every document is still in the exhaustively scanned recent-write tier (no drain, bulk load or restart before the search), so HNSW approximation cannot raise an alarm");
    ctx.assume("the server is the repository's kyrodb_server.rs compiled in the harness workspace against the same engine library; tier timeouts are 30 s");
    run_committed_replays(ctx, &C10);
    run_pbt(ctx, &C10, ctx.tier.pick(480, 8_000));
}

pub fn replay(ctx: &Ctx, v: &serde_json::Value) -> Option<i32> {
    replay_file(ctx, &C10, v)
}
