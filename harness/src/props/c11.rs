//! C11 — metadata filters select exactly the matching documents.
//!
//! Part `exhaustive`: every filter tree of depth <= 2 over keys {a,b} and one value per
//! class (plus depth-3 trees over a reduced leaf set), evaluated on three fixed collections
//! (fresh; reached through overwrites / updates / deletes; after tombstone compaction and
//! recovery).  Part `history`: random histories on a TieredEngine with random deep trees,
//! filtered batch deletes, bulk loads, drains and restarts.
//! Oracle: index result == independent reference semantics == scan with the repo's matcher.

use crate::common::eng::BackendCfg;
use crate::common::eng::Fsync;
use crate::common::gens::*;
use crate::common::model::{bits_of, meta_to_hash, Meta, Model};
use crate::common::runner::*;
use crate::common::tape::Tape;
use crate::common::tiered::{Tiered, TieredCfg};
use kyrodb_engine::HnswBackend;
use serde::{Deserialize, Serialize};
use serde_json::json;
use std::sync::atomic::{AtomicUsize, Ordering};

// ------------------------------------------------------------------------------------------
// exhaustive part
// ------------------------------------------------------------------------------------------

fn class_values() -> Vec<String> {
    let mut v: Vec<String> = [
        "0", "1", "5", "10", "-3", "2.5", "-0", "0.0", "1e1", "+5", " 5", "007", "inf", "-inf", "NaN", "", "abc", "B", "é",
    ]
    .iter()
    .map(|s| s.to_string())
    .collect();
    v.push(long_value(7));
    v
}

fn fixed_docs() -> Vec<(u64, Meta)> {
    let vals = class_values();
    let n = vals.len();
    let mut docs = vec![];
    for i in 0..n {
        let mut m = Meta::new();
        if i % 5 != 4 {
            m.insert("a".into(), vals[i].clone());
        }
        if i % 3 != 2 {
            m.insert("b".into(), vals[(i * 7 + 3) % n].clone());
        }
        if i % 4 == 0 {
            m.insert("c".into(), "x".into());
        }
        docs.push((i as u64 + 1, m));
    }
    docs
}

fn vec_for(id: u64) -> Vec<f32> {
    vec![1.0 + id as f32, 0.5 * id as f32]
}

#[derive(Clone, Copy, Debug, PartialEq, Eq, Serialize, Deserialize)]
pub enum Coll {
    Fresh,
    Churned,
    CompactedRecovered,
}

/// Build one of the three fixed collections; returns the backend and the model metadata.
fn build_collection(which: Coll, dir: &std::path::Path) -> Result<(HnswBackend, Vec<(u64, Meta)>), Failure> {
    let docs = fixed_docs();
    let err = |e: anyhow::Error| Failure::new("setup_failed", format!("collection {:?}: {:#}", which, e));
    match which {
        Coll::Fresh => {
            let b = HnswBackend::new(2, kyrodb_engine::DistanceMetric::Euclidean, vec![], vec![], 1000).map_err(err)?;
            for (id, m) in &docs {
                b.insert(*id, vec_for(*id), meta_to_hash(m)).map_err(err)?;
            }
            Ok((b, docs))
        }
        Coll::Churned => {
            // every document first written with a *different* value set, then overwritten or
            // updated into place; a few extra documents inserted and deleted again
            let b = HnswBackend::new(2, kyrodb_engine::DistanceMetric::Euclidean, vec![], vec![], 1000).map_err(err)?;
            let n = docs.len();
            for (i, (id, _)) in docs.iter().enumerate() {
                let other = &docs[(i + 5) % n].1;
                b.insert(*id, vec_for(*id + 100), meta_to_hash(other)).map_err(err)?;
            }
            for extra in 500..506u64 {
                b.insert(extra, vec_for(extra), meta_to_hash(&docs[(extra % n as u64) as usize].1)).map_err(err)?;
            }
            for (i, (id, m)) in docs.iter().enumerate() {
                match i % 3 {
                    0 => b.insert(*id, vec_for(*id), meta_to_hash(m)).map_err(err)?,
                    1 => {
                        b.update_metadata(*id, meta_to_hash(m), false).map_err(err)?;
                    }
                    _ => {
                        // replace with numeric junk, then merge-overwrite key by key after a replace to {}
                        let mut junk = Meta::new();
                        junk.insert("a".into(), "NaN".into());
                        junk.insert("b".into(), "3".into());
                        b.update_metadata(*id, meta_to_hash(&junk), true).map_err(err)?;
                        b.update_metadata(*id, Default::default(), false).map_err(err)?;
                        b.update_metadata(*id, meta_to_hash(m), true).map_err(err)?;
                    }
                }
            }
            for extra in 500..506u64 {
                b.delete(extra).map_err(err)?;
            }
            Ok((b, docs))
        }
        Coll::CompactedRecovered => {
            let cfg = BackendCfg {
                metric: Metric::Euclidean,
                dim: 2,
                snapshot_interval: 7,
                rotate_bytes: 300,
                capacity: docs.len() + 2,
                fsync: Fsync::Never,
            };
            let b = cfg.create(dir).map_err(err)?;
            let n = docs.len();
            // two rounds of writes with capacity n+2 force tombstone compaction
            for (i, (id, _)) in docs.iter().enumerate() {
                b.insert(*id, vec_for(*id + 7), meta_to_hash(&docs[(i + 3) % n].1)).map_err(err)?;
            }
            for (id, m) in &docs {
                b.insert(*id, vec_for(*id), meta_to_hash(m)).map_err(err)?;
            }
            drop(b);
            let b = cfg.recover(dir).map_err(err)?;
            // and one more mutation round after recovery
            let (id0, m0) = &docs[0];
            b.update_metadata(*id0, meta_to_hash(m0), false).map_err(err)?;
            Ok((b, docs))
        }
    }
}

fn leaves(values: &[String], keys: &[&str]) -> Vec<Filter> {
    let mut out = vec![Filter::Absent, Filter::Not(None)];
    for k in keys {
        let k = k.to_string();
        for v in values {
            out.push(Filter::Exact(k.clone(), v.clone()));
            out.push(Filter::Range(k.clone(), Bound::Gte(v.clone())));
            out.push(Filter::Range(k.clone(), Bound::Lte(v.clone())));
            out.push(Filter::Range(k.clone(), Bound::Gt(v.clone())));
            out.push(Filter::Range(k.clone(), Bound::Lt(v.clone())));
        }
        out.push(Filter::Range(k.clone(), Bound::None));
        out.push(Filter::In(k.clone(), vec![]));
        for i in 0..values.len().min(6) {
            out.push(Filter::In(k.clone(), vec![values[i * 3 % values.len()].clone()]));
            out.push(Filter::In(k.clone(), vec![values[i].clone(), values[(i * 5 + 2) % values.len()].clone()]));
        }
    }
    out
}

/// i-th tree of the depth<=2 enumeration over `l` leaves (without materialising the list)
fn depth2_count(l: usize) -> usize {
    // leaves, Not(leaf), And[], Or[], And[x], Or[x], And[x,y], Or[x,y]
    l + l + 2 + 2 * l + 2 * l * l
}

fn depth2_tree(lv: &[Filter], mut i: usize) -> Filter {
    let l = lv.len();
    if i < l {
        return lv[i].clone();
    }
    i -= l;
    if i < l {
        return Filter::Not(Some(Box::new(lv[i].clone())));
    }
    i -= l;
    if i == 0 {
        return Filter::And(vec![]);
    }
    if i == 1 {
        return Filter::Or(vec![]);
    }
    i -= 2;
    if i < l {
        return Filter::And(vec![lv[i].clone()]);
    }
    i -= l;
    if i < l {
        return Filter::Or(vec![lv[i].clone()]);
    }
    i -= l;
    if i < l * l {
        return Filter::And(vec![lv[i / l].clone(), lv[i % l].clone()]);
    }
    i -= l * l;
    Filter::Or(vec![lv[i / l].clone(), lv[i % l].clone()])
}

#[derive(Clone, Debug, Serialize, Deserialize)]
pub struct EvalCase {
    pub coll: Coll,
    pub filter: Filter,
}

fn eval_one(b: &HnswBackend, docs: &[(u64, Meta)], f: &Filter) -> Result<(bool, bool), Failure> {
    let pf = filter_to_proto(f);
    let mut got = b.ids_for_metadata_filter(&pf);
    got.sort_unstable();
    let want: Vec<u64> = docs.iter().filter(|(_, m)| ref_matches(f, m)).map(|(id, _)| *id).collect();
    let mut scan = b.scan(|m| kyrodb_engine::metadata_filter::matches(&pf, m));
    scan.sort_unstable();
    if got != want {
        return Err(Failure::new(
            "index_vs_reference",
            format!("filter {:?}: index selects {:?}, reference semantics select {:?} (repo matcher scan: {:?})", f, got, want, scan),
        )
        .with_sig(json!({"kind": "index_vs_reference"})));
    }
    if scan != want {
        return Err(Failure::new(
            "matcher_vs_reference",
            format!("filter {:?}: repo matcher selects {:?}, reference semantics select {:?}", f, scan, want),
        ));
    }
    let nontrivial = !want.is_empty() && want.len() < docs.len() && filter_has_range_or_not(f);
    Ok((nontrivial, want.is_empty()))
}

pub struct Eval;

impl Prop for Eval {
    type Case = EvalCase;
    fn part(&self) -> &'static str {
        "exhaustive"
    }
    fn shape(&self, _t: Tier) -> RawShape {
        RawShape { head_len: 1, chunk_len: 1, min_chunks: 0, max_chunks: 0 }
    }
    fn rule(&self) -> String {
        "complete enumeration of filter trees of depth <= 2 over keys {a,b} x 20 value classes x all range operators (and depth-3 trees And/Or(depth2, leaf), Not(depth2) over a reduced leaf set) on 3 fixed 20-document collections; non-trivial = result neither empty nor everything and the tree contains a Range or Not; every enumerated (collection, tree) is distinct by construction".into()
    }
    fn decode(&self, _raw: &Raw, _t: Tier) -> EvalCase {
        EvalCase { coll: Coll::Fresh, filter: Filter::Absent }
    }
    fn run(&self, case: &EvalCase, env: &CaseEnv) -> Result<CaseReport, Failure> {
        let dir = env.dir("coll");
        let (b, docs) = build_collection(case.coll, &dir)?;
        let (nt, _) = eval_one(&b, &docs, &case.filter)?;
        Ok(CaseReport { nontrivial: nt, ..Default::default() })
    }
}

fn run_exhaustive(ctx: &Ctx) {
    let values = class_values();
    let full = leaves(&values, &["a", "b"]);
    let reduced_vals: Vec<String> = ["1", "5", "-0", "NaN", "abc", ""].iter().map(|s| s.to_string()).collect();
    let mut reduced = leaves(&reduced_vals, &["a"]);
    reduced.truncate(24);
    let d2_full = depth2_count(full.len());
    let d2_red = depth2_count(reduced.len());
    // depth 3: Not(d2), And[d2, leaf], Or[d2, leaf] over the reduced set
    let d3 = d2_red + 2 * d2_red * reduced.len();
    let total = d2_full + d3;

    let env = ctx.env(true);
    let mut colls = vec![];
    for (i, c) in [Coll::Fresh, Coll::Churned, Coll::CompactedRecovered].into_iter().enumerate() {
        match build_collection(c, &env.dir(&format!("coll{}", i))) {
            Ok(x) => colls.push((c, x.0, x.1)),
            Err(f) => {
                ctx.report_violation("exhaustive", &EvalCase { coll: c, filter: Filter::Absent }, &f);
                return;
            }
        }
    }
    // sanity: the collections hold exactly the model documents
    let next = AtomicUsize::new(0);
    let stats = std::sync::Mutex::new(PartStats { part: "exhaustive".into(), rule: Eval.rule(), exhaustive: true, ..Default::default() });
    let failed = std::sync::atomic::AtomicBool::new(false);
    std::thread::scope(|s| {
        for tix in 0..ctx.threads {
            let (next, failed, stats, colls, full, reduced) = (&next, &failed, &stats, &colls, &full, &reduced);
            s.spawn(move || {
                let mut st = PartStats::default();
                let mut nt_count = 0u64;
                loop {
                    let start = next.fetch_add(512, Ordering::Relaxed);
                    if start >= total || failed.load(Ordering::Relaxed) {
                        break;
                    }
                    for i in start..(start + 512).min(total) {
                        let f = if i < d2_full {
                            depth2_tree(full, i)
                        } else {
                            let j = i - d2_full;
                            if j < d2_red {
                                Filter::Not(Some(Box::new(depth2_tree(reduced, j))))
                            } else {
                                let j = j - d2_red;
                                let and = j < d2_red * reduced.len();
                                let j = if and { j } else { j - d2_red * reduced.len() };
                                let sub = depth2_tree(reduced, j / reduced.len());
                                let leaf = reduced[j % reduced.len()].clone();
                                if and {
                                    Filter::And(vec![sub, leaf])
                                } else {
                                    Filter::Or(vec![leaf, sub])
                                }
                            }
                        };
                        for (c, b, docs) in colls.iter() {
                            st.evaluations += 1;
                            match eval_one(b, docs, &f) {
                                Ok((nt, empty)) => {
                                    if nt {
                                        nt_count += 1;
                                        if st.samples.len() < 1 && i % 977 == 3 {
                                            st.samples.push(format!("{:?} on {:?}", f, c));
                                        }
                                    }
                                    if empty {
                                        *st.labels.entry("empty_result".into()).or_default() += 1;
                                    }
                                }
                                Err(fail) => {
                                    if let Some(id) = ctx.known_id(&fail.sig) {
                                        *st.known_hits.entry(id).or_default() += 1;
                                    } else if !failed.swap(true, Ordering::Relaxed) {
                                        ctx.report_violation("exhaustive", &EvalCase { coll: *c, filter: f.clone() }, &fail);
                                    }
                                }
                            }
                        }
                    }
                }
                // distinct by construction: every (collection, tree) pair is enumerated once
                for k in 0..nt_count {
                    st.nontrivial.insert(((tix as u64) << 40) | k);
                }
                stats.lock().unwrap().merge(st);
            });
        }
    });
    let mut st = stats.into_inner().unwrap();
    st.exhaustive = !failed.load(Ordering::Relaxed);
    st.counters.insert("trees_depth_le2".into(), d2_full as u64);
    st.counters.insert("trees_depth3_reduced".into(), d3 as u64);
    st.counters.insert("collections".into(), colls.len() as u64);
    ctx.add_part(st);
    let _ = std::fs::remove_dir_all(env.scratch_root());
}


// ------------------------------------------------------------------------------------------
// history part
// ------------------------------------------------------------------------------------------

#[derive(Clone, Debug, Serialize, Deserialize)]
pub enum HOp {
    Insert { id: u64, meta: Meta },
    BulkLoad { docs: Vec<(u64, Meta)> },
    Update { id: u64, meta: Meta, merge: bool },
    Delete { id: u64 },
    Flush,
    Restart,
    Check { filter: Filter },
    DeleteByFilter { filter: Filter, closure_api: bool },
}

#[derive(Clone, Debug, Serialize, Deserialize)]
pub struct HCase {
    pub cfg: TieredCfg,
    pub ops: Vec<HOp>,
}

pub struct Hist;

fn sig_for_delete_by_filter(model_meta_matches: bool, mirror_stale: bool) -> serde_json::Value {
    json!({"kind": "filtered_delete_wrong_set", "victim_matches_canonical": model_meta_matches, "mirror_metadata_stale": mirror_stale})
}

impl Prop for Hist {
    type Case = HCase;
    fn part(&self) -> &'static str {
        "history"
    }
    fn shape(&self, tier: Tier) -> RawShape {
        RawShape { head_len: 16, chunk_len: 40, min_chunks: 3, max_chunks: tier.pick(30, 60) }
    }
    fn rule(&self) -> String {
        "random histories on a TieredEngine (insert/bulk-load/update/delete/drain/restart) interleaved with filter checks and filtered batch deletes using random trees of depth <= 6; non-trivial = some check/delete whose matching set is neither empty nor everything with a Range/Not in the tree, after at least one overwrite, update or delete; distinct = hash of decoded case".into()
    }
    fn decode(&self, raw: &Raw, _tier: Tier) -> HCase {
        let mut t = Tape::new(&raw.head);
        let mut cfg = TieredCfg::decode(&mut t, &[2], &[1, 3, 64], &[2, 8, 64]);
        cfg.metric = Metric::Euclidean;
        cfg.persist = true;
        cfg.capacity = t.pick(&[1000usize, 10, 14]);
        let pool = 8u64;
        let ops = raw
            .chunks
            .iter()
            .map(|c| {
                let mut t = Tape::new(c);
                match t.weighted(&[8, 3, 6, 3, 1, 1, 8, 4]) {
                    0 => HOp::Insert { id: 1 + t.below(pool as usize) as u64, meta: meta_map(&mut t, 3) },
                    1 => {
                        let n = 1 + t.below(3);
                        HOp::BulkLoad { docs: (0..n).map(|_| (1 + t.below(pool as usize) as u64, meta_map(&mut t, 3))).collect() }
                    }
                    2 => HOp::Update { id: 1 + t.below(pool as usize) as u64, meta: meta_map(&mut t, 3), merge: t.chance(128) },
                    3 => HOp::Delete { id: 1 + t.below(pool as usize) as u64 },
                    4 => HOp::Flush,
                    5 => HOp::Restart,
                    6 => HOp::Check { filter: filter_tree(&mut t, 6) },
                    _ => HOp::DeleteByFilter { filter: filter_tree(&mut t, 4), closure_api: t.chance(64) },
                }
            })
            .collect();
        HCase { cfg, ops }
    }
    fn run(&self, case: &HCase, env: &CaseEnv) -> Result<CaseReport, Failure> {
        let dir = env.dir("data");
        let pool: Vec<u64> = (1..=8).collect();
        let mut te = Tiered::build(&case.cfg, Some(&dir), &pool).map_err(|e| Failure::new("setup_failed", format!("{:#}", e)))?;
        let mut model = Model::new();
        let mut rep = CaseReport::default();
        let mut churn = false;
        for (i, op) in case.ops.iter().enumerate() {
            let ctxs = |m: String| format!("op {} {:?}: {}", i, op_short(op), m);
            match op {
                HOp::Insert { id, meta } => {
                    let existed = model.contains(*id);
                    match te.engine.insert(*id, vec_for(*id), meta_to_hash(meta)) {
                        Ok(()) => {
                            model.put(*id, bits_of(&vec_for(*id)), meta.clone());
                            churn |= existed;
                        }
                        Err(e) => {
                            let msg = format!("{:#}", e);
                            if !(msg.contains("HNSW index full") && model.len() >= case.cfg.capacity) {
                                return Err(Failure::new("valid_insert_rejected", ctxs(msg)));
                            }
                        }
                    }
                }
                HOp::BulkLoad { docs } => {
                    // pool (8) < capacity (>= 10): the index can never be full of live documents,
                    // so every item of a bulk load must be accepted (per-item upsert)
                    let batch: Vec<_> = docs.iter().map(|(id, m)| (*id, vec_for(*id), meta_to_hash(m))).collect();
                    match te.engine.bulk_load_cold_tier(batch) {
                        Ok((loaded, failed, _, _)) => {
                            if failed > 0 || loaded != docs.len() as u64 {
                                return Err(Failure::new("valid_insert_rejected", ctxs(format!("bulk load loaded={} failed={} of {}", loaded, failed, docs.len()))));
                            }
                            for (id, m) in docs {
                                churn |= model.contains(*id);
                                model.put(*id, bits_of(&vec_for(*id)), m.clone());
                            }
                            rep.label("bulk_load");
                        }
                        Err(e) => return Err(Failure::new("valid_insert_rejected", ctxs(format!("{:#}", e)))),
                    }
                }
                HOp::Update { id, meta, merge } => {
                    let expect = model.contains(*id);
                    let got = te.engine.update_metadata(*id, meta_to_hash(meta), *merge).map_err(|e| Failure::new("valid_update_rejected", ctxs(format!("{:#}", e))))?;
                    if got != expect {
                        return Err(Failure::new("update_return", ctxs(format!("returned {} model {}", got, expect))));
                    }
                    model.update_meta(*id, meta, *merge);
                    churn |= got;
                }
                HOp::Delete { id } => {
                    let expect = model.contains(*id);
                    let got = te.engine.delete(*id).map_err(|e| Failure::new("valid_delete_rejected", ctxs(format!("{:#}", e))))?;
                    if got != expect {
                        return Err(Failure::new("delete_return", ctxs(format!("returned {} model {}", got, expect))));
                    }
                    model.delete(*id);
                    churn |= got;
                }
                HOp::Flush => {
                    te.engine.flush_hot_tier(true).map_err(|e| Failure::new("flush_failed", ctxs(format!("{:#}", e))))?;
                }
                HOp::Restart => {
                    drop(te);
                    te = Tiered::recover(&case.cfg, &dir, &pool).map_err(|e| Failure::new("recover_failed", ctxs(format!("{:#}", e))))?;
                    rep.label("restart");
                }
                HOp::Check { filter } => {
                    let docs: Vec<(u64, Meta)> = model.docs.iter().map(|(id, d)| (*id, d.meta.clone())).collect();
                    let (nt, _) = eval_one(te.engine.cold_tier(), &docs, filter).map_err(|mut f| {
                        f.msg = ctxs(f.msg);
                        f
                    })?;
                    if nt && churn {
                        rep.nontrivial = true;
                    }
                }
                HOp::DeleteByFilter { filter, closure_api } => {
                    let want: Vec<u64> = model.docs.iter().filter(|(_, d)| ref_matches(filter, &d.meta)).map(|(id, _)| *id).collect();
                    // mirror staleness (only for classification of a failure)
                    let stale_mirror: Vec<u64> = model
                        .docs
                        .iter()
                        .filter(|(id, d)| te.engine.hot_tier().get_metadata(**id).map_or(false, |hm| crate::common::model::meta_from_hash(&hm) != d.meta))
                        .map(|(id, _)| *id)
                        .collect();
                    let pf = filter_to_proto(filter);
                    let got = if *closure_api {
                        te.engine.batch_delete_by_filter(|m| kyrodb_engine::metadata_filter::matches(&pf, m))
                    } else {
                        te.engine.batch_delete_by_metadata_filter(&pf)
                    }
                    .map_err(|e| Failure::new("valid_delete_rejected", ctxs(format!("{:#}", e))))?;
                    let after = resync(&te, &pool);
                    let mut expect_model = model.clone();
                    for id in &want {
                        expect_model.delete(*id);
                    }
                    let removed: Vec<u64> = model.docs.keys().filter(|id| !after.contains(**id)).copied().collect();
                    if removed != want || got != want.len() as u64 {
                        let wrongly: Vec<u64> = removed.iter().filter(|id| !want.contains(id)).copied().collect();
                        let mirror_stale = wrongly.iter().any(|id| stale_mirror.contains(id));
                        return Err(Failure::new(
                            "filtered_delete_wrong_set",
                            ctxs(format!("filtered delete returned {} and removed {:?}; reference semantics select {:?} (wrongly removed {:?}, stale mirror metadata for {:?})", got, removed, want, wrongly, stale_mirror)),
                        )
                        .with_sig(sig_for_delete_by_filter(wrongly.is_empty(), mirror_stale)));
                    }
                    // nothing else may change
                    for (id, d) in &expect_model.docs {
                        if after.get(*id).map(|x| &x.meta) != Some(&d.meta) {
                            return Err(Failure::new("filtered_delete_side_effect", ctxs(format!("id {} changed by a filtered delete", id))));
                        }
                    }
                    if !want.is_empty() && want.len() < model.len() && filter_has_range_or_not(filter) && churn {
                        rep.nontrivial = true;
                    }
                    if !want.is_empty() {
                        rep.label("filtered_delete_removed_some");
                    }
                    model = expect_model;
                }
            }
        }
        Ok(rep)
    }
}

fn op_short(op: &HOp) -> String {
    match op {
        HOp::Insert { id, .. } => format!("insert({})", id),
        HOp::BulkLoad { docs } => format!("bulk_load({:?})", docs.iter().map(|d| d.0).collect::<Vec<_>>()),
        HOp::Update { id, merge, .. } => format!("update({}, merge={})", id, merge),
        HOp::Delete { id } => format!("delete({})", id),
        HOp::Flush => "flush".into(),
        HOp::Restart => "restart".into(),
        HOp::Check { .. } => "check".into(),
        HOp::DeleteByFilter { closure_api, .. } => format!("delete_by_filter(closure={})", closure_api),
    }
}

/// Re-read the canonical collection (ids of the pool) into a model.
fn resync(te: &Tiered, _pool: &[u64]) -> Model {
    let mut m = Model::new();
    let cold = te.engine.cold_tier();
    for id in cold.scan(|_| true) {
        if let (Some(v), Some(meta)) = (cold.fetch_document(id), cold.fetch_metadata(id)) {
            m.put(id, bits_of(&v), crate::common::model::meta_from_hash(&meta));
        }
    }
    m
}

pub fn main(ctx: &Ctx) {
    ctx.assume("reference filter semantics as written in DESIGN.md §2.2 (numeric iff value and bound both parse with f64::from_str)");
    run_committed_replays(ctx, &Eval);
    run_committed_replays(ctx, &Hist);
    run_exhaustive(ctx);
    run_pbt(ctx, &Hist, ctx.tier.pick(100_000, 2_000_000));
}

pub fn replay(ctx: &Ctx, v: &serde_json::Value) -> Option<i32> {
    replay_file(ctx, &Eval, v).or_else(|| replay_file(ctx, &Hist, v))
}
