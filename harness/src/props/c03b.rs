//! C03 part `storage`: injected storage faults through the syscall shim (see fsshim).
use crate::common::runner::Ctx;

pub fn run(_ctx: &Ctx) {}

pub fn replay(_ctx: &Ctx, _v: &serde_json::Value) -> Option<i32> {
    None
}
