//! C03 part `storage`: injected storage faults through the syscall shim.
//!
//! For a generated history the n-th write / fsync / fdatasync / ftruncate / rename under the
//! data directory fails with a generated errno (ENOSPC, EIO, EDQUOT, EINTR, EACCES or a short
//! write), after a generated partial length, `repeat` times in a row (8 out-lasts the engine's
//! retry loop and also hits its own rollback truncate).
//! Oracle per operation: Err => live state as before the call; Ok => applied.  After every
//! operation during which the fault fired or that returned Err, a copy of the directory is
//! recovered in strict mode and must equal the model (acknowledged operations only).

use crate::common::eng::{copy_dir, diff_dumps, dump_backend, BackendCfg, Dump, Fsync};
use crate::common::gens::DIMS_SMALL;
use crate::common::hist::{decode_bop, model_apply, BOp};
use crate::common::model::{bits_of, meta_to_hash, Model};
use crate::common::runner::*;
use crate::common::shim::{self, Shim};
use crate::common::tape::Tape;
use serde::{Deserialize, Serialize};
use serde_json::json;

#[derive(Clone, Debug, Serialize, Deserialize)]
pub struct FaultSpec {
    /// shim kind mask (one bit)
    pub kind: i32,
    pub nth_sel: u16,
    pub errno: i32,
    /// 0 = nothing written, 1 = one byte, 2 = half, 3 = all but one byte
    pub partial_sel: u8,
    pub repeat: i32,
}

#[derive(Clone, Debug, Serialize, Deserialize)]
pub struct Case {
    pub cfg: BackendCfg,
    pub pool: usize,
    pub ops: Vec<BOp>,
    pub fault: FaultSpec,
}

pub struct Storage;

fn kind_name(k: i32) -> String {
    let mut parts = vec![];
    for (bit, name) in [(shim::F_WRITE, "write"), (shim::F_FSYNC, "fsync"), (shim::F_FDATASYNC, "fdatasync"), (shim::F_FTRUNCATE, "ftruncate"), (shim::F_RENAME, "rename")] {
        if k & bit != 0 {
            parts.push(name);
        }
    }
    parts.join("+")
}

fn count_mask(sh: &Shim, mask: i32) -> i64 {
    [shim::F_WRITE, shim::F_FSYNC, shim::F_FDATASYNC, shim::F_FTRUNCATE, shim::F_RENAME].iter().filter(|b| mask & **b != 0).map(|b| sh.count(*b)).sum()
}

fn op_kind(op: &BOp) -> &'static str {
    match op {
        BOp::Insert { .. } => "insert",
        BOp::Delete { .. } => "delete",
        BOp::BatchDelete { .. } => "batch_delete",
        BOp::UpdateMeta { .. } => "update_metadata",
        BOp::Snapshot => "manual_snapshot",
        BOp::Restart => "restart",
    }
}

/// Execute one op; Ok(true) = acknowledged, Ok(false) = returned an error.
fn exec(b: &kyrodb_engine::HnswBackend, op: &BOp) -> Result<bool, String> {
    Ok(match op {
        BOp::Insert { id, vec, meta } => b.insert(*id, vec.0.clone(), meta_to_hash(meta)).is_ok(),
        BOp::Delete { id } => b.delete(*id).is_ok(),
        BOp::BatchDelete { ids } => b.batch_delete(ids).is_ok(),
        BOp::UpdateMeta { id, meta, merge } => b.update_metadata(*id, meta_to_hash(meta), *merge).is_ok(),
        BOp::Snapshot => b.create_snapshot().is_ok(),
        BOp::Restart => return Err("restart handled by caller".into()),
    })
}

impl Prop for Storage {
    type Case = Case;
    fn part(&self) -> &'static str {
        "storage"
    }
    fn shape(&self, tier: Tier) -> RawShape {
        RawShape { head_len: 20, chunk_len: 20, min_chunks: 3, max_chunks: tier.pick(12, 20) }
    }
    fn max_shrink_iters(&self) -> u32 {
        200
    }
    fn rule(&self) -> String {
        "history x one injected fault (kind x n-th call x errno x partial length x repeat); the n-th-call dimension is sampled uniformly over the calls counted in a fault-free pass; non-trivial = the fault fired and (the failing operation targets an existing id, or a partial length > 0 was written, or the fault fired more than once = inside retry / rollback); distinct = hash of decoded case".into()
    }
    fn decode(&self, raw: &Raw, tier: Tier) -> Case {
        let mut t = Tape::new(&raw.head);
        let mut cfg = BackendCfg::decode(&mut t, &DIMS_SMALL[..3]);
        cfg.fsync = t.pick(&[Fsync::Always, Fsync::Periodic0, Fsync::Never]);
        cfg.rotate_bytes = t.pick(&[300u64, 64, 1 << 20]);
        cfg.snapshot_interval = t.pick(&[3usize, 0, 1]);
        cfg.capacity = 1000;
        let pool = 3 + t.below(4);
        // masks with several bits let one fault sequence hit the failing call AND the engine's own
        // rollback (write/fsync failure followed by a failing truncate of the rollback)
        let syncs = shim::F_FSYNC | shim::F_FDATASYNC;
        let kind = t.pick(&[shim::F_WRITE, shim::F_WRITE, syncs, syncs, shim::F_RENAME, shim::F_WRITE | shim::F_FTRUNCATE, syncs | shim::F_FTRUNCATE, shim::F_WRITE | syncs]);
        // a transient error (EIO/EINTR classification) costs 310 ms of engine back-off per
        // exhausted retry loop: the quick tier prefers the non-retried errnos
        let errnos: &[i32] = match tier {
            Tier::Quick => &[libc::ENOSPC, libc::EDQUOT, libc::EACCES, libc::ENOSPC, libc::EACCES, libc::EIO, libc::EINTR, 0],
            Tier::Thorough => &[libc::ENOSPC, libc::EIO, libc::EDQUOT, libc::EINTR, libc::EACCES, 0],
        };
        let fault = FaultSpec { kind, nth_sel: t.u16(), errno: t.pick(errnos), partial_sel: t.below(4) as u8, repeat: t.pick(&[1, 1, 2, 8]) };
        let ops = raw.chunks.iter().map(|c| decode_bop(c, &cfg, pool, &[10, 3, 2, 3, 1, 1])).collect();
        Case { cfg, pool, ops, fault }
    }

    fn run(&self, case: &Case, env: &CaseEnv) -> Result<CaseReport, Failure> {
        let Some(sh) = Shim::get() else {
            return Err(Failure::new("setup_failed", "syscall shim not loaded".to_string()));
        };
        let cfg = &case.cfg;
        let mut rep = CaseReport::default();
        // ---- pass 1: count the calls of the chosen kind (no fault) ----------------------------
        let d1 = env.dir("count");
        sh.begin(&d1);
        let counted = (|| -> Result<i64, String> {
            let mut b = cfg.create(&d1).map_err(|e| format!("{:#}", e))?;
            let base = count_mask(sh, case.fault.kind);
            for op in &case.ops {
                match op {
                    BOp::Restart => {
                        drop(b);
                        b = cfg.recover(&d1).map_err(|e| format!("{:#}", e))?;
                    }
                    o => {
                        let _ = exec(&b, o);
                    }
                }
            }
            Ok(count_mask(sh, case.fault.kind) - base)
        })();
        sh.end();
        let log1 = sh.take();
        let n_calls = counted.map_err(|e| Failure::new("setup_failed", format!("fault-free pass failed: {}", e)))?;
        if n_calls <= 0 {
            rep.label("no_call_of_that_kind");
            return Ok(rep);
        }
        let nth = 1 + (case.fault.nth_sel as i64 % n_calls);
        // partial length relative to the size of the targeted write (from the fault-free log)
        let mut write_sizes: Vec<usize> = log1.iter().filter_map(|e| if let shim::Eff::Write { data, .. } = e { Some(data.len()) } else { None }).collect();
        write_sizes.sort_unstable();
        let target_len = if case.fault.kind & shim::F_WRITE != 0 { write_sizes.get(write_sizes.len() / 2).copied().unwrap_or(8) } else { 0 };
        let partial = match case.fault.partial_sel {
            0 => 0,
            1 => 1.min(target_len),
            2 => target_len / 2,
            _ => target_len.saturating_sub(1),
        } as i64;

        // ---- pass 2: the same history with the fault armed ---------------------------------------
        let dir = env.dir("data");
        sh.begin(&dir);
        let mut b = match cfg.create(&dir) {
            Ok(b) => b,
            Err(e) => {
                sh.end();
                let _ = sh.take();
                return Err(Failure::new("setup_failed", format!("{:#}", e)));
            }
        };
        sh.arm(case.fault.kind, nth, case.fault.errno, partial, case.fault.repeat);
        let mut model = Model::new();
        let mut probe = 0usize;
        let mut fired_before = 0;
        let fname_s = kind_name(case.fault.kind);
        let fname = fname_s.as_str();
        let ename = shim::errno_name(case.fault.errno);
        let result = (|| -> Result<(), Failure> {
            for (i, op) in case.ops.iter().enumerate() {
                let before: Dump = model.docs.clone();
                let what = format!("op {} {} [fault: {} #{} -> {} after {} bytes, x{}]", i, op.short(), fname, nth, ename, partial, case.fault.repeat);
                let mut restart_failed = false;
                let acked = match op {
                    BOp::Restart => {
                        drop(std::mem::replace(&mut b, cfg.in_memory().map_err(|e| Failure::new("setup_failed", format!("{:#}", e)))?));
                        match cfg.recover(&dir) {
                            Ok(nb) => {
                                b = nb;
                                true
                            }
                            Err(_) => {
                                // start-up hit the injected fault: the NEXT start-up (fault exhausted or not) must work
                                restart_failed = true;
                                let mut last = None;
                                for _ in 0..3 {
                                    match cfg.recover(&dir) {
                                        Ok(nb) => {
                                            last = Some(nb);
                                            break;
                                        }
                                        Err(e) => {
                                            if sh.fired() <= fired_before {
                                                return Err(Failure::new("restart_fails_after_storage_fault", format!("{}: start-up fails although no fault fired: {:#}", what, e)));
                                            }
                                            fired_before = sh.fired();
                                        }
                                    }
                                }
                                match last {
                                    Some(nb) => {
                                        b = nb;
                                        true
                                    }
                                    None => {
                                        sh.disarm();
                                        b = cfg.recover(&dir).map_err(|e| {
                                            Failure::new("restart_fails_after_storage_fault", format!("{}: start-up keeps failing after the fault is gone: {:#}", what, e))
                                                .with_sig(json!({"kind": "restart_fails_after_storage_fault", "fault": fname, "during": "restart"}))
                                        })?;
                                        true
                                    }
                                }
                            }
                        }
                    }
                    o => exec(&b, o).unwrap_or(false),
                };
                let fired_now = sh.fired();
                let fault_in_op = fired_now > fired_before;
                if std::env::var("KVH_DUMP_EFF").is_ok() {
                    eprintln!("--- {} (fired {} -> {})", what, fired_before, fired_now);
                    for e in sh.take() {
                        match e {
                            shim::Eff::Write { path, off, data, faulted } => eprintln!("   write {} off {} len {} faulted {}", path, off, data.len(), faulted),
                            other => eprintln!("   {:?}", other),
                        }
                    }
                }
                if acked && op.is_write() {
                    // stored bits for an insert come from the live engine
                    let bits = if let BOp::Insert { id, .. } = op { b.fetch_document(*id).map(|v| bits_of(&v)) } else { None };
                    if matches!(op, BOp::Insert { .. }) && bits.is_none() {
                        return Err(Failure::new("ack_not_visible", format!("{}: acknowledged insert not visible", what)));
                    }
                    model_apply(&mut model, op, bits);
                }
                let live = dump_backend(&b);
                if let Some(d) = diff_dumps(&model.docs, &live) {
                    let kind = if acked { "acknowledged_write_not_applied" } else { "failed_write_changed_live_state" };
                    return Err(Failure::new(kind, format!("{}: returned {} but live state: {}", what, if acked { "Ok" } else { "Err" }, d))
                        .with_sig(json!({"kind": kind, "fault": fname, "errno": ename, "during": op_kind(op)})));
                }
                if fault_in_op || !acked || restart_failed {
                    rep.count("evaluations_judged", 1);
                    if fault_in_op {
                        rep.label(&format!("fired:{}:{}", fname, ename));
                        let existing = match op {
                            BOp::Insert { id, .. } | BOp::Delete { id } | BOp::UpdateMeta { id, .. } => before.contains_key(id),
                            BOp::BatchDelete { ids } => ids.iter().any(|i| before.contains_key(i)),
                            _ => false,
                        };
                        if existing || partial > 0 || fired_now - fired_before > 1 {
                            rep.nontrivial = true;
                        }
                        if fired_now - fired_before > 1 {
                            rep.label("fault_inside_retry_or_rollback");
                        }
                        if !acked {
                            rep.label("operation_reported_failure");
                        }
                    }
                    // strict recovery of a copy (outside the watched root: not faulted)
                    probe += 1;
                    let copy = env.dir(&format!("probe{}", probe));
                    copy_dir(&dir, &copy).map_err(|e| Failure::new("setup_failed", e.to_string()))?;
                    let r = cfg.recover(&copy);
                    let verdict = match r {
                        Err(e) => Err(Failure::new("restart_fails_after_storage_fault", format!("{}: strict recovery of the directory fails afterwards: {:#}", what, e))
                            .with_sig(json!({"kind": "restart_fails_after_storage_fault", "fault": fname, "errno": ename, "during": op_kind(op), "op_acknowledged": acked}))),
                        Ok(rb) => match diff_dumps(&model.docs, &dump_backend(&rb)) {
                            None => Ok(()),
                            Some(d) => Err(Failure::new(
                                "restart_state_differs_after_storage_fault",
                                format!("{}: call returned {}; after restart {} (model = acknowledged operations only)", what, if acked { "Ok" } else { "Err" }, d),
                            )
                            .with_sig(json!({"kind": "restart_state_differs_after_storage_fault", "fault": fname, "errno": ename, "during": op_kind(op), "op_acknowledged": acked, "truncate_faulted": case.fault.kind & shim::F_FTRUNCATE != 0}))),
                        },
                    };
                    let _ = std::fs::remove_dir_all(&copy);
                    verdict?;
                }
                fired_before = fired_now;
                let _ = before;
            }
            Ok(())
        })();
        sh.disarm();
        sh.end();
        let _ = sh.take();
        drop(b);
        result?;
        if sh.fired() == 0 {
            rep.label("fault_never_fired");
        }
        Ok(rep)
    }
}

pub fn run(ctx: &Ctx) {
    ctx.assume("storage faults are injected at the libc boundary (write/fsync/fdatasync/ftruncate/rename under the data directory); the copy that is recovered after a fault is taken outside the watched root");
    run_committed_replays(ctx, &Storage);
    run_pbt(ctx, &Storage, ctx.tier.pick(12_000, 250_000));
}

pub fn replay(ctx: &Ctx, v: &serde_json::Value) -> Option<i32> {
    replay_file(ctx, &Storage, v)
}
