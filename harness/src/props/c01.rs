//! C01 — acknowledged writes survive a crash at any instant and restart always succeeds.
//!
//! A generated history runs ONCE against a persistent `HnswBackend` under the syscall tracer.
//! Then EVERY prefix of the recorded effect log is a crash point (plus torn prefixes of each
//! write).  For each crash point the explorer materialises the process-kill state and, for the
//! policies that fsync every write, power-loss states (drop everything unsynced + two seeded
//! in-order prefix choices), runs the real strict `recover` on it and compares the dump with
//! the model: state(acknowledged ops) or state(acknowledged ops + the op in flight).
//! One crash state in eight is additionally crashed again at every effect of its own recovery.

use crate::common::crashfs::{materialise, read_files, state_hash, FileSet, FsModel, Loss};
use crate::common::eng::{diff_dumps, dump_backend, BackendCfg, Dump, Fsync};
use crate::common::gens::DIMS_SMALL;
use crate::common::hist::{apply_write, decode_bop, BOp};
use crate::common::model::Model;
use crate::common::runner::*;
use crate::common::shim::{Eff, Shim};
use crate::common::tape::{mix64, Tape};
use serde::{Deserialize, Serialize};
use serde_json::json;
use std::collections::{BTreeSet, HashSet};

#[derive(Clone, Debug, Serialize, Deserialize)]
pub struct Case {
    pub cfg: BackendCfg,
    pub pool: usize,
    pub ops: Vec<BOp>,
    pub loss_seed: u64,
}

pub struct C01;

fn file_class(path: &str) -> &'static str {
    let name = path.rsplit('/').next().unwrap_or(path);
    if name == "MANIFEST" {
        "manifest"
    } else if name == "MANIFEST.tmp" {
        "manifest_tmp"
    } else if name.ends_with(".wal") {
        "wal"
    } else if name.ends_with(".snap") {
        "snapshot"
    } else if name.ends_with(".tmp") {
        "snapshot_tmp"
    } else {
        "dir"
    }
}

fn eff_name(e: &Eff) -> String {
    match e {
        Eff::Open { path, .. } => format!("open:{}", file_class(path)),
        Eff::Write { path, .. } => format!("write:{}", file_class(path)),
        Eff::Fsync { path, is_dir } => format!("fsync:{}", if *is_dir { "dir" } else { file_class(path) }),
        Eff::Rename { to, .. } => format!("rename:{}", file_class(to)),
        Eff::Unlink { path } => format!("unlink:{}", file_class(path)),
        Eff::Truncate { path, .. } => format!("truncate:{}", file_class(path)),
        Eff::Mkdir { .. } => "mkdir".into(),
        Eff::Mark { .. } => "mark".into(),
    }
}

fn op_kind(op: &BOp) -> &'static str {
    match op {
        BOp::Insert { .. } => "insert",
        BOp::Delete { .. } => "delete",
        BOp::BatchDelete { .. } => "batch_delete",
        BOp::UpdateMeta { .. } => "update_metadata",
        BOp::Snapshot => "manual_snapshot",
        BOp::Restart => "restart",
    }
}

struct Explorer<'a> {
    case: &'a Case,
    env: &'a CaseEnv<'a>,
    root: String,
    log: Vec<Eff>,
    /// states[k] = model dump after k operations
    states: Vec<Dump>,
    /// did operation i succeed in the traced run
    ok: Vec<bool>,
    rep: CaseReport,
    work: std::path::PathBuf,
    seen: HashSet<(u64, usize, bool)>,
    nested_counter: u64,
}

impl<'a> Explorer<'a> {
    fn recover_dump(&self, dir: &std::path::Path) -> Result<Dump, String> {
        match self.case.cfg.recover(dir) {
            Ok(b) => Ok(dump_backend(&b)),
            Err(e) => Err(format!("{:#}", e)),
        }
    }

    /// Judge one crash state.  `acked` operations are acknowledged, `inflight` is the index of
    /// the operation between its begin and end markers (if any).
    #[allow(clippy::too_many_arguments)]
    fn judge(&mut self, files: &FileSet, acked: usize, inflight: Option<usize>, cut: usize, torn: Option<usize>, loss: &Loss, inside: &str) -> Result<(), Failure> {
        let key = (state_hash(files), acked, inflight.is_some());
        if !self.seen.insert(key) {
            self.rep.count("crash_states_deduplicated", 1);
            return Ok(());
        }
        materialise(files, &self.work).map_err(|e| Failure::new("setup_failed", e.to_string()))?;
        self.rep.count("evaluations_judged", 1);
        let loss_name = match loss {
            Loss::Kill => "process_kill",
            _ => "power_loss",
        };
        let during = inflight.map(|i| op_kind(&self.case.ops[i])).unwrap_or("idle");
        let after_effect = if cut == 0 { "start".to_string() } else { eff_name(&self.log[cut - 1]) };
        let next_effect = self.log.get(cut).map(eff_name).unwrap_or_else(|| "end".into());
        let describe = |s: &Explorer| {
            format!(
                "crash after effect #{} ({}), before {} {}; {} acknowledged ops, in flight: {}; failure model {}; policy {:?}",
                cut,
                after_effect,
                next_effect,
                torn.map(|n| format!("(torn after {} bytes)", n)).unwrap_or_default(),
                acked,
                inflight.map(|i| format!("op {} {}", i, s.case.ops[i].short())).unwrap_or_else(|| "none".into()),
                loss_name,
                s.case.cfg.fsync
            )
        };
        let got = match self.recover_dump(&self.work.clone()) {
            Ok(d) => d,
            Err(e) => {
                let sig = json!({"kind": "crash_recovery_refused", "during": during, "inside": inside, "after_effect": after_effect, "loss": loss_name});
                if self.env.ctx.is_known(&sig) {
                    self.rep.known_sigs.push(sig);
                    return Ok(());
                }
                return Err(Failure::new("crash_recovery_refused", format!("strict start-up fails: {}: {}", describe(self), e))
                    .with_sig(sig)
                    .with_detail(json!({"files": files.iter().map(|(n, c)| (n.clone(), c.len())).collect::<Vec<_>>()})));
            }
        };
        let mut acceptable: Vec<&Dump> = vec![&self.states[acked]];
        if let Some(i) = inflight {
            if self.ok[i] {
                acceptable.push(&self.states[i + 1]);
            }
        }
        if !acceptable.iter().any(|a| diff_dumps(a, &got).is_none()) {
            let d0 = diff_dumps(acceptable[0], &got).unwrap_or_default();
            let d1 = acceptable.get(1).and_then(|a| diff_dumps(a, &got)).unwrap_or_default();
            // is it exactly "some of the in-flight batch delete's ids removed, nothing else"?
            let partial_batch = match inflight.map(|i| &self.case.ops[i]) {
                Some(BOp::BatchDelete { ids }) => {
                    let base = &self.states[acked];
                    got.iter().all(|(k, v)| base.get(k) == Some(v)) && base.keys().all(|k| got.contains_key(k) || ids.contains(k))
                }
                _ => false,
            };
            let sig = json!({"kind": "crash_recovery_wrong_state", "during": during, "inside": inside, "after_effect": after_effect, "loss": loss_name, "partial_batch_applied": partial_batch});
            if self.env.ctx.is_known(&sig) {
                self.rep.known_sigs.push(sig);
                return Ok(());
            }
            return Err(Failure::new(
                "crash_recovery_wrong_state",
                format!("recovered collection is neither 'acknowledged ops' ({}) nor 'acknowledged + in-flight' ({}): {}", d0, d1, describe(self)),
            )
            .with_sig(sig));
        }
        // nested crash inside this recovery (one state in eight, seeded)
        self.nested_counter += 1;
        if mix64(self.case.loss_seed, self.nested_counter) % 8 == 0 {
            self.nested(files, &got, cut, during)?;
        }
        Ok(())
    }

    /// Crash the recovery of `base` at each of its own effects; the next start-up must give the same dump.
    fn nested(&mut self, base: &FileSet, first: &Dump, cut: usize, during: &str) -> Result<(), Failure> {
        let shim = Shim::get().unwrap();
        let d2 = self.env.dir("nested_trace");
        materialise(base, &d2).map_err(|e| Failure::new("setup_failed", e.to_string()))?;
        shim.begin(&d2);
        let r = self.case.cfg.recover(&d2);
        drop(r);
        shim.end();
        let log2 = shim.take();
        let root2 = d2.to_string_lossy().to_string();
        let d3 = self.env.dir("nested_state");
        let power = matches!(self.case.cfg.fsync, Fsync::Always | Fsync::Periodic0);
        for c2 in 0..=log2.len() {
            let mut m = FsModel::from_files(base);
            for e in &log2[..c2] {
                m.apply(&root2, e, None);
            }
            let mut variants = vec![Loss::Kill];
            if power && m.has_unsynced() {
                variants.push(Loss::DropAll);
            }
            for loss in variants {
                let st = m.crash_state(&loss);
                materialise(&st, &d3).map_err(|e| Failure::new("setup_failed", e.to_string()))?;
                self.rep.count("evaluations_judged", 1);
                self.rep.count("nested_crash_states", 1);
                let after2 = if c2 == 0 { "start".to_string() } else { eff_name(&log2[c2 - 1]) };
                match self.recover_dump(&d3) {
                    Err(e) => {
                        let sig = json!({"kind": "crash_in_recovery_breaks_next_startup", "after_effect": after2, "outcome": "refused"});
                        if self.env.ctx.is_known(&sig) {
                            self.rep.known_sigs.push(sig);
                            continue;
                        }
                        return Err(Failure::new(
                            "crash_in_recovery_breaks_next_startup",
                            format!("a crash during start-up (after recovery effect #{} {}, {:?}) makes the NEXT start-up fail: {} (outer crash after effect #{}, during {})", c2, after2, loss, e, cut, during),
                        )
                        .with_sig(sig));
                    }
                    Ok(d) => {
                        if let Some(diff) = diff_dumps(first, &d) {
                            let sig = json!({"kind": "crash_in_recovery_breaks_next_startup", "after_effect": after2, "outcome": "different_state"});
                            if self.env.ctx.is_known(&sig) {
                                self.rep.known_sigs.push(sig);
                                continue;
                            }
                            return Err(Failure::new(
                                "crash_in_recovery_breaks_next_startup",
                                format!("a crash during start-up (after recovery effect #{} {}, {:?}) changes the outcome of the next start-up: {}", c2, after2, loss, diff),
                            )
                            .with_sig(sig));
                        }
                    }
                }
            }
        }
        self.rep.nontrivial = true;
        Ok(())
    }
}

impl Prop for C01 {
    type Case = Case;
    fn part(&self) -> &'static str {
        "crash"
    }
    fn shape(&self, tier: Tier) -> RawShape {
        RawShape { head_len: 16, chunk_len: 20, min_chunks: 4, max_chunks: tier.pick(14, 26) }
    }
    fn max_shrink_iters(&self) -> u32 {
        120
    }
    fn rule(&self) -> String {
        "one generated history per case, traced once; EVERY effect-log prefix (and torn prefixes 1 / half / len-1 of every write) is a crash point, each under process kill and (fsync-every-write policies) 3 power-loss choices, 1 state in 8 re-crashed at every effect of its own recovery; evaluations = distinct crash states recovered; non-trivial = the history has a crash point strictly inside a snapshot, rotation, WAL compaction or recovery, or a torn frame; distinct = hash of decoded case".into()
    }
    fn decode(&self, raw: &Raw, _tier: Tier) -> Case {
        let mut t = Tape::new(&raw.head);
        let mut cfg = BackendCfg::decode(&mut t, &DIMS_SMALL[..4]);
        cfg.fsync = t.pick(&[Fsync::Always, Fsync::Periodic0, Fsync::Never, Fsync::PeriodicHour]);
        cfg.rotate_bytes = t.pick(&[300u64, 64, 1 << 20]);
        cfg.snapshot_interval = t.pick(&[3usize, 0, 1, 7]);
        cfg.capacity = t.pick(&[1000usize, 8]);
        let pool = 3 + t.below(4);
        let loss_seed = t.u64();
        let ops = raw.chunks.iter().map(|c| decode_bop(c, &cfg, pool, &[10, 3, 3, 3, 2, 2])).collect();
        Case { cfg, pool, ops, loss_seed }
    }

    fn run(&self, case: &Case, env: &CaseEnv) -> Result<CaseReport, Failure> {
        let Some(shim) = Shim::get() else {
            return Err(Failure::new("setup_failed", "syscall shim not loaded".to_string()));
        };
        let cfg = &case.cfg;
        let dir = env.dir("data");
        let root = dir.to_string_lossy().to_string();
        // ---- traced run --------------------------------------------------------------------
        shim.begin(&dir);
        let created = cfg.create(&dir);
        let mut b: Option<kyrodb_engine::HnswBackend> = match created {
            Ok(b) => Some(b),
            Err(e) => {
                shim.end();
                let _ = shim.take();
                return Err(Failure::new("setup_failed", format!("create: {:#}", e)));
            }
        };
        shim.mark(-1, 1);
        let mut model = Model::new();
        let mut ever = BTreeSet::new();
        let mut states: Vec<Dump> = vec![Dump::new()];
        let mut ok: Vec<bool> = vec![];
        let mut run_err: Option<Failure> = None;
        for (i, op) in case.ops.iter().enumerate() {
            shim.mark(i as i64, 0);
            let good = match op {
                BOp::Snapshot => b.as_ref().unwrap().create_snapshot().is_ok(),
                BOp::Restart => {
                    b = None;
                    match cfg.recover(&dir) {
                        Ok(nb) => {
                            b = Some(nb);
                            true
                        }
                        Err(e) => {
                            run_err = Some(Failure::new("setup_failed", format!("op {} clean restart failed: {:#}", i, e)));
                            break;
                        }
                    }
                }
                w => match apply_write(b.as_ref().unwrap(), &mut model, w, cfg, &mut ever) {
                    Ok(info) => !info.index_full_err,
                    Err(f) => {
                        run_err = Some(Failure::new("setup_failed", format!("op {}: {}", i, f.msg)));
                        break;
                    }
                },
            };
            shim.mark(i as i64, if good { 1 } else { 2 });
            ok.push(good);
            states.push(model.docs.clone());
            // periodic policy: what the server's flush task does once per interval.  After a
            // completed sync_wal() every acknowledged operation is "older than one flush
            // interval" in the property's sense and must survive power loss.
            if cfg.fsync == Fsync::PeriodicHour && mix64(case.loss_seed ^ 0x51c, i as u64) % 2 == 0 {
                if let Some(be) = b.as_ref() {
                    if be.sync_wal().is_ok() {
                        shim.mark(i as i64, 3);
                    }
                }
            }
        }
        shim.end();
        let log = shim.take();
        drop(b);
        if let Some(f) = run_err {
            return Err(f);
        }
        // ---- crash exploration -----------------------------------------------------------------
        let mut ex = Explorer {
            case,
            env,
            root: root.clone(),
            log,
            states,
            ok,
            rep: CaseReport::default(),
            work: env.dir("crash_state"),
            seen: HashSet::new(),
            nested_counter: 0,
        };
        let power = matches!(cfg.fsync, Fsync::Always | Fsync::Periodic0);
        let n = ex.log.len();
        let start = ex.log.iter().position(|e| matches!(e, Eff::Mark { a: -1, b: 1 })).map(|p| p + 1).unwrap_or(0);
        let mut fs = FsModel::default();
        for e in &ex.log[..start] {
            fs.apply(&root, e, None);
        }
        let mut acked = 0usize;
        let mut inflight: Option<usize> = None;
        let mut just_synced = false;
        // structure of the current operation for the "inside" classification
        let mut inside_tags: Vec<&'static str> = vec![];
        for cut in start..=n {
            // state after effects [0, cut)
            let inside = if inflight.is_none() {
                "idle".to_string()
            } else {
                // what multi-effect activity is under way: look at effects since the op began
                let mut tags = inside_tags.clone();
                tags.dedup();
                if tags.is_empty() {
                    "wal_append".to_string()
                } else {
                    tags.join("+")
                }
            };
            if inside != "idle" && inside != "wal_append" {
                ex.rep.nontrivial = true;
                ex.rep.label(&format!("inside:{}", inside));
            }
            let mut variants = vec![Loss::Kill];
            if (power || just_synced) && fs.has_unsynced() {
                variants.push(Loss::DropAll);
                variants.push(Loss::Seeded(mix64(case.loss_seed, cut as u64)));
                variants.push(Loss::Seeded(mix64(case.loss_seed ^ 0x5bd1, cut as u64)));
            }
            if just_synced {
                ex.rep.label("power_loss_right_after_sync_wal");
                ex.rep.nontrivial = true;
            }
            just_synced = false;
            for loss in &variants {
                let st = fs.crash_state(loss);
                ex.judge(&st, acked, inflight, cut, None, loss, &inside)?;
            }
            if cut == n {
                break;
            }
            // torn prefixes of the next write
            if let Eff::Write { data, .. } = &ex.log[cut] {
                if data.len() > 1 {
                    let mut cuts = vec![1usize, data.len() / 2, data.len() - 1];
                    cuts.dedup();
                    for tn in cuts {
                        let mut f2 = fs.clone();
                        let e = ex.log[cut].clone();
                        f2.apply(&root, &e, Some(tn));
                        let st = f2.crash_state(&Loss::Kill);
                        ex.rep.nontrivial = true;
                        ex.rep.label("torn_write");
                        ex.judge(&st, acked, inflight, cut, Some(tn), &Loss::Kill, &inside)?;
                    }
                }
            }
            // advance
            let e = ex.log[cut].clone();
            match &e {
                Eff::Mark { a, b } if *a >= 0 && *b == 3 => {
                    // sync_wal() completed while idle: the state right after this mark is judged
                    // under power loss although the policy does not fsync every write
                    just_synced = true;
                }
                Eff::Mark { a, b } if *a >= 0 => {
                    if *b == 0 {
                        inflight = Some(*a as usize);
                        inside_tags.clear();
                        if matches!(case.ops[*a as usize], BOp::Restart) {
                            inside_tags.push("recovery");
                        }
                        if matches!(case.ops[*a as usize], BOp::Snapshot) {
                            inside_tags.push("snapshot");
                        }
                    } else {
                        inflight = None;
                        acked = *a as usize + 1;
                        inside_tags.clear();
                    }
                }
                Eff::Open { path, .. } => {
                    let fc = file_class(path);
                    if fc == "snapshot_tmp" && !inside_tags.contains(&"snapshot") {
                        inside_tags.push("snapshot");
                    }
                    if fc == "wal" && inflight.map_or(false, |i| !matches!(case.ops[i], BOp::Restart)) && !inside_tags.contains(&"rotation") {
                        inside_tags.push("rotation");
                    }
                }
                Eff::Unlink { path } => {
                    if file_class(path) == "wal" && !inside_tags.contains(&"wal_compaction") {
                        inside_tags.push("wal_compaction");
                    }
                }
                _ => {}
            }
            fs.apply(&root, &e, None);
        }
        let _ = &ex.root;
        ex.rep.count("effects", n as u64);
        ex.rep.label(&format!("policy={:?}", cfg.fsync));
        Ok(ex.rep)
    }
}

pub fn main(ctx: &Ctx) {
    ctx.assume("power-loss model exactly as written in the property: per file an in-order prefix of the data operations since its last fsync, per directory an in-order prefix of the entry operations since the last directory fsync; fsync of a file does not persist its directory entry");
    ctx.assume("power loss is judged at every crash point for the policies that fsync every write (Always, Periodic(0)); for Periodic(1 h) it is judged at the instants right after a completed HnswBackend::sync_wal() (what the server's flush task calls once per interval; generated after about half of the operations), where every acknowledged operation is older than a flush interval in the property's sense; Never is judged under process kill only");
    ctx.assume("crash points before the initial creation of the database has completed are not explored");
    run_committed_replays(ctx, &C01);
    run_pbt(ctx, &C01, ctx.tier.pick(3_000, 40_000));
    // process kill of the real server binary at generated instants (needs no syscall shim)
    run_committed_replays(ctx, &super::c01srv::C01Srv);
    run_pbt(ctx, &super::c01srv::C01Srv, ctx.tier.pick(400, 8_000));
}

pub fn replay(ctx: &Ctx, v: &serde_json::Value) -> Option<i32> {
    replay_file(ctx, &C01, v).or_else(|| replay_file(ctx, &super::c01srv::C01Srv, v))
}

#[allow(dead_code)]
fn unused(_: &FileSet) {
    let _ = read_files;
}
