//! C18 — unsafe durability and exposure settings are refused outside benchmark mode.
//!
//! The complete cross product of the safety-relevant discrete settings is enumerated and
//! delivered to the real `KyroDbConfig::load` three ways: all-TOML, all-YAML, and a seeded mix
//! in which every setting independently arrives by file, by `KYRODB__…` environment override,
//! or by default (when it equals the default).  Oracle (one-directional, as the property is):
//! if `load` returns Ok and the intended environment is production or pilot, every stated
//! safety condition holds for the intended values.

use crate::common::runner::*;
use crate::common::tape::Mix;
use kyrodb_engine::KyroDbConfig;
use serde::{Deserialize, Serialize};
use serde_json::json;
use std::sync::atomic::{AtomicUsize, Ordering};

const ENVS: &[&str] = &["production", "pilot", "benchmark", " Pilot", "PRODUCTION\n", "Benchmark "];
const FSYNC: &[&str] = &["none", "data_only", "full"];
const SNAP: &[u64] = &[0, 100];
const RECOVERY: &[&str] = &["strict", "best_effort"];
const STRATEGY: &[&str] = &["lru", "learned", "abtest"];
const OBS: &[&str] = &["disabled", "metrics_and_slo", "all"];
const HOSTS: &[&str] = &["127.0.0.1", "localhost", "::1", "127.9.9.9", "0.0.0.0", "10.1.2.3", "[::]"];

#[derive(Clone, Debug, PartialEq, Eq, Serialize, Deserialize)]
pub struct Row {
    pub env: String,
    pub fsync: String,
    pub snapshot_interval: u64,
    pub recovery: String,
    pub strategy: String,
    pub auth: bool,
    pub rate_limit: bool,
    pub obs_auth: String,
    pub fresh_start: bool,
    pub tls: bool,
    pub host: String,
}

#[derive(Clone, Copy, Debug, PartialEq, Eq, Serialize, Deserialize)]
pub enum Channel {
    Toml,
    Yaml,
    /// per-setting choice file / env / default, seeded
    Mix(u64),
}

#[derive(Clone, Debug, Serialize, Deserialize)]
pub struct Case {
    pub row: Row,
    pub channel: Channel,
}

pub const GRID: usize = 6 * 3 * 2 * 2 * 3 * 2 * 2 * 3 * 2 * 2 * 7;

pub fn row_at(mut i: usize) -> Row {
    let mut take = |n: usize| {
        let r = i % n;
        i /= n;
        r
    };
    Row {
        host: HOSTS[take(7)].to_string(),
        tls: take(2) == 1,
        fresh_start: take(2) == 1,
        obs_auth: OBS[take(3)].to_string(),
        rate_limit: take(2) == 1,
        auth: take(2) == 1,
        strategy: STRATEGY[take(3)].to_string(),
        recovery: RECOVERY[take(2)].to_string(),
        snapshot_interval: SNAP[take(2)],
        fsync: FSYNC[take(3)].to_string(),
        env: ENVS[take(6)].to_string(),
    }
}

fn is_loopback(host: &str) -> bool {
    let h = host.trim().trim_start_matches('[').trim_end_matches(']').to_ascii_lowercase();
    h == "::1" || h == "localhost" || h.starts_with("127.")
}

/// Safety conditions of the property that the row violates (by name).
pub fn violated(row: &Row) -> Vec<&'static str> {
    let env = row.env.trim().to_ascii_lowercase();
    let mut v = vec![];
    if env == "benchmark" {
        return v;
    }
    if row.fsync == "none" {
        v.push("fsync_disabled");
    }
    if row.snapshot_interval == 0 {
        v.push("snapshots_disabled");
    }
    if row.recovery != "strict" {
        v.push("recovery_not_strict");
    }
    if row.strategy != "learned" {
        v.push("strategy_not_learned");
    }
    if env == "pilot" {
        if !row.auth {
            v.push("pilot_without_auth");
        }
        if !row.rate_limit {
            v.push("pilot_without_rate_limit");
        }
        if row.obs_auth == "disabled" {
            v.push("pilot_unprotected_observability");
        }
        if row.fresh_start {
            v.push("pilot_fresh_start_allowed");
        }
        if !(row.tls || is_loopback(&row.host)) {
            v.push("pilot_plaintext_non_loopback");
        }
    }
    if env == "production" && !is_loopback(&row.host) && !row.auth {
        v.push("production_non_loopback_without_auth");
    }
    v
}

fn toml_str(s: &str) -> String {
    format!("\"{}\"", s.replace('\\', "\\\\").replace('"', "\\\"").replace('\n', "\\n"))
}

struct Setting {
    section: &'static str,
    key: &'static str,
    value: String, // TOML/YAML literal
    env_value: String,
    is_default: bool,
}

fn settings(row: &Row, filler: u64) -> Vec<Setting> {
    let b = |x: bool| if x { "true" } else { "false" }.to_string();
    let mut v = vec![
        Setting { section: "environment", key: "type", value: toml_str(&row.env), env_value: row.env.clone(), is_default: row.env == "production" },
        Setting { section: "persistence", key: "fsync_policy", value: toml_str(&row.fsync), env_value: row.fsync.clone(), is_default: row.fsync == "data_only" },
        // one row in five names the setting by its legacy key (a serde alias of the same field)
        Setting { section: "persistence", key: if filler % 5 == 0 { "snapshot_interval_inserts" } else { "snapshot_interval_mutations" }, value: row.snapshot_interval.to_string(), env_value: row.snapshot_interval.to_string(), is_default: false },
        Setting { section: "persistence", key: "recovery_mode", value: toml_str(&row.recovery), env_value: row.recovery.clone(), is_default: row.recovery == "strict" },
        Setting { section: "persistence", key: "allow_fresh_start_on_recovery_failure", value: b(row.fresh_start), env_value: b(row.fresh_start), is_default: !row.fresh_start },
        Setting { section: "cache", key: "strategy", value: toml_str(&row.strategy), env_value: row.strategy.clone(), is_default: false },
        Setting { section: "auth", key: "enabled", value: b(row.auth), env_value: b(row.auth), is_default: !row.auth },
        Setting { section: "rate_limit", key: "enabled", value: b(row.rate_limit), env_value: b(row.rate_limit), is_default: !row.rate_limit },
        Setting { section: "server", key: "host", value: toml_str(&row.host), env_value: row.host.clone(), is_default: row.host == "127.0.0.1" },
        Setting { section: "server", key: "observability_auth", value: toml_str(&row.obs_auth), env_value: row.obs_auth.clone(), is_default: row.obs_auth == "disabled" },
        Setting { section: "server.tls", key: "enabled", value: b(row.tls), env_value: b(row.tls), is_default: !row.tls },
    ];
    if row.auth {
        v.push(Setting { section: "auth", key: "api_keys_file", value: toml_str("/nonexistent/keys.yaml"), env_value: "/nonexistent/keys.yaml".into(), is_default: false });
    }
    if row.tls {
        v.push(Setting { section: "server.tls", key: "cert_path", value: toml_str("/nonexistent/cert.pem"), env_value: "/nonexistent/cert.pem".into(), is_default: false });
        v.push(Setting { section: "server.tls", key: "key_path", value: toml_str("/nonexistent/key.pem"), env_value: "/nonexistent/key.pem".into(), is_default: false });
    }
    // remaining settings: valid filler values drawn from the row seed
    let mut m = Mix(filler);
    let port = 20000 + m.below(20000);
    v.push(Setting { section: "server", key: "port", value: port.to_string(), env_value: port.to_string(), is_default: false });
    let cap = 1000 + m.below(5000);
    v.push(Setting { section: "cache", key: "capacity", value: cap.to_string(), env_value: cap.to_string(), is_default: false });
    v.push(Setting { section: "hnsw", key: "dimension", value: (4 + m.below(60)).to_string(), env_value: "16".into(), is_default: false });
    // "whatever the remaining settings are": a separate bind host for the HTTP observability
    // listener (unset / loopback / routable) must not influence the rules about the gRPC bind
    match m.below(3) {
        0 => {}
        1 => v.push(Setting { section: "server", key: "http_host", value: toml_str("127.0.0.1"), env_value: "127.0.0.1".into(), is_default: false }),
        _ => v.push(Setting { section: "server", key: "http_host", value: toml_str("0.0.0.0"), env_value: "0.0.0.0".into(), is_default: false }),
    }
    v
}

fn render(sets: &[&Setting], yaml: bool) -> String {
    let sections = ["environment", "persistence", "cache", "auth", "rate_limit", "hnsw", "server", "server.tls"];
    let mut out = String::new();
    if !yaml {
        for sec in sections {
            let items: Vec<&&Setting> = sets.iter().filter(|s| s.section == sec).collect();
            if items.is_empty() {
                continue;
            }
            out.push_str(&format!("[{}]\n", sec));
            for s in items {
                out.push_str(&format!("{} = {}\n", s.key, s.value));
            }
        }
    } else {
        for sec in ["environment", "persistence", "cache", "auth", "rate_limit", "hnsw", "server"] {
            let items: Vec<&&Setting> = sets.iter().filter(|s| s.section == sec).collect();
            let tls: Vec<&&Setting> = if sec == "server" { sets.iter().filter(|s| s.section == "server.tls").collect() } else { vec![] };
            if items.is_empty() && tls.is_empty() {
                continue;
            }
            out.push_str(&format!("{}:\n", sec));
            for s in items {
                out.push_str(&format!("  {}: {}\n", s.key, s.value));
            }
            if !tls.is_empty() {
                out.push_str("  tls:\n");
                for s in tls {
                    out.push_str(&format!("    {}: {}\n", s.key, s.value));
                }
            }
        }
    }
    out
}

fn env_name(s: &Setting) -> String {
    format!("KYRODB__{}__{}", s.section.replace('.', "__").to_ascii_uppercase(), s.key.to_ascii_uppercase())
}

/// Evaluate one row through one channel.  Returns (accepted, violated conditions).
pub fn eval(case: &Case, scratch: &std::path::Path, tag: usize) -> Result<(bool, Vec<&'static str>), Failure> {
    let row = &case.row;
    let filler = crate::common::tape::fnv64(serde_json::to_string(row).unwrap().as_bytes());
    let sets = settings(row, filler);
    let mut env_sets: Vec<(String, String)> = vec![];
    let (path, text) = match case.channel {
        Channel::Toml => (scratch.join(format!("cfg{}.toml", tag)), render(&sets.iter().collect::<Vec<_>>(), false)),
        Channel::Yaml => (scratch.join(format!("cfg{}.yaml", tag)), render(&sets.iter().collect::<Vec<_>>(), true)),
        Channel::Mix(seed) => {
            let mut m = Mix(seed ^ filler);
            let mut in_file: Vec<&Setting> = vec![];
            for s in &sets {
                match m.below(3) {
                    0 => in_file.push(s),
                    1 => env_sets.push((env_name(s), s.env_value.clone())),
                    _ => {
                        if !s.is_default {
                            in_file.push(s)
                        }
                    }
                }
            }
            let yaml = m.below(2) == 0;
            (scratch.join(format!("cfg{}.{}", tag, if yaml { "yaml" } else { "toml" })), render(&in_file, yaml))
        }
    };
    std::fs::write(&path, text.as_bytes()).map_err(|e| Failure::new("setup_failed", e.to_string()))?;
    for (k, v) in &env_sets {
        std::env::set_var(k, v);
    }
    let res = KyroDbConfig::load(Some(path.to_str().unwrap()));
    for (k, _) in &env_sets {
        std::env::remove_var(k);
    }
    let _ = std::fs::remove_file(&path);
    let bad = violated(row);
    match res {
        Ok(cfg) => {
            // the loader must have seen the intended values (else the harness, not the engine, is at fault)
            if cfg.environment.environment_type != row.env || cfg.server.host != row.host || cfg.auth.enabled != row.auth {
                return Err(Failure::new("setup_failed", format!("loader saw different values than intended for {:?} via {:?}: env={:?} host={:?} auth={}", row, case.channel, cfg.environment.environment_type, cfg.server.host, cfg.auth.enabled)));
            }
            if !bad.is_empty() {
                return Err(Failure::new(
                    "unsafe_configuration_accepted",
                    format!("configuration accepted although it violates {:?}: {:?} delivered via {:?}\n{}", bad, row, case.channel, text),
                )
                .with_sig(json!({"kind": "unsafe_configuration_accepted", "conditions": bad})));
            }
            Ok((true, bad))
        }
        Err(_) => Ok((false, bad)),
    }
}

pub struct C18;

impl Prop for C18 {
    type Case = Case;
    fn part(&self) -> &'static str {
        "grid"
    }
    fn shape(&self, _t: Tier) -> RawShape {
        RawShape { head_len: 1, chunk_len: 1, min_chunks: 0, max_chunks: 0 }
    }
    fn rule(&self) -> String {
        format!("complete cross product of 11 safety-relevant settings ({} rows) x delivery channel; non-trivial = an accepted non-benchmark row, or a rejected row that violates exactly one stated condition; all (row, channel) pairs distinct by construction", GRID)
    }
    fn decode(&self, _raw: &Raw, _t: Tier) -> Case {
        Case { row: row_at(0), channel: Channel::Toml }
    }
    fn run(&self, case: &Case, env: &CaseEnv) -> Result<CaseReport, Failure> {
        let d = env.dir("cfg");
        let (accepted, bad) = eval(case, &d, 0)?;
        Ok(CaseReport { nontrivial: accepted || bad.len() == 1, ..Default::default() })
    }
}

fn run_channel(ctx: &Ctx, name: &str, rows: Vec<usize>, channel_of: impl Fn(usize) -> Channel + Sync, threads: usize, exhaustive: bool) {
    let env = ctx.env(true);
    let next = AtomicUsize::new(0);
    let stats = std::sync::Mutex::new(PartStats { part: name.to_string(), rule: C18.rule(), exhaustive, ..Default::default() });
    let stop = std::sync::atomic::AtomicBool::new(false);
    std::thread::scope(|s| {
        for tix in 0..threads {
            let (next, stats, rows, env, stop, channel_of) = (&next, &stats, &rows, &env, &stop, &channel_of);
            s.spawn(move || {
                let scratch = env.dir(&format!("t{}", tix));
                let mut st = PartStats::default();
                loop {
                    let start = next.fetch_add(64, Ordering::Relaxed);
                    if start >= rows.len() || stop.load(Ordering::Relaxed) {
                        break;
                    }
                    for k in start..(start + 64).min(rows.len()) {
                        let case = Case { row: row_at(rows[k]), channel: channel_of(rows[k]) };
                        st.evaluations += 1;
                        match eval(&case, &scratch, tix) {
                            Ok((accepted, bad)) => {
                                let envn = case.row.env.trim().to_ascii_lowercase();
                                if accepted && envn != "benchmark" {
                                    st.nontrivial.insert(rows[k] as u64);
                                    *st.labels.entry(format!("accepted_{}", envn)).or_default() += 1;
                                    if st.samples.is_empty() {
                                        st.samples.push(format!("accepted: {:?} via {:?}", case.row, case.channel));
                                    }
                                } else if !accepted && bad.len() == 1 {
                                    st.nontrivial.insert(rows[k] as u64);
                                    *st.labels.entry(format!("rejected_only_{}", bad[0])).or_default() += 1;
                                } else if accepted {
                                    *st.labels.entry("accepted_benchmark".into()).or_default() += 1;
                                } else if bad.is_empty() {
                                    *st.labels.entry("rejected_for_other_reasons".into()).or_default() += 1;
                                }
                            }
                            Err(f) => {
                                if let Some(id) = ctx.known_id(&f.sig) {
                                    *st.known_hits.entry(id).or_default() += 1;
                                } else if !stop.swap(true, Ordering::Relaxed) {
                                    ctx.report_violation("grid", &case, &f);
                                }
                            }
                        }
                    }
                }
                stats.lock().unwrap().merge(st);
            });
        }
    });
    let mut st = stats.into_inner().unwrap();
    st.exhaustive = exhaustive && !stop.load(Ordering::Relaxed);
    ctx.add_part(st);
    let _ = std::fs::remove_dir_all(env.scratch_root());
}


// ------------------------------------------------------------------------------------------
// server part: "the server refuses to start on a rejected configuration"
// ------------------------------------------------------------------------------------------

#[derive(Clone, Debug, Serialize, Deserialize)]
pub struct SCase {
    pub row: Row,
    /// settings delivered through KYRODB__ environment variables of the child instead of the file
    pub via_env: Vec<String>,
}

pub struct Srv;

impl Prop for Srv {
    type Case = SCase;
    fn part(&self) -> &'static str {
        "server"
    }
    fn shape(&self, _t: Tier) -> RawShape {
        RawShape { head_len: 1, chunk_len: 1, min_chunks: 0, max_chunks: 0 }
    }
    fn max_shrink_iters(&self) -> u32 {
        0
    }
    fn rule(&self) -> String {
        "seeded sample of grid rows that violate exactly one stated condition (every condition represented) plus accepted benchmark rows, each started through the real kyrodb_server binary (TOML file, a seeded subset of the settings through the child's KYRODB__ environment); a rejected row must make the process exit non-zero without opening its port, an accepted row must open it; non-trivial = rejected rows; distinct = (row, env subset)".into()
    }
    fn decode(&self, _raw: &Raw, _t: Tier) -> SCase {
        SCase { row: row_at(0), via_env: vec![] }
    }
    fn run(&self, case: &SCase, env: &CaseEnv) -> Result<CaseReport, Failure> {
        use std::time::{Duration, Instant};
        let shard = super::c10::SHARD.with(|s| *s);
        let port = crate::common::srv::port_for(shard);
        let root = env.dir("srv");
        let row = &case.row;
        let filler = crate::common::tape::fnv64(serde_json::to_string(row).unwrap().as_bytes());
        let mut sets: Vec<Setting> = settings(row, filler).into_iter().filter(|s| !(s.section == "server" && s.key == "port")).collect();
        sets.push(Setting { section: "server", key: "port", value: port.to_string(), env_value: port.to_string(), is_default: false });
        sets.push(Setting { section: "server", key: "http_port", value: (port + 1).to_string(), env_value: (port + 1).to_string(), is_default: false });
        sets.push(Setting { section: "persistence", key: "data_dir", value: toml_str(&root.join("data").to_string_lossy()), env_value: root.join("data").to_string_lossy().to_string(), is_default: false });
        if row.auth {
            // a real key file so that an ACCEPTED row could start; rejected rows never get that far
            let keys = root.join("keys.yaml");
            std::fs::write(&keys, "api_keys:\n  - key: kyro_alpha_a1a1a1a1a1a1a1a1a1a1a1a1a1a1a1a1\n    tenant_id: alpha\n    tenant_name: alpha\n    max_qps: 0\n    max_vectors: 100\n    is_admin: false\n    enabled: true\n").map_err(|e| Failure::new("setup_failed", e.to_string()))?;
            for s in sets.iter_mut() {
                if s.section == "auth" && s.key == "api_keys_file" {
                    s.value = toml_str(&keys.to_string_lossy());
                    s.env_value = keys.to_string_lossy().to_string();
                }
            }
        }
        let in_file: Vec<&Setting> = sets.iter().filter(|s| !case.via_env.contains(&env_name(s))).collect();
        let text = render(&in_file, false);
        let cfg = root.join("server.toml");
        std::fs::write(&cfg, &text).map_err(|e| Failure::new("setup_failed", e.to_string()))?;
        let log = std::fs::File::create(root.join("server.log")).map_err(|e| Failure::new("setup_failed", e.to_string()))?;
        let exe = std::env::current_exe().map_err(|e| Failure::new("setup_failed", e.to_string()))?.parent().unwrap().join("kyrodb_server");
        let mut cmd = std::process::Command::new(exe);
        cmd.arg("--config").arg(&cfg).current_dir(&root).stdin(std::process::Stdio::null()).stdout(std::process::Stdio::from(log.try_clone().unwrap())).stderr(std::process::Stdio::from(log));
        for (k, _) in std::env::vars() {
            if k.starts_with("KYRODB") || k == "LD_PRELOAD" {
                cmd.env_remove(k);
            }
        }
        for s in sets.iter().filter(|s| case.via_env.contains(&env_name(s))) {
            cmd.env(env_name(s), &s.env_value);
        }
        let mut child = cmd.spawn().map_err(|e| Failure::new("setup_failed", format!("spawn: {}", e)))?;
        let bad = violated(row);
        let t0 = Instant::now();
        let mut opened = false;
        let mut exit: Option<Option<i32>> = None;
        // the bind address of the row may be non-loopback (0.0.0.0, [::]): loopback connects reach those too
        while t0.elapsed() < Duration::from_secs(if bad.is_empty() { 20 } else { 15 }) {
            if let Ok(Some(st)) = child.try_wait() {
                exit = Some(st.code());
                break;
            }
            let probe_host = if row.host.starts_with("127.") { row.host.as_str() } else { "127.0.0.1" };
            if std::net::TcpStream::connect((probe_host, port)).is_ok() {
                opened = true;
                break;
            }
            std::thread::sleep(Duration::from_millis(15));
        }
        let _ = child.kill();
        let _ = child.wait();
        let tail = std::fs::read_to_string(root.join("server.log")).unwrap_or_default();
        let tail: String = tail.lines().filter(|l| l.contains("Error") || l.contains("error")).take(2).collect::<Vec<_>>().join(" | ").chars().take(300).collect();
        let mut rep = CaseReport::default();
        if !bad.is_empty() {
            rep.nontrivial = true;
            rep.label(&format!("rejected_row:{}", bad[0]));
            if opened {
                return Err(Failure::new("server_started_on_rejected_configuration", format!("the server opened its port although the configuration violates {:?}: {:?} (settings through the environment: {:?})\n{}", bad, row, case.via_env, text)).with_sig(json!({"kind": "server_started_on_rejected_configuration", "conditions": bad})));
            }
            match exit {
                Some(Some(0)) => return Err(Failure::new("server_exit_zero_on_rejected_configuration", format!("the server exited with status 0 on a configuration that violates {:?}: {:?}", bad, row)).with_sig(json!({"kind": "server_exit_zero_on_rejected_configuration"}))),
                Some(_) => rep.label("refused_with_nonzero_exit"),
                None => {
                    // validation happens before anything else at start-up (rejected rows exit within
                    // milliseconds); a process still alive after 15 s did not refuse the configuration
                    return Err(Failure::new("server_did_not_exit_on_rejected_configuration", format!("the server was still running 15 s after start on a configuration that violates {:?}: {:?} (log: {})", bad, row, tail)).with_sig(json!({"kind": "server_started_on_rejected_configuration", "conditions": bad})));
                }
            }
        } else {
            rep.label("accepted_row");
            if !opened {
                // an accepted row that does not come up is not this property's business, but it
                // would make the rejected-row observations meaningless: report as inconclusive
                return Err(Failure::new("setup_failed", format!("accepted control row did not open its port (exit {:?}): {:?}; log: {}", exit, row, tail)));
            }
        }
        Ok(rep)
    }
}

fn server_cases(ctx: &Ctx) -> Vec<SCase> {
    let n = ctx.tier.pick(6, 40);
    let mut per_cond: std::collections::BTreeMap<&'static str, Vec<usize>> = Default::default();
    let mut controls = vec![];
    for i in 0..GRID {
        // seeded order
        let j = (crate::common::tape::mix64(ctx.seed ^ 0x5e17, i as u64) % GRID as u64) as usize;
        let row = row_at(j);
        let bad = violated(&row);
        if bad.len() == 1 {
            let v = per_cond.entry(bad[0]).or_default();
            if v.len() < n && !v.contains(&j) {
                v.push(j);
            }
        } else if bad.is_empty() && row.env.trim().eq_ignore_ascii_case("benchmark") && !row.auth && !row.tls && row.obs_auth == "disabled" && row.host.starts_with("127.") && crate::common::tape::fnv64(serde_json::to_string(&row).unwrap().as_bytes()) % 5 != 0 && controls.len() < ctx.tier.pick(6, 24) && !controls.contains(&j) {
            controls.push(j);
        }
        if i > 40_000 && per_cond.values().all(|v| v.len() >= n) {
            break;
        }
    }
    let mut out = vec![];
    for j in per_cond.values().flatten().chain(controls.iter()) {
        let row = row_at(*j);
        let filler = crate::common::tape::fnv64(serde_json::to_string(&row).unwrap().as_bytes());
        let names: Vec<String> = settings(&row, filler).iter().filter(|s| !(s.section == "server" && s.key == "port")).map(env_name).collect();
        let mut m = Mix(ctx.seed ^ *j as u64);
        let via_env: Vec<String> = names.into_iter().filter(|_| m.below(4) == 0).collect();
        out.push(SCase { row, via_env });
    }
    out
}

pub fn main(ctx: &Ctx) {
    ctx.assume("one-directional oracle as in the property: nothing is asserted about rejected rows; loopback = 127.0.0.0/8, ::1, localhost");
    ctx.assume("the KYRODB__ environment channel is process-global: the mixed channel runs single-threaded after the file-only channels");
    for (k, _) in std::env::vars() {
        if k.starts_with("KYRODB__") {
            std::env::remove_var(k);
        }
    }
    run_committed_replays(ctx, &C18);
    let all: Vec<usize> = (0..GRID).collect();
    // all-TOML: the complete grid in both tiers
    run_channel(ctx, "toml", all.clone(), |_| Channel::Toml, ctx.threads, true);
    // all-YAML: complete in thorough, a seeded 1/4 slice in quick
    let slice = |den: u64, salt: u64| -> Vec<usize> { all.iter().copied().filter(|i| crate::common::tape::mix64(ctx.seed ^ salt, *i as u64) % den == 0).collect() };
    let yaml_rows = if ctx.tier == Tier::Thorough { all.clone() } else { slice(4, 1) };
    let yaml_all = yaml_rows.len() == GRID;
    run_channel(ctx, "yaml", yaml_rows, |_| Channel::Yaml, ctx.threads, yaml_all);
    // mixed file / env / default: single-threaded (process environment)
    let mix_rows = if ctx.tier == Tier::Thorough { all.clone() } else { slice(6, 2) };
    let seed = ctx.seed;
    run_channel(ctx, "mixed", mix_rows, move |i| Channel::Mix(crate::common::tape::mix64(seed, i as u64)), 1, false);
    // the real binary on a sample of rejected rows (every stated condition) and accepted controls
    run_committed_replays(ctx, &Srv);
    let cases = server_cases(ctx);
    run_cases(ctx, &Srv, "server", cases, false);
}

pub fn replay(ctx: &Ctx, v: &serde_json::Value) -> Option<i32> {
    replay_file(ctx, &C18, v).or_else(|| replay_file(ctx, &Srv, v))
}
