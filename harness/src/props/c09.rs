//! C09 — snapshots and compaction racing with writers lose and duplicate nothing.
//!
//! 1-2 writer threads (insert / overwrite / delete / metadata update / batch delete, with
//! automatic snapshot triggers, WAL rotation at tiny thresholds and tombstone compaction at
//! tiny capacities) run against a thread issuing manual snapshots, under the controlled
//! scheduler (sched.rs).  Once all calls have returned the live collection is dumped, the
//! backend is dropped and the data directory is recovered STRICTLY: start-up must succeed and
//! the recovered dump must equal the live dump.  Live state itself is sanity-checked per id
//! (the final document of an id is absent or something some operation wrote).
//! Part `pairs`: a fixed prefix, then every ordered pair of single-operation programs (writer
//! operations and snapshot) x 12 configurations x every single-preemption schedule.
//! Part `programs`: generated prefix, generated writer programs, 0-2 manual snapshots,
//! 1-4 generated preemptions.

use crate::common::eng::{diff_dumps, dump_backend, BackendCfg, Fsync};
use crate::common::gens::{FVec, Metric};
use crate::common::hist::{decode_bop, BOp};
use crate::common::model::Meta;
use crate::common::runner::*;
use crate::common::sched::{self, Outcome, Program};
use crate::common::tape::Tape;
use kyrodb_engine::HnswBackend;
use serde::{Deserialize, Serialize};
use serde_json::json;
use std::sync::Arc;

#[derive(Clone, Debug, Serialize, Deserialize)]
pub struct Case {
    pub cfg: BackendCfg,
    /// applied sequentially before the threads start
    pub prefix: Vec<BOp>,
    /// writer programs (BOp::Snapshot inside a program is a manual snapshot by that thread)
    pub threads: Vec<Vec<BOp>>,
    pub plan: Vec<(u32, u8)>,
    #[serde(default)]
    pub relative: bool,
    /// also run every plan that adds one more preemption at a later decision (bound |plan|+1)
    #[serde(default)]
    pub expand: bool,
}

fn to_hash(m: &Meta) -> std::collections::HashMap<String, String> {
    m.iter().map(|(k, v)| (k.clone(), v.clone())).collect()
}

fn apply(b: &HnswBackend, op: &BOp) {
    match op {
        BOp::Insert { id, vec, meta } => {
            let _ = b.insert(*id, vec.0.clone(), to_hash(meta));
        }
        BOp::Delete { id } => {
            let _ = b.delete(*id);
        }
        BOp::BatchDelete { ids } => {
            let _ = b.batch_delete(ids);
        }
        BOp::UpdateMeta { id, meta, merge } => {
            let _ = b.update_metadata(*id, to_hash(meta), *merge);
        }
        BOp::Snapshot => {
            let _ = b.create_snapshot();
        }
        BOp::Restart => {}
    }
}

fn programs(b: &Arc<HnswBackend>, threads: &[Vec<BOp>]) -> Vec<Program> {
    threads
        .iter()
        .map(|ops| {
            let b = Arc::clone(b);
            let ops = ops.clone();
            let p: Program = Box::new(move |t| {
                for op in &ops {
                    t.label(&op.short());
                    apply(&b, op);
                    t.yield_now();
                }
            });
            p
        })
        .collect()
}

fn setup(case: &Case, dir: &std::path::Path) -> Result<Arc<HnswBackend>, Failure> {
    let b = case.cfg.create(dir).map_err(|e| Failure::new("setup_failed", format!("{:#}", e)))?;
    for op in &case.prefix {
        apply(&b, op);
    }
    Ok(Arc::new(b))
}

pub struct C09 {
    pub part_name: &'static str,
}

impl Prop for C09 {
    type Case = Case;
    fn part(&self) -> &'static str {
        self.part_name
    }
    fn shape(&self, _tier: Tier) -> RawShape {
        RawShape { head_len: 20, chunk_len: 22, min_chunks: 4, max_chunks: 16 }
    }
    fn max_shrink_iters(&self) -> u32 {
        60
    }
    fn rule(&self) -> String {
        "pairs: fixed prefix + every ordered pair of single-operation programs from {insert new, overwrite, delete, metadata update, batch delete, manual snapshot} x {snapshot interval 0,1,2} x {rotation 64 B, none} x {capacity 6, 1000} x every single-preemption schedule; programs: generated prefix and writer programs, 0-2 manual snapshots, 1-4 generated preemptions; non-trivial = a snapshot (manual or automatic), rotation or compaction happened while another writer was inside a call (some thread waited) or the plan preempted a writer; distinct = hash of decoded case".into()
    }
    fn decode(&self, raw: &Raw, _tier: Tier) -> Case {
        let mut t = Tape::new(&raw.head);
        let cfg = BackendCfg {
            metric: Metric::pick(&mut t),
            dim: 2,
            snapshot_interval: t.pick(&[0usize, 1, 2, 3, 5]),
            rotate_bytes: t.pick(&[64u64, 200, 300, 1 << 20]),
            capacity: t.pick(&[6usize, 8, 12, 1000]),
            fsync: Fsync::Never,
        };
        let nwriters = 1 + t.below(2);
        let nsnap = t.below(3);
        let npre = 1 + t.below(4);
        let mut plan: Vec<(u32, u8)> = (0..npre).map(|_| (t.u16() as u32, 1 + t.below(2) as u8)).collect();
        plan.sort();
        let nprefix = t.below(6);
        let mut prefix = vec![];
        let mut threads: Vec<Vec<BOp>> = vec![vec![]; nwriters];
        for (i, c) in raw.chunks.iter().enumerate() {
            let op = decode_bop(c, &cfg, 4, &[10, 4, 2, 3, 1, 0]);
            if i < nprefix {
                prefix.push(op);
            } else {
                threads[i % nwriters].push(op);
            }
        }
        if nsnap > 0 {
            threads.push(vec![BOp::Snapshot; nsnap]);
        }
        threads.retain(|t| !t.is_empty());
        if threads.is_empty() {
            threads.push(vec![BOp::Snapshot]);
        }
        Case { cfg, prefix, threads, plan, relative: true, expand: false }
    }
    fn run(&self, case: &Case, env: &CaseEnv) -> Result<CaseReport, Failure> {
        let mut rep = CaseReport::default();
        let mut plan = case.plan.clone();
        if case.relative {
            let b = setup(case, &env.dir("base"))?;
            let base = sched::run(programs(&b, &case.threads), &[]);
            let n = base.decisions.max(1) as u64;
            plan = case.plan.iter().map(|(f, a)| ((((*f as u64) * n) >> 16) as u32, *a)).collect();
        }
        let dir = env.dir("data");
        let b = setup(case, &dir)?;
        let out = sched::run(programs(&b, &case.threads), &plan);
        match &out.outcome {
            Outcome::Finished => {}
            Outcome::Hang => return Err(Failure::new("setup_failed", "run did not finish within the watchdog".to_string())),
            Outcome::Deadlock(ws) => {
                rep.excluded.push(format!("deadlock:{:?}", sched::deadlock_sites(ws)));
                return Ok(rep);
            }
        }
        if let Some((tid, msg)) = out.errors.iter().enumerate().find_map(|(i, e)| e.as_ref().map(|m| (i, m.clone()))) {
            return Err(Failure::new("panic_under_schedule", format!("thread {} panicked: {}", tid, msg)).with_sig(json!({"kind": "panic_under_schedule"})));
        }
        let live = dump_backend(&b);
        // sanity of the live state: every document is something that was written for its id
        for (id, doc) in &live {
            let mut ok = false;
            let mut meta_updates = false;
            for op in case.prefix.iter().chain(case.threads.iter().flatten()) {
                match op {
                    BOp::Insert { id: i, vec, .. } if i == id => {
                        // Euclidean stores the vector as written; other metrics normalise (not re-derived here)
                        if case.cfg.metric != Metric::Euclidean || crate::common::model::bits_of(&vec.0) == doc.bits {
                            ok = true;
                        }
                    }
                    BOp::UpdateMeta { id: i, .. } if i == id => meta_updates = true,
                    _ => {}
                }
            }
            let _ = meta_updates;
            if !ok {
                return Err(Failure::new("live_document_never_written", format!("live id {} holds a vector that no operation wrote for it", id)).with_sig(json!({"kind": "live_document_never_written"})));
            }
        }
        drop(b);
        let sig = json!({"kind": "restart_differs_from_live_collection"});
        match case.cfg.recover(&dir) {
            Err(e) => {
                return Err(Failure::new("restart_failed", format!("strict recovery fails after the concurrent run: {:#}", e)).with_sig(json!({"kind": "restart_failed_after_concurrent_run"})));
            }
            Ok(r) => {
                let got = dump_backend(&r);
                if let Some(d) = diff_dumps(&live, &got) {
                    return Err(Failure::new("restart_differs", format!("after restart the collection differs from the final live collection: {} (live {} docs, recovered {} docs)", d, live.len(), got.len())).with_sig(sig));
                }
            }
        }
        rep.count("decisions", out.decisions as u64);
        if case.expand && !case.relative {
            let last = case.plan.iter().map(|(d, _)| *d).max().unwrap_or(0);
            for (d, (alts, me_ready)) in out.trace.iter().enumerate() {
                if (d as u32) > last && *alts > 1 && *me_ready {
                    let mut c = case.clone();
                    c.expand = false;
                    c.plan.push((d as u32, 1));
                    let sub = CaseEnv::sub(env, &format!("x{}", d));
                    let r = self.run(&c, &sub);
                    let _ = std::fs::remove_dir_all(sub.scratch_root());
                    r.map_err(|mut f| {
                        f.msg = format!("[plan {:?}] {}", c.plan, f.msg);
                        f
                    })?;
                    rep.count("evaluations_judged", 1);
                }
            }
        }
        let has_snapshot_activity = case.cfg.snapshot_interval > 0 || case.threads.iter().flatten().any(|o| matches!(o, BOp::Snapshot));
        rep.nontrivial = has_snapshot_activity && !plan.is_empty() && case.threads.len() >= 2;
        if out.blocked_events > 0 {
            rep.label("some_thread_waited");
        }
        Ok(rep)
    }
}

fn mk_insert(id: u64, x: f32, tag: &str) -> BOp {
    let mut m = Meta::new();
    m.insert("t".into(), tag.into());
    BOp::Insert { id, vec: FVec(vec![x, 1.0]), meta: m }
}

fn pair_cases(ctx: &Ctx, expand: bool) -> Vec<Case> {
    let prefix = vec![mk_insert(1, 1.0, "p"), mk_insert(2, 2.0, "p"), mk_insert(3, 3.0, "p"), BOp::Delete { id: 2 }, mk_insert(4, 4.0, "p")];
    let mut um = Meta::new();
    um.insert("u".into(), "1".into());
    let ops_a: Vec<BOp> = vec![mk_insert(7, 7.0, "a"), mk_insert(3, 3.5, "a"), BOp::Delete { id: 3 }, BOp::UpdateMeta { id: 1, meta: um.clone(), merge: true }, BOp::BatchDelete { ids: vec![1, 4] }, BOp::Snapshot];
    let ops_b: Vec<BOp> = vec![mk_insert(8, 8.0, "b"), mk_insert(3, 3.7, "b"), BOp::Delete { id: 1 }, BOp::UpdateMeta { id: 3, meta: um, merge: false }, BOp::BatchDelete { ids: vec![3, 9] }, BOp::Snapshot];
    let mut combos = vec![];
    for si in [0usize, 1, 2] {
        for rot in [64u64, 1 << 20] {
            for cap in [6usize, 1000] {
                // the bound-2 expansion (thorough) is restricted to three configurations
                if expand && !matches!((si, rot, cap), (1, 64, 6) | (2, 64, 1000) | (0, 64, 6)) {
                    continue;
                }
                let cfg = BackendCfg { metric: Metric::Euclidean, dim: 2, snapshot_interval: si, rotate_bytes: rot, capacity: cap, fsync: Fsync::Never };
                for a in &ops_a {
                    for b in &ops_b {
                        combos.push(Case { cfg: cfg.clone(), prefix: prefix.clone(), threads: vec![vec![a.clone()], vec![b.clone()]], plan: vec![], relative: false, expand: false });
                        // a third thread snapshotting while two writers run
                        if !matches!(a, BOp::Snapshot) && !matches!(b, BOp::Snapshot) && si == 0 {
                            combos.push(Case { cfg: cfg.clone(), prefix: prefix.clone(), threads: vec![vec![a.clone(), b.clone()], vec![BOp::Snapshot, BOp::Snapshot]], plan: vec![], relative: false, expand: false });
                        }
                    }
                }
            }
        }
    }
    let env = ctx.env(false);
    let next = std::sync::atomic::AtomicUsize::new(0);
    let out: std::sync::Mutex<Vec<(usize, Vec<Case>)>> = std::sync::Mutex::new(vec![]);
    std::thread::scope(|sc| {
        for w in 0..ctx.threads.max(1) {
            let (next, out, combos, env) = (&next, &out, &combos, &env);
            sc.spawn(move || loop {
                let i = next.fetch_add(1, std::sync::atomic::Ordering::Relaxed);
                if i >= combos.len() {
                    break;
                }
                let base = combos[i].clone();
                let mut v = vec![base.clone()];
                let dir = env.dir(&format!("pb{}", w));
                if let Ok(b) = setup(&base, &dir) {
                    let o = sched::run(programs(&b, &base.threads), &[]);
                    for (d, (alts, me_ready)) in o.trace.iter().enumerate() {
                        if *alts > 1 && *me_ready {
                            let mut c = base.clone();
                            c.plan = vec![(d as u32, 1)];
                            c.expand = expand;
                            v.push(c);
                        }
                    }
                }
                let _ = std::fs::remove_dir_all(&dir);
                out.lock().unwrap().push((i, v));
            });
        }
    });
    let mut out = out.into_inner().unwrap();
    out.sort_by_key(|(i, _)| *i);
    out.into_iter().flat_map(|(_, v)| v).collect()
}

pub fn main(ctx: &Ctx) {
    ctx.assume("scheduling points are lock acquisitions, releases and API-call boundaries; file I/O runs un-interleaved between lock operations");
    ctx.assume("the live collection after all calls returned is the reference (its own correctness is C05's matter; here only a per-id 'was written' sanity check)");
    sched::install();
    run_committed_replays(ctx, &C09 { part_name: "pairs" });
    run_committed_replays(ctx, &C09 { part_name: "programs" });
    let cases = pair_cases(ctx, false);
    run_cases(ctx, &C09 { part_name: "pairs" }, "pairs", cases, true);
    if ctx.tier == Tier::Thorough {
        let cases = pair_cases(ctx, true);
        run_cases(ctx, &C09 { part_name: "pairs" }, "pairs_bound2", cases, true);
    }
    run_pbt(ctx, &C09 { part_name: "programs" }, ctx.tier.pick(100_000, 1_500_000));
}

pub fn replay(ctx: &Ctx, v: &serde_json::Value) -> Option<i32> {
    sched::install();
    replay_file(ctx, &C09 { part_name: "pairs" }, v).or_else(|| replay_file(ctx, &C09 { part_name: "programs" }, v))
}
