//! C03 — a write that reports failure changes nothing, now or after restart.
//!
//! Part `invalid` (this file): valid histories on a persistent TieredEngine in which some
//! positions are invalid operations (wrong dimension, empty, zero, tiny norm, NaN, +-Inf,
//! overflowing, index full) on every write path: cold-tier insert, tiered insert, bulk load
//! (invalid items inside a valid batch), drain repair (hot-only mirror entry with an invalid
//! vector).  Oracle per call: Err (or item counted as failed) => the live dump is unchanged
//! AND a strict recovery of a copy of the directory equals the dump before the call;
//! Ok => the model applies it and the same recovery check must reproduce it.
//! Part `storage` (fault injection through the syscall shim) lives in `c03b.rs`.

use crate::common::eng::{copy_dir, diff_dumps, dump_backend, Dump};
use crate::common::gens::{bad_vector, meta_map, valid_vector, BadClass, FVec, BAD_CLASSES};
use crate::common::model::{bits_of, meta_from_hash, meta_to_hash, Meta};
use crate::common::runner::*;
use crate::common::tape::Tape;
use crate::common::tiered::{Strat, Tiered, TieredCfg};
use kyrodb_engine::VectorCoherenceToken;
use serde::{Deserialize, Serialize};
use serde_json::json;

#[derive(Clone, Copy, Debug, PartialEq, Eq, Serialize, Deserialize)]
pub enum Path {
    ColdInsert,
    TieredInsert,
    BulkLoad,
    DrainRepair,
}

#[derive(Clone, Debug, Serialize, Deserialize)]
pub enum IOp {
    Put { id: u64, vec: FVec, meta: Meta, path: Path },
    Bad { id: u64, class: BadClass, seed: u32, meta: Meta, path: Path },
    /// bulk load of valid items with one invalid item in the middle
    MixedBulk { items: Vec<(u64, FVec, Meta)>, bad_at: usize, bad_id: u64, class: BadClass, seed: u32 },
    Delete { id: u64 },
    BatchDelete { ids: Vec<u64> },
    UpdateMeta { id: u64, meta: Meta, merge: bool },
    Flush,
    Snapshot,
    Restart,
}

#[derive(Clone, Debug, Serialize, Deserialize)]
pub struct Case {
    pub cfg: TieredCfg,
    pub pool: usize,
    pub ops: Vec<IOp>,
}

pub struct Invalid;

fn cold_dump(te: &Tiered) -> Dump {
    dump_backend(te.engine.cold_tier())
}

impl Prop for Invalid {
    type Case = Case;
    fn part(&self) -> &'static str {
        "invalid"
    }
    fn shape(&self, tier: Tier) -> RawShape {
        RawShape { head_len: 16, chunk_len: 40, min_chunks: 4, max_chunks: tier.pick(30, 60) }
    }
    fn max_shrink_iters(&self) -> u32 {
        2000
    }
    fn rule(&self) -> String {
        "valid history with invalid operations mixed in on 4 write paths x 9 invalid classes (+ index full); every call that returns Err or counts an item as failed is followed by a live-dump comparison and a strict recovery of a copy of the data directory; non-trivial = a failing operation that targets an existing id, or an invalid item inside a bulk batch, or a failing drain repair; distinct = hash of decoded case".into()
    }
    fn decode(&self, raw: &Raw, _tier: Tier) -> Case {
        let mut t = Tape::new(&raw.head);
        let mut cfg = TieredCfg::decode(&mut t, &[2, 3, 4, 8], &[1, 8], &[2, 8, 64]);
        cfg.strat = Strat::Lru;
        cfg.persist = true;
        cfg.capacity = t.pick(&[1000usize, 6, 10]);
        let pool = 3 + t.below(6);
        let paths = [Path::ColdInsert, Path::TieredInsert, Path::BulkLoad];
        let ops = raw
            .chunks
            .iter()
            .map(|c| {
                let mut t = Tape::new(c);
                let id = 1 + t.below(pool) as u64;
                match t.weighted(&[12, 10, 3, 3, 2, 3, 2, 1, 2]) {
                    0 => IOp::Put { id, vec: FVec(valid_vector(&mut t, cfg.dim, cfg.metric)), meta: meta_map(&mut t, 2), path: t.pick(&paths) },
                    1 => IOp::Bad {
                        id,
                        class: t.pick(BAD_CLASSES),
                        seed: t.u32(),
                        meta: meta_map(&mut t, 2),
                        path: t.pick(&[Path::ColdInsert, Path::TieredInsert, Path::BulkLoad, Path::DrainRepair]),
                    },
                    2 => {
                        let n = 2 + t.below(3);
                        let items = (0..n).map(|_| (1 + t.below(pool) as u64, FVec(valid_vector(&mut t, cfg.dim, cfg.metric)), meta_map(&mut t, 1))).collect();
                        IOp::MixedBulk { items, bad_at: t.below(n + 1), bad_id: 1 + t.below(pool) as u64, class: t.pick(BAD_CLASSES), seed: t.u32() }
                    }
                    3 => IOp::Delete { id },
                    4 => IOp::BatchDelete { ids: (0..t.below(4)).map(|_| 1 + t.below(pool) as u64).collect() },
                    5 => IOp::UpdateMeta { id, meta: meta_map(&mut t, 2), merge: t.chance(128) },
                    6 => IOp::Flush,
                    7 => IOp::Snapshot,
                    _ => IOp::Restart,
                }
            })
            .collect();
        Case { cfg, pool, ops }
    }

    fn run(&self, case: &Case, env: &CaseEnv) -> Result<CaseReport, Failure> {
        let cfg = &case.cfg;
        let dir = env.dir("data");
        let pool: Vec<u64> = (1..=case.pool as u64).collect();
        let mut te = Tiered::build(cfg, Some(&dir), &pool).map_err(|e| Failure::new("setup_failed", format!("{:#}", e)))?;
        let mut rep = CaseReport::default();
        let mut expect: Dump = Dump::new();
        let mut probe_n = 0usize;

        // strict recovery of a copy must equal `want`
        let mut recover_check = |want: &Dump, what: &str, sig: serde_json::Value| -> Result<(), Failure> {
            probe_n += 1;
            let copy = env.dir(&format!("probe{}", probe_n));
            copy_dir(&dir, &copy).map_err(|e| Failure::new("setup_failed", e.to_string()))?;
            let r = Tiered::recover(cfg, &copy, &pool);
            let out = match r {
                Err(e) => Err(Failure::new("restart_fails_after_failed_write", format!("{}: strict recovery of the data directory fails: {:#}", what, e)).with_sig(sig.clone())),
                Ok(t2) => match diff_dumps(want, &cold_dump(&t2)) {
                    None => Ok(()),
                    Some(d) => Err(Failure::new("restart_state_differs", format!("{}: after restart {}", what, d)).with_sig(sig)),
                },
            };
            let _ = std::fs::remove_dir_all(&copy);
            out
        };

        for (i, op) in case.ops.iter().enumerate() {
            let before = expect.clone();
            let what = format!("op {} {}", i, short(op));
            match op {
                IOp::Put { id, vec, meta, path } => {
                    let r: Result<(), String> = match path {
                        Path::ColdInsert => te.engine.cold_tier().insert(*id, vec.0.clone(), meta_to_hash(meta)).map_err(|e| format!("{:#}", e)),
                        Path::TieredInsert | Path::DrainRepair => te.engine.insert(*id, vec.0.clone(), meta_to_hash(meta)).map_err(|e| format!("{:#}", e)),
                        Path::BulkLoad => match te.engine.bulk_load_cold_tier(vec![(*id, vec.0.clone(), meta_to_hash(meta))]) {
                            Ok((1, 0, _, _)) => Ok(()),
                            Ok((l, f, _, _)) => Err(format!("bulk load loaded={} failed={}", l, f)),
                            Err(e) => Err(format!("{:#}", e)),
                        },
                    };
                    match r {
                        Ok(()) => {
                            let stored = te.engine.cold_tier().fetch_document(*id).ok_or_else(|| Failure::new("ack_not_visible", format!("{}: acknowledged but not visible", what)))?;
                            expect.insert(*id, crate::common::model::Doc { bits: bits_of(&stored), meta: meta.clone() });
                        }
                        Err(msg) => {
                            if !(msg.contains("HNSW index full") && expect.len() >= cfg.capacity) && !msg.contains("failed=1") {
                                return Err(Failure::new("valid_insert_rejected", format!("{}: {}", what, msg)));
                            }
                            if msg.contains("failed=1") && expect.len() < cfg.capacity {
                                return Err(Failure::new("valid_insert_rejected", format!("{}: {}", what, msg)));
                            }
                            rep.label("index_full_refusal");
                            let live = cold_dump(&te);
                            if let Some(d) = diff_dumps(&before, &live) {
                                return Err(Failure::new("failed_write_changed_live_state", format!("{}: index-full refusal changed live state: {}", what, d)));
                            }
                            if before.contains_key(id) {
                                rep.nontrivial = true;
                            }
                            recover_check(&before, &what, json!({"kind": "failed_write_not_clean_after_restart", "class": "index_full"}))?;
                        }
                    }
                }
                IOp::Bad { id, class, seed, meta, path } => {
                    let v = bad_vector(*class, *seed as u64, cfg.dim);
                    let existed = before.contains_key(id);
                    let outcome: Result<(), String> = match path {
                        Path::ColdInsert => te.engine.cold_tier().insert(*id, v.clone(), meta_to_hash(meta)).map_err(|e| format!("{:#}", e)),
                        Path::TieredInsert => te.engine.insert(*id, v.clone(), meta_to_hash(meta)).map_err(|e| format!("{:#}", e)),
                        Path::BulkLoad => match te.engine.bulk_load_cold_tier(vec![(*id, v.clone(), meta_to_hash(meta))]) {
                            Ok((1, 0, _, _)) => Ok(()),
                            Ok((_, _, _, _)) => Err("item counted as failed".into()),
                            Err(e) => Err(format!("{:#}", e)),
                        },
                        Path::DrainRepair => {
                            // hot-only mirror entry (no canonical record) with an unusable vector:
                            // the drain tries to repair the canonical store from it
                            if existed || v.len() != cfg.dim {
                                continue;
                            }
                            te.engine.hot_tier().insert_with_coherence(*id, v.clone(), meta_to_hash(meta), VectorCoherenceToken::for_embedding(1, &v));
                            let r = te.engine.flush_hot_tier(true);
                            // whatever the drain reports, look at the canonical store
                            let _ = r;
                            let _ = te.engine.hot_tier().delete(*id);
                            if te.engine.cold_tier().exists(*id) {
                                Ok(())
                            } else {
                                Err("repair did not insert".into())
                            }
                        }
                    };
                    match outcome {
                        Ok(()) => {
                            // accepted (e.g. Euclidean accepts tiny and huge finite vectors): must behave like any write
                            let stored = te.engine.cold_tier().fetch_document(*id).ok_or_else(|| Failure::new("ack_not_visible", format!("{}: acknowledged but not visible", what)))?;
                            let m = te.engine.cold_tier().fetch_metadata(*id).map(|m| meta_from_hash(&m)).unwrap_or_default();
                            if !stored.iter().all(|x| x.is_finite()) {
                                return Err(Failure::new("non_finite_vector_acknowledged", format!("{}: a non-finite vector was acknowledged and stored", what)));
                            }
                            expect.insert(*id, crate::common::model::Doc { bits: bits_of(&stored), meta: m });
                            rep.label(&format!("accepted_{:?}", class));
                            let now = expect.clone();
                            recover_check(&now, &what, json!({"kind": "acknowledged_write_not_recoverable", "class": format!("{:?}", class)}))?;
                        }
                        Err(_) => {
                            rep.label(&format!("refused_{:?}", class));
                            rep.count("evaluations_judged", 1);
                            let live = cold_dump(&te);
                            if let Some(d) = diff_dumps(&before, &live) {
                                return Err(Failure::new("failed_write_changed_live_state", format!("{}: the call failed but the live collection changed: {}", what, d))
                                    .with_sig(json!({"kind": "failed_write_changed_live_state", "class": format!("{:?}", class), "path": format!("{:?}", path)})));
                            }
                            if existed || *path == Path::DrainRepair {
                                rep.nontrivial = true;
                            }
                            recover_check(
                                &before,
                                &what,
                                json!({"kind": "failed_write_not_clean_after_restart", "class": format!("{:?}", class), "target_existed": existed}),
                            )?;
                        }
                    }
                }
                IOp::MixedBulk { items, bad_at, bad_id, class, seed } => {
                    let bad = bad_vector(*class, *seed as u64, cfg.dim);
                    let mut batch: Vec<(u64, Vec<f32>, std::collections::HashMap<String, String>)> = items.iter().map(|(id, v, m)| (*id, v.0.clone(), meta_to_hash(m))).collect();
                    let at = (*bad_at).min(batch.len());
                    batch.insert(at, (*bad_id, bad.clone(), Default::default()));
                    let n = batch.len() as u64;
                    let res = te.engine.bulk_load_cold_tier(batch.clone()).map_err(|e| Failure::new("bulk_failed", format!("{}: {:#}", what, e)))?;
                    if res.0 + res.1 != n {
                        return Err(Failure::new("bulk_accounting", format!("{}: loaded {} + failed {} != {} items", what, res.0, res.1, n)));
                    }
                    // expected: per-item upsert in order; the invalid item changes nothing unless accepted
                    let live = cold_dump(&te);
                    let near_capacity = before.len() + batch.len() >= cfg.capacity;
                    if near_capacity {
                        // near capacity the per-item outcome depends on tombstone compaction; adopt the live state
                        rep.excluded.push("mixed_bulk_near_capacity".into());
                        expect = live.clone();
                    } else {
                        if res.1 > 1 {
                            return Err(Failure::new("valid_insert_rejected", format!("{}: {} items refused but only one is invalid", what, res.1)));
                        }
                        let bad_accepted = res.1 == 0;
                        let applied: Vec<usize> = (0..batch.len()).filter(|j| *j != at || bad_accepted).collect();
                        let mut want = before.clone();
                        for (pos, j) in applied.iter().enumerate() {
                            let (id, v, m) = &batch[*j];
                            let last = applied[pos + 1..].iter().all(|k| batch[*k].0 != *id);
                            // stored bits are the engine's normalisation of the input: take them from the live
                            // store for the last write to an id (existence and metadata are still compared)
                            let bits = if last { live.get(id).map(|d| d.bits.clone()).unwrap_or_else(|| bits_of(v)) } else { bits_of(v) };
                            want.insert(*id, crate::common::model::Doc { bits, meta: meta_from_hash(m) });
                        }
                        if let Some(d) = diff_dumps(&want, &live) {
                            return Err(Failure::new(
                                "bulk_invalid_item_had_effect",
                                format!("{}: bulk load with an invalid item ({:?} for id {}) reported loaded={} failed={}; live collection is not 'valid items applied, refused item ignored': {}", what, class, bad_id, res.0, res.1, d),
                            )
                            .with_sig(json!({"kind": "failed_write_changed_live_state", "class": format!("{:?}", class), "path": "BulkLoad"})));
                        }
                        if bad_accepted && !live.get(bad_id).map_or(true, |d| d.bits.iter().all(|b| f32::from_bits(*b).is_finite())) {
                            return Err(Failure::new("non_finite_vector_acknowledged", format!("{}: a non-finite vector was acknowledged and stored", what)));
                        }
                        expect = want;
                    }
                    rep.nontrivial = true;
                    rep.count("evaluations_judged", 1);
                    let now = expect.clone();
                    recover_check(&now, &what, json!({"kind": "failed_write_not_clean_after_restart", "class": format!("{:?}", class), "target_existed": before.contains_key(bad_id), "bulk": true}))?;
                }
                IOp::Delete { id } => {
                    let got = te.engine.delete(*id).map_err(|e| Failure::new("valid_delete_rejected", format!("{}: {:#}", what, e)))?;
                    if got != expect.contains_key(id) {
                        return Err(Failure::new("delete_return", format!("{}: returned {} model {}", what, got, expect.contains_key(id))));
                    }
                    expect.remove(id);
                }
                IOp::BatchDelete { ids } => {
                    te.engine.batch_delete(ids).map_err(|e| Failure::new("valid_delete_rejected", format!("{}: {:#}", what, e)))?;
                    for id in ids {
                        expect.remove(id);
                    }
                }
                IOp::UpdateMeta { id, meta, merge } => {
                    let got = te.engine.update_metadata(*id, meta_to_hash(meta), *merge).map_err(|e| Failure::new("valid_update_rejected", format!("{}: {:#}", what, e)))?;
                    if got != expect.contains_key(id) {
                        return Err(Failure::new("update_return", format!("{}: returned {} model {}", what, got, expect.contains_key(id))));
                    }
                    if let Some(d) = expect.get_mut(id) {
                        if *merge {
                            for (k, v) in meta {
                                d.meta.insert(k.clone(), v.clone());
                            }
                        } else {
                            d.meta = meta.clone();
                        }
                    }
                }
                IOp::Flush => {
                    let _ = te.engine.flush_hot_tier(true);
                }
                IOp::Snapshot => {
                    te.engine.cold_tier().create_snapshot().map_err(|e| Failure::new("snapshot_failed", format!("{}: {:#}", what, e)))?;
                }
                IOp::Restart => {
                    drop(te);
                    te = Tiered::recover(cfg, &dir, &pool).map_err(|e| Failure::new("recover_failed", format!("{}: {:#}", what, e)).with_sig(json!({"kind": "restart_fails_after_failed_write"})))?;
                }
            }
            // every later valid operation must still behave per model: compare the live dump
            let live = cold_dump(&te);
            if let Some(d) = diff_dumps(&expect, &live) {
                return Err(Failure::new("live_differs_from_model", format!("{}: {}", what, d)));
            }
        }
        // final: everything acknowledged is recoverable
        let fin = expect.clone();
        recover_check(&fin, "end of history", json!({"kind": "acknowledged_write_not_recoverable"}))?;
        Ok(rep)
    }
}

fn short(op: &IOp) -> String {
    match op {
        IOp::Put { id, path, .. } => format!("put({}, {:?})", id, path),
        IOp::Bad { id, class, path, .. } => format!("invalid_write({}, {:?}, {:?})", id, class, path),
        IOp::MixedBulk { items, bad_at, bad_id, class, .. } => format!("mixed_bulk(ids {:?}, invalid {:?} for id {} at {})", items.iter().map(|x| x.0).collect::<Vec<_>>(), class, bad_id, bad_at),
        IOp::Delete { id } => format!("delete({})", id),
        IOp::BatchDelete { ids } => format!("batch_delete({:?})", ids),
        IOp::UpdateMeta { id, merge, .. } => format!("update_meta({}, merge={})", id, merge),
        IOp::Flush => "flush".into(),
        IOp::Snapshot => "snapshot".into(),
        IOp::Restart => "restart".into(),
    }
}

pub fn main(ctx: &Ctx) {
    ctx.assume("an invalid-class vector that the engine accepts (e.g. Euclidean accepts tiny and huge finite vectors) is treated as an ordinary acknowledged write and must be recoverable");
    run_committed_replays(ctx, &Invalid);
    run_pbt(ctx, &Invalid, ctx.tier.pick(30_000, 600_000));
    super::c03b::run(ctx);
}

pub fn replay(ctx: &Ctx, v: &serde_json::Value) -> Option<i32> {
    replay_file(ctx, &Invalid, v).or_else(|| super::c03b::replay(ctx, v))
}
