//! C06 — search results are sound and reflect acknowledged recent writes.
//!
//! Generated: tiered histories (single and bulk writes, overwrites, deletes up to ~95 %
//! tombstones, drains, small index capacities forcing tombstone compaction, restarts) with
//! searches through every search API; 3 metrics; SIMD-tail dimensions; k in 1..1000; ef
//! overrides.  Oracle: validity predicate against f64 reference distances on the model's
//! current stored vectors, plus completeness for documents still in the recent-write tier.

use crate::common::gens::{valid_vector, vector_of_class, FVec, Metric, VClass, DIMS_SIMD};
use crate::common::model::{bits_of, meta_to_hash, normalise_query_f64, Meta, Model};
use crate::common::runner::*;
use crate::common::tape::Tape;
use crate::common::tiered::{Strat, Tiered, TieredCfg};
use kyrodb_engine::{SearchExecutionPath, SearchResult};
use serde::{Deserialize, Serialize};
use serde_json::json;
use std::collections::BTreeSet;

#[derive(Clone, Copy, Debug, PartialEq, Eq, Serialize, Deserialize)]
pub enum Api {
    TieredSync,
    TieredBatch,
    TieredTimed,
    ColdSingle,
    ColdBatch,
}

#[derive(Clone, Debug, Serialize, Deserialize)]
pub enum QSpec {
    Fresh(FVec),
    /// exactly the stored vector of the n-th live document (distance 0, ties with duplicates)
    StoredOf(usize),
    /// the stored vector of the n-th live document plus a small perturbation
    Near(usize, u32),
    /// one of three fixed pool queries (expanded from the pool seed): repeats hit the query cache
    Pool(u8),
}

#[derive(Clone, Debug, Serialize, Deserialize)]
pub enum SOp {
    Insert { id: u64, vec: FVec },
    /// n documents with ids start.., vectors expanded from (class, seed)
    InsertMany { start: u64, n: usize, class: u8, seed: u32, bulk: bool },
    /// duplicate of the n-th live document's vector under another id
    InsertDup { id: u64, of: usize },
    Delete { id: u64 },
    /// delete every live id whose (id * 7919 + salt) % 100 < percent
    DeleteMany { percent: u8, salt: u8 },
    Flush,
    Restart,
    /// shared_scope: Some(s) = search in a small reused scope (the query-result cache may answer);
    /// None = a fresh scope (answer comes from the tiers)
    Search { api: Api, q: QSpec, k: usize, ef: Option<usize>, shared_scope: Option<u64> },
    /// overwrite the document at position `pos` of the most recent search result with a new vector
    OverwriteResult { pos: usize, vec: FVec },
}

#[derive(Clone, Debug, Serialize, Deserialize)]
pub struct Case {
    pub cfg: TieredCfg,
    pub ops: Vec<SOp>,
}

pub struct C06;

const ID_SPACE: u64 = 400;

fn class_of(c: u8) -> VClass {
    [VClass::Unit, VClass::Scaled, VClass::NearBand, VClass::Axis, VClass::Integer, VClass::Gauss][c as usize % 6]
}

impl Prop for C06 {
    type Case = Case;
    fn part(&self) -> &'static str {
        "history"
    }
    fn shape(&self, tier: Tier) -> RawShape {
        RawShape { head_len: 16, chunk_len: 24, min_chunks: 4, max_chunks: tier.pick(40, 80) }
    }
    fn rule(&self) -> String {
        "tiered history + searches; non-trivial = a judged search (non-empty result) after at least one delete or overwrite, or with dimension not a multiple of 8, or with tombstone ratio >= 50 %; distinct = hash of decoded case".into()
    }
    fn decode(&self, raw: &Raw, tier: Tier) -> Case {
        let mut t = Tape::new(&raw.head);
        let mut cfg = TieredCfg::decode(&mut t, DIMS_SIMD, &[1, 3, 64], &[2, 8, 64, 1024]);
        cfg.strat = Strat::Lru;
        cfg.capacity = t.pick(&[2000usize, 2000, 40, 120]);
        cfg.ef_search = t.pick(&[50usize, 10, 400]);
        cfg.persist = t.chance(48);
        cfg.qcache_cap = 4;
        let many_max = tier.pick(120usize, 600);
        let ops = raw
            .chunks
            .iter()
            .map(|c| {
                let mut t = Tape::new(c);
                match t.weighted(&[10, 5, 2, 5, 3, 2, 1, 22, 4]) {
                    0 => SOp::Insert { id: 1 + t.below16(ID_SPACE as usize) as u64 % 24, vec: FVec(valid_vector(&mut t, cfg.dim, cfg.metric)) },
                    1 => SOp::InsertMany {
                        start: 1 + t.below16(ID_SPACE as usize) as u64,
                        n: 1 + t.below16(many_max),
                        class: t.below(6) as u8,
                        seed: t.u32(),
                        bulk: t.chance(128),
                    },
                    2 => SOp::InsertDup { id: 1 + t.below16(ID_SPACE as usize) as u64, of: t.below(64) },
                    3 => SOp::Delete { id: 1 + t.below16(ID_SPACE as usize) as u64 % 24 },
                    4 => SOp::DeleteMany { percent: t.pick(&[10u8, 50, 80, 95, 100]), salt: t.u8() },
                    5 => SOp::Flush,
                    6 => SOp::Restart,
                    8 => SOp::OverwriteResult { pos: t.below(4), vec: FVec(valid_vector(&mut t, cfg.dim, cfg.metric)) },
                    _ => {
                        let api = t.pick(&[Api::TieredSync, Api::TieredSync, Api::TieredBatch, Api::TieredTimed, Api::ColdSingle, Api::ColdBatch]);
                        let q = match t.weighted(&[5, 3, 3, 5]) {
                            0 => QSpec::Fresh(FVec(valid_vector(&mut t, cfg.dim, cfg.metric))),
                            1 => QSpec::StoredOf(t.below(64)),
                            2 => QSpec::Near(t.below(64), t.u32()),
                            _ => QSpec::Pool(t.below(3) as u8),
                        };
                        let k = t.pick(&[1usize, 2, 3, 5, 10, 10, 50, 100, 1000]);
                        let ef = match t.below(5) {
                            0 => Some(k),
                            1 => Some(10 * k),
                            2 => Some(10_000),
                            _ => None,
                        };
                        let shared_scope = if t.chance(if matches!(q, QSpec::Pool(_)) { 200 } else { 50 }) { Some(t.below(2) as u64) } else { None };
                        let ef = if shared_scope.is_some() { None } else { ef };
                        SOp::Search { api, q, k, ef, shared_scope }
                    }
                }
            })
            .collect();
        Case { cfg, ops }
    }

    fn run(&self, case: &Case, env: &CaseEnv) -> Result<CaseReport, Failure> {
        let cfg = &case.cfg;
        let dir = if cfg.persist { Some(env.dir("data")) } else { None };
        let mut te = Tiered::build(cfg, dir.as_deref(), &[]).map_err(|e| Failure::new("setup_failed", format!("{:#}", e)))?;
        let mut model = Model::new();
        let mut rep = CaseReport::default();
        // ids whose latest write went through TieredEngine::insert and that were not drained since
        let mut recent: BTreeSet<u64> = BTreeSet::new();
        let mut churn = false;
        let mut slots = 0usize; // live + tombstones since last (re)build, approximate
        let mut scope_counter = 1000u64;
        let mut last_result: Vec<u64> = vec![];
        let rt = tokio::runtime::Builder::new_current_thread().enable_time().build().map_err(|e| Failure::new("setup_failed", format!("{}", e)))?;
        let metric = cfg.metric;

        for (i, op) in case.ops.iter().enumerate() {
            let at = |m: String| format!("op {} {}: {}", i, sop_short(op), m);
            match op {
                SOp::Insert { id, vec } => {
                    self.put(&te, &mut model, &mut recent, &mut churn, &mut slots, cfg, *id, &vec.0, true, &mut rep).map_err(|mut f| {
                        f.msg = at(f.msg);
                        f
                    })?;
                }
                SOp::InsertDup { id, of } => {
                    if let Some((_, d)) = model.docs.iter().nth(*of % model.len().max(1)) {
                        let v = d.vec_f32();
                        self.put(&te, &mut model, &mut recent, &mut churn, &mut slots, cfg, *id, &v, true, &mut rep).map_err(|mut f| {
                            f.msg = at(f.msg);
                            f
                        })?;
                        rep.label("duplicate_vector");
                    }
                }
                SOp::InsertMany { start, n, class, seed, bulk } => {
                    let ids: Vec<u64> = (0..*n as u64).map(|j| 1 + (start + j) % ID_SPACE).collect();
                    if *bulk {
                        let docs: Vec<_> = ids
                            .iter()
                            .map(|id| (*id, vector_of_class(class_of(*class), *seed as u64 ^ (*id << 20), cfg.dim, metric), Default::default()))
                            .collect();
                        let inputs: Vec<(u64, Vec<f32>)> = docs.iter().map(|d: &(u64, Vec<f32>, std::collections::HashMap<String, String>)| (d.0, d.1.clone())).collect();
                        let (_loaded, failed, _, _) = te.engine.bulk_load_cold_tier(docs).map_err(|e| Failure::new("valid_insert_rejected", at(format!("{:#}", e))))?;
                        if failed > 0 && model.len() + n < cfg.capacity {
                            return Err(Failure::new("valid_insert_rejected", at(format!("bulk load refused {} valid items", failed))));
                        }
                        for (id, input) in inputs {
                            // adopt whatever the canonical store holds now for the id
                            self.adopt_after_bulk(&te, &mut model, &mut recent, &mut churn, id, &input);
                        }
                        slots += n;
                        rep.label("bulk_load");
                    } else {
                        for id in ids {
                            let v = vector_of_class(class_of(*class), *seed as u64 ^ (id << 20), cfg.dim, metric);
                            self.put(&te, &mut model, &mut recent, &mut churn, &mut slots, cfg, id, &v, false, &mut rep).map_err(|mut f| {
                                f.msg = at(f.msg);
                                f
                            })?;
                        }
                    }
                }
                SOp::Delete { id } => {
                    let got = te.engine.delete(*id).map_err(|e| Failure::new("valid_delete_rejected", at(format!("{:#}", e))))?;
                    if got != model.contains(*id) {
                        return Err(Failure::new("delete_return", at(format!("returned {} model {}", got, model.contains(*id)))));
                    }
                    if model.delete(*id) {
                        churn = true;
                    }
                    recent.remove(id);
                }
                SOp::DeleteMany { percent, salt } => {
                    let victims: Vec<u64> = model.docs.keys().filter(|id| ((**id * 7919 + *salt as u64) % 100) < *percent as u64).copied().collect();
                    if !victims.is_empty() {
                        let got = te.engine.batch_delete(&victims).map_err(|e| Failure::new("valid_delete_rejected", at(format!("{:#}", e))))?;
                        if got != victims.len() as u64 {
                            return Err(Failure::new("batch_delete_return", at(format!("returned {} for {} live ids", got, victims.len()))));
                        }
                        for v in &victims {
                            model.delete(*v);
                            recent.remove(v);
                        }
                        churn = true;
                    }
                }
                SOp::OverwriteResult { pos, vec } => {
                    if let Some(id) = last_result.get(*pos % last_result.len().max(1)).copied() {
                        if model.contains(id) {
                            self.put(&te, &mut model, &mut recent, &mut churn, &mut slots, cfg, id, &vec.0, true, &mut rep).map_err(|mut f| {
                                f.msg = at(f.msg);
                                f
                            })?;
                            rep.label("overwrote_result_document");
                        }
                    }
                }
                SOp::Flush => {
                    te.engine.flush_hot_tier(true).map_err(|e| Failure::new("flush_failed", at(format!("{:#}", e))))?;
                    recent.clear();
                }
                SOp::Restart => {
                    if let Some(d) = &dir {
                        drop(te);
                        te = Tiered::recover(cfg, d, &[]).map_err(|e| Failure::new("recover_failed", at(format!("{:#}", e))))?;
                        recent.clear();
                        slots = model.len();
                        rep.label("restart");
                    }
                }
                SOp::Search { api, q, k, ef, shared_scope } => {
                    let qv: Vec<f32> = match q {
                        QSpec::Fresh(v) => v.0.clone(),
                        QSpec::StoredOf(n) => match model.docs.iter().nth(*n % model.len().max(1)) {
                            Some((_, d)) => d.vec_f32(),
                            None => vector_of_class(VClass::Unit, *n as u64, cfg.dim, metric),
                        },
                        QSpec::Pool(i) => vector_of_class(VClass::Gauss, 0xC06 + *i as u64, cfg.dim, metric),
                        QSpec::Near(n, s) => match model.docs.iter().nth(*n % model.len().max(1)) {
                            Some((_, d)) => {
                                let base = d.vec_f32();
                                let pert = vector_of_class(VClass::Unit, *s as u64, cfg.dim, metric);
                                let scale = base.iter().map(|x| x.abs()).fold(0.0f32, f32::max).max(1e-3) * 1e-3;
                                base.iter().zip(pert.iter()).map(|(a, b)| a + b * scale).collect()
                            }
                            None => vector_of_class(VClass::Unit, *s as u64, cfg.dim, metric),
                        },
                    };
                    scope_counter += 1;
                    // fresh scope: never answered from the query cache; shared scope: may be a CacheHit
                    let scope = shared_scope.unwrap_or(scope_counter);
                    let tiered = matches!(api, Api::TieredSync | Api::TieredBatch | Api::TieredTimed);
                    let res: Result<(Vec<SearchResult>, Option<SearchExecutionPath>), anyhow::Error> = match api {
                        Api::TieredSync => te.engine.knn_search_with_ef_detailed_scoped(&qv, *k, *ef, scope).map(|(r, p)| (r, Some(p))),
                        Api::TieredBatch => te
                            .engine
                            .knn_search_batch_with_ef_detailed_scoped(&[qv.clone(), qv.clone()], *k, *ef, scope)
                            .map(|mut v| {
                                let (r, p) = v.remove(0);
                                (r, Some(p))
                            }),
                        Api::TieredTimed => rt.block_on(te.engine.knn_search_with_timeouts_with_ef_scoped(&qv, *k, *ef, scope)).map(|(r, p)| (r, Some(p))),
                        Api::ColdSingle => te.engine.cold_tier().knn_search_with_ef(&qv, *k, *ef).map(|r| (r, None)),
                        Api::ColdBatch => te.engine.cold_tier().knn_search_batch(&[qv.clone()], *k, *ef).map(|mut v| (v.remove(0), None)),
                    };
                    let (results, path) = match res {
                        Ok(x) => x,
                        Err(e) => return Err(Failure::new("valid_search_rejected", at(format!("search failed: {:#}", e)))),
                    };
                    if path == Some(SearchExecutionPath::Degraded) {
                        if *api == Api::TieredTimed && model.len() == 0 && recent.is_empty() {
                            rep.excluded.push("degraded_path_empty_db".into());
                        } else {
                            rep.excluded.push("degraded_path".into());
                        }
                        continue;
                    }
                    if path == Some(SearchExecutionPath::CacheHit) {
                        if shared_scope.is_none() {
                            return Err(Failure::new("unexpected_cache_hit", at("fresh scope answered from the query cache".into())));
                        }
                        rep.label("answered_from_query_cache");
                    }
                    rep.count(&format!("path_{:?}", path), 1);
                    last_result = results.iter().map(|r| r.doc_id).collect();
                    judge(&results, &qv, *k, metric, &model, if tiered { Some((&recent, &te)) } else { None }).map_err(|mut f| {
                        f.msg = at(format!("[path {:?}] {}", path, f.msg));
                        f
                    })?;
                    let tomb_ratio = if slots > 0 { 1.0 - (model.len() as f64 / slots.max(model.len()) as f64) } else { 0.0 };
                    if !results.is_empty() && (churn || cfg.dim % 8 != 0 || tomb_ratio >= 0.5) {
                        rep.nontrivial = true;
                    }
                    if tomb_ratio >= 0.5 {
                        rep.label("tombstones>=50%");
                    }
                    if tomb_ratio >= 0.9 {
                        rep.label("tombstones>=90%");
                    }
                    rep.label(&format!("metric={:?}", metric));
                    rep.label(&format!("dim%16={}", cfg.dim % 16));
                    if *k >= 100 {
                        rep.label("k>=100");
                    }
                }
            }
        }
        Ok(rep)
    }
}

impl C06 {
    #[allow(clippy::too_many_arguments)]
    fn put(
        &self,
        te: &Tiered,
        model: &mut Model,
        recent: &mut BTreeSet<u64>,
        churn: &mut bool,
        slots: &mut usize,
        cfg: &TieredCfg,
        id: u64,
        v: &[f32],
        _single: bool,
        rep: &mut CaseReport,
    ) -> Result<(), Failure> {
        let hot_before = te.engine.hot_tier().len();
        match te.engine.insert(id, v.to_vec(), meta_to_hash(&Meta::new())) {
            Ok(()) => {
                if hot_before >= cfg.hot_hard {
                    recent.clear(); // emergency drain
                    rep.label("emergency_drain");
                }
                let stored = te.engine.cold_tier().fetch_document(id).ok_or_else(|| Failure::new("ack_not_visible", format!("insert({}) not visible", id)))?;
                if model.contains(id) {
                    *churn = true;
                }
                model.put(id, bits_of(&stored), Meta::new());
                recent.insert(id);
                if *slots >= cfg.capacity {
                    *slots = model.len(); // tombstone compaction must have happened
                    rep.label("tombstone_compaction");
                } else {
                    *slots += 1;
                }
                Ok(())
            }
            Err(e) => {
                let msg = format!("{:#}", e);
                if msg.contains("HNSW index full") && model.len() >= cfg.capacity {
                    rep.label("insert_refused_full");
                    Ok(())
                } else {
                    Err(Failure::new("valid_insert_rejected", format!("insert({}): {}", id, msg)))
                }
            }
        }
    }

    fn adopt_after_bulk(&self, te: &Tiered, model: &mut Model, recent: &mut BTreeSet<u64>, churn: &mut bool, id: u64, _input: &[f32]) {
        if let Some(stored) = te.engine.cold_tier().fetch_document(id) {
            let bits = bits_of(&stored);
            if model.get(id).map(|d| &d.bits) != Some(&bits) {
                if model.contains(id) {
                    *churn = true;
                }
                model.put(id, bits, Meta::new());
            }
            // the bulk path bypasses the recent-write tier: a previous mirror entry is stale
            recent.remove(&id);
        }
    }
}

fn ref_distances(metric: Metric, q: &[f32], stored: &[f32]) -> (f64, f64) {
    match metric {
        Metric::Euclidean => {
            let d = q.iter().zip(stored).map(|(a, b)| (*a as f64 - *b as f64).powi(2)).sum::<f64>().sqrt();
            (d, d)
        }
        _ => {
            let qn = normalise_query_f64(q);
            let dot: f64 = qn.iter().zip(stored).map(|(a, b)| a * (*b as f64)).sum();
            let d_dot = (1.0 - dot).max(0.0);
            let nq: f64 = q.iter().map(|a| (*a as f64).powi(2)).sum::<f64>().sqrt();
            let nv: f64 = stored.iter().map(|a| (*a as f64).powi(2)).sum::<f64>().sqrt();
            let raw: f64 = q.iter().zip(stored).map(|(a, b)| *a as f64 * *b as f64).sum();
            let d_cos = 1.0 - (raw / (nq * nv)).clamp(-1.0, 1.0);
            (d_dot, d_cos)
        }
    }
}

fn tol(d: f64) -> f64 {
    2e-4 + 2e-4 * d.abs()
}

/// Validity predicate (ANN admits many correct outputs) + completeness for recent writes.
pub fn judge(
    results: &[SearchResult],
    q: &[f32],
    k: usize,
    metric: Metric,
    model: &Model,
    recent: Option<(&BTreeSet<u64>, &Tiered)>,
) -> Result<(), Failure> {
    if results.len() > k {
        return Err(Failure::new("more_than_k", format!("{} results for k={}", results.len(), k)));
    }
    let mut seen = BTreeSet::new();
    let mut prev = f32::NEG_INFINITY;
    for (pos, r) in results.iter().enumerate() {
        if !seen.insert(r.doc_id) {
            return Err(Failure::new("duplicate_id", format!("id {} appears twice in one result", r.doc_id)));
        }
        let Some(doc) = model.get(r.doc_id) else {
            return Err(Failure::new("dead_document_in_result", format!("result contains id {} which does not exist (deleted or never written)", r.doc_id))
                .with_sig(json!({"kind": "dead_document_in_result"})));
        };
        if !(r.distance >= prev) {
            return Err(Failure::new("not_sorted", format!("distance at position {} is {} after {}", pos, r.distance, prev)));
        }
        prev = r.distance;
        let stored = doc.vec_f32();
        let (a, b) = ref_distances(metric, q, &stored);
        let got = r.distance as f64;
        if !((got - a).abs() <= tol(a) || (got - b).abs() <= tol(b)) {
            return Err(Failure::new(
                "wrong_distance",
                format!("id {} reported distance {} but the distance to its current vector is {} (cosine form {}) under {:?}", r.doc_id, got, a, b, metric),
            )
            .with_sig(json!({"kind": "wrong_distance", "metric": format!("{:?}", metric)})));
        }
    }
    if let Some((recent, te)) = recent {
        let kth = if results.len() >= k { results.last().map(|r| r.distance as f64) } else { None };
        for id in recent {
            if seen.contains(id) || !te.engine.hot_tier().exists(*id) {
                continue;
            }
            let Some(doc) = model.get(*id) else { continue };
            let (a, b) = ref_distances(metric, q, &doc.vec_f32());
            let d = a.max(b);
            // The property constrains results "in which it is strictly closer than the k-th
            // returned document": a result with fewer than k entries has no k-th document and
            // is not judged for completeness (counted by the caller as excluded).
            let must = match kth {
                None => false,
                Some(kd) => d < kd - tol(kd) - tol(d),
            };
            if must {
                if std::env::var("KVH_DEBUG_C06").is_ok() {
                    eprintln!("DEBUG results: {:?}", results.iter().map(|r| (r.doc_id, r.distance)).collect::<Vec<_>>());
                    eprintln!("DEBUG hot knn top5: {:?}", te.engine.hot_tier().knn_search(q, 5));
                    eprintln!("DEBUG cold knn top3: {:?}", te.engine.cold_tier().knn_search(q, 3).map(|v| v.iter().map(|r| (r.doc_id, r.distance)).collect::<Vec<_>>()));
                    eprintln!("DEBUG hot len {} query {:?} doc {:?}", te.engine.hot_tier().len(), q, doc.vec_f32());
                    eprintln!("DEBUG sync search: {:?}", te.engine.knn_search_with_ef_detailed_scoped(q, k, None, 987654).map(|(r, p)| (r.iter().map(|x| (x.doc_id, x.distance)).collect::<Vec<_>>(), p)));
                    for id in [82u64, 208] {
                        eprintln!("DEBUG id {} hot token {:?} cold token {:?} exists {}", id, te.engine.hot_tier().peek_with_coherence(id).map(|x| x.1), te.engine.cold_tier().current_coherence_token(id), te.engine.cold_tier().exists(id));
                    }
                    te.qcache.clear();
                    eprintln!("DEBUG batch search scope 0 after clear: {:?}", te.engine.knn_search_batch_with_ef_detailed_scoped(&[q.to_vec(), q.to_vec()], k, None, 0).map(|v| v.iter().map(|(r, p)| (r.iter().map(|x| (x.doc_id, x.distance)).collect::<Vec<_>>(), *p)).collect::<Vec<_>>()));
                    eprintln!("DEBUG batch search: {:?}", te.engine.knn_search_batch_with_ef_detailed_scoped(&[q.to_vec(), q.to_vec()], k, None, 987655).map(|v| v.iter().map(|(r, p)| (r.iter().map(|x| (x.doc_id, x.distance)).collect::<Vec<_>>(), *p)).collect::<Vec<_>>()));
                }
                return Err(Failure::new(
                    "recent_write_missing",
                    format!("id {} is acknowledged, still in the recent-write tier, at distance {} but missing from a result with {} entries (k={}, k-th distance {:?})", id, d, results.len(), k, kth),
                ));
            }
        }
    }
    Ok(())
}

fn sop_short(op: &SOp) -> String {
    match op {
        SOp::Insert { id, .. } => format!("insert({})", id),
        SOp::InsertMany { start, n, bulk, .. } => format!("insert_many(start={}, n={}, bulk={})", start, n, bulk),
        SOp::InsertDup { id, of } => format!("insert_dup({}, of={})", id, of),
        SOp::Delete { id } => format!("delete({})", id),
        SOp::DeleteMany { percent, .. } => format!("delete_many({}%)", percent),
        SOp::Flush => "flush".into(),
        SOp::Restart => "restart".into(),
        SOp::OverwriteResult { pos, .. } => format!("overwrite_result(pos={})", pos),
        SOp::Search { api, k, ef, shared_scope, .. } => format!("search({:?}, k={}, ef={:?}, scope={:?})", api, k, ef, shared_scope),
    }
}

pub fn main(ctx: &Ctx) {
    ctx.assume("distance tolerance 2e-4 + 2e-4*|d| against f64 reference; for Cosine/InnerProduct either max(0,1-dot(q_n,v)) or 1-cos(q,v) is accepted (the engine's documented normalisation band makes them differ by <= ~1 %)");
    ctx.assume("timeouts configured at 30 s so no response is produced under degradation; a Degraded path is excluded, not judged");
    run_committed_replays(ctx, &C06);
    run_pbt(ctx, &C06, ctx.tier.pick(10_000, 200_000));
}

pub fn replay(ctx: &Ctx, v: &serde_json::Value) -> Option<i32> {
    replay_file(ctx, &C06, v)
}
