//! C04 — lookups by id return the canonical latest version whatever the caches hold.
//! See `tiered_hist.rs` for the history language, pokes and the read-sweep oracle.

use super::tiered_hist::*;
use crate::common::runner::*;

pub struct C04;

impl Prop for C04 {
    type Case = TCase;
    fn part(&self) -> &'static str {
        "history"
    }
    fn shape(&self, tier: Tier) -> RawShape {
        RawShape { head_len: 16, chunk_len: 36, min_chunks: 4, max_chunks: tier.pick(60, 120) }
    }
    fn rule(&self) -> String {
        "tiered history (writes, deletes, metadata updates, bulk loads, drains, background ticks, restarts, adversarial cache/mirror pokes) with generated read sweeps over all 7 read flavours; non-trivial = a read served from the document cache or the recent-write tier for an id that was overwritten / deleted / bulk-loaded / poked before, or after an emergency drain; distinct = hash of decoded case".into()
    }
    fn decode(&self, raw: &Raw, _tier: Tier) -> TCase {
        decode_case(raw, Mode::C04)
    }
    fn run(&self, case: &TCase, env: &CaseEnv) -> Result<CaseReport, Failure> {
        run_case(case, Mode::C04, env)
    }
}

pub fn main(ctx: &Ctx) {
    ctx.assume("sequential histories only (concurrency is C05); a planted hot-only orphan may be repaired into the canonical store by a drain (documented) and is then adopted by the model, counted under excluded");
    run_committed_replays(ctx, &C04);
    run_pbt(ctx, &C04, ctx.tier.pick(100_000, 2_000_000));
}

pub fn replay(ctx: &Ctx, v: &serde_json::Value) -> Option<i32> {
    replay_file(ctx, &C04, v)
}
