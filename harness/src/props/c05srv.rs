//! C05, server part — the gRPC read handlers under a concurrent overwriter.
//!
//! One writer client overwrites ONE id sequentially; every write carries its version both in the
//! vector (lane 1) and in the metadata (key "v").  One or two reader clients run Query (with the
//! embedding) or BulkQuery (with embeddings) on that id at the same time.  Optional: a flusher
//! client draining the recent-write tier.
//!
//! Oracle per completed read (single writer => versions are totally ordered):
//!   * pairing: the vector's version == the metadata's version (one read, one write);
//!   * not stale: version >= the last version whose write was acknowledged before the read began;
//!   * not from the future: version <= the last version whose write had been sent when the read
//!     returned.
//! The interleaving is the OS's (real server, real sockets); the oracle cannot fail on a
//! linearizable server whatever the timing.  A clean pass is weaker evidence than the engine-level
//! schedule enumeration of the other parts; a failure is a real history.

use crate::common::runner::*;
use crate::common::srv::{with_key, Server, SrvCfg};
use crate::common::tape::Tape;
use kyrodb_engine::proto as pb;
use serde::{Deserialize, Serialize};
use serde_json::json;
use std::sync::atomic::{AtomicBool, AtomicU32, Ordering};

#[derive(Clone, Copy, Debug, Serialize, Deserialize, PartialEq, Eq)]
pub enum Reader {
    Query,
    BulkQuery,
}

#[derive(Clone, Debug, Serialize, Deserialize)]
pub struct Case {
    pub writes: u32,
    pub readers: Vec<Reader>,
    /// a flusher client calls FlushHotTier(force) in a loop
    pub flusher: bool,
    pub cosine: bool,
    /// every n-th operation of the writer is a Delete instead of an overwrite (0 = never)
    #[serde(default)]
    pub delete_every: u32,
    /// every n-th operation (that is not a delete) is an UpdateMetadata(replace) carrying the
    /// operation number as the new metadata version; the vector stays (0 = never)
    #[serde(default)]
    pub update_every: u32,
}

pub struct C05Srv;

const ID: u64 = 3;

fn vec_for(ver: u32, cosine: bool) -> Vec<f32> {
    if cosine {
        // direction encodes the version: (cos t, sin t, 0, 0) with t = ver * 1e-3 (< pi/2 for ver < 1500)
        let t = ver as f32 * 1e-3;
        vec![t.cos(), t.sin(), 0.0, 0.0]
    } else {
        vec![1.0, ver as f32, 0.5, 1.0]
    }
}

fn ver_of(v: &[f32], cosine: bool) -> Option<u32> {
    if v.len() != 4 {
        return None;
    }
    if cosine {
        let t = v[1].atan2(v[0]);
        Some((t / 1e-3).round() as u32)
    } else {
        Some(v[1].round() as u32)
    }
}

fn is_delete(case: &Case, op: u32) -> bool {
    case.delete_every > 0 && op % case.delete_every == 0
}

fn is_update(case: &Case, op: u32) -> bool {
    !is_delete(case, op) && case.update_every > 0 && op % case.update_every == 0
}

/// state after each operation of the single sequential writer: None = absent, Some((vector
/// version, metadata version)); index 0 = before the first operation
fn states(case: &Case) -> Vec<Option<(u32, u32)>> {
    let mut st = vec![None];
    for j in 1..=case.writes {
        let prev: Option<(u32, u32)> = *st.last().unwrap();
        st.push(if is_delete(case, j) {
            None
        } else if is_update(case, j) {
            prev.map(|(v, _)| (v, j))
        } else {
            Some((j, j))
        });
    }
    st
}

#[derive(Debug)]
struct Obs {
    kind: Reader,
    acked_before: u32,
    sent_after: u32,
    found: bool,
    vec_ver: Option<u32>,
    meta_ver: Option<u32>,
}

impl Prop for C05Srv {
    type Case = Case;
    fn part(&self) -> &'static str {
        "server_reads"
    }
    fn shape(&self, _tier: Tier) -> RawShape {
        RawShape { head_len: 12, chunk_len: 1, min_chunks: 0, max_chunks: 0 }
    }
    fn max_shrink_iters(&self) -> u32 {
        4
    }
    fn rule(&self) -> String {
        "real server; one writer client running 150-600 sequential operations on one id (overwrites with the version in vector and metadata; every 2nd/3rd/7th operation a delete in 3 cases of 5, every 2nd/3rd/5th remaining one a metadata-only update in 3 of 5) against 1-2 reader clients (Query / BulkQuery with embeddings), optional flusher client; non-trivial = at least 20 reads completed while the writer was running and at least two distinct versions were observed; distinct = hash of decoded case".into()
    }
    fn decode(&self, raw: &Raw, _tier: Tier) -> Case {
        let mut t = Tape::new(&raw.head);
        let writes = t.pick(&[150u32, 300, 600]);
        let mut readers = vec![t.pick(&[Reader::Query, Reader::Query, Reader::BulkQuery])];
        if t.chance(128) {
            readers.push(t.pick(&[Reader::Query, Reader::BulkQuery]));
        }
        let flusher = t.chance(96);
        let cosine = t.chance(64);
        let delete_every = t.pick(&[0u32, 0, 2, 3, 7]);
        let update_every = t.pick(&[0u32, 0, 2, 3, 5]);
        Case { writes, readers, flusher, cosine, delete_every, update_every }
    }

    fn run(&self, case: &Case, env: &CaseEnv) -> Result<CaseReport, Failure> {
        let shard = super::c10::SHARD.with(|s| *s);
        let mut rep = CaseReport::default();
        let cfg = SrvCfg::default_for(4, if case.cosine { "cosine" } else { "euclidean" }, false, 1_000_000);
        let mut srv = Server::new(cfg, &env.dir("srv"), shard);
        srv.start().map_err(|e| Failure::new("setup_failed", e))?;
        let port = srv.port;
        let acked = AtomicU32::new(0);
        let sent = AtomicU32::new(0);
        let done = AtomicBool::new(false);
        let cosine = case.cosine;
        let connect = move || async move {
            let ep = tonic::transport::Endpoint::from_shared(format!("http://127.0.0.1:{}", port)).unwrap().timeout(std::time::Duration::from_secs(20));
            ep.connect().await.map(kyrodb_engine::proto::kyro_db_service_client::KyroDbServiceClient::new).map_err(|e| e.to_string())
        };
        let (werr, all_obs): (Option<String>, Vec<Obs>) = std::thread::scope(|sc| {
            let writer = sc.spawn(|| {
                let rt = tokio::runtime::Builder::new_current_thread().enable_all().build().unwrap();
                let r = rt.block_on(async {
                    let mut c = connect().await?;
                    for ver in 1..=case.writes {
                        let mut metadata = std::collections::HashMap::new();
                        metadata.insert("v".to_string(), ver.to_string());
                        sent.store(ver, Ordering::SeqCst);
                        if is_delete(case, ver) {
                            match c.delete(with_key(pb::DeleteRequest { doc_id: ID, namespace: String::new() }, None)).await {
                                Ok(_) => acked.store(ver, Ordering::SeqCst),
                                Err(s) => return Err(format!("delete {} failed: {:?} {}", ver, s.code(), s.message())),
                            }
                            continue;
                        }
                        if is_update(case, ver) {
                            match c.update_metadata(with_key(pb::UpdateMetadataRequest { doc_id: ID, metadata, merge: false, namespace: String::new() }, None)).await {
                                Ok(_) => acked.store(ver, Ordering::SeqCst),
                                Err(s) => return Err(format!("metadata update {} failed: {:?} {}", ver, s.code(), s.message())),
                            }
                            continue;
                        }
                        let r = c.insert(with_key(pb::InsertRequest { doc_id: ID, embedding: vec_for(ver, cosine), metadata, namespace: String::new() }, None)).await;
                        match r {
                            Ok(x) if x.get_ref().success => acked.store(ver, Ordering::SeqCst),
                            Ok(x) => return Err(format!("write {} refused: {}", ver, x.get_ref().error)),
                            Err(s) => return Err(format!("write {} failed: {:?} {}", ver, s.code(), s.message())),
                        }
                    }
                    Ok::<(), String>(())
                });
                done.store(true, Ordering::SeqCst);
                drop(rt);
                r.err()
            });
            let flusher = case.flusher.then(|| {
                sc.spawn(|| {
                    let rt = tokio::runtime::Builder::new_current_thread().enable_all().build().unwrap();
                    rt.block_on(async {
                        let Ok(mut c) = connect().await else { return };
                        while !done.load(Ordering::SeqCst) {
                            let _ = c.flush_hot_tier(with_key(pb::FlushRequest { force: true }, None)).await;
                        }
                    });
                    drop(rt);
                })
            });
            let readers: Vec<_> = case
                .readers
                .iter()
                .map(|kind| {
                    let kind = *kind;
                    let (acked, sent, done) = (&acked, &sent, &done);
                    sc.spawn(move || {
                        let rt = tokio::runtime::Builder::new_current_thread().enable_all().build().unwrap();
                        let obs = rt.block_on(async {
                            let mut out: Vec<Obs> = vec![];
                            let Ok(mut c) = connect().await else { return out };
                            // wait for the first acknowledged write
                            while acked.load(Ordering::SeqCst) == 0 && !done.load(Ordering::SeqCst) {
                                tokio::task::yield_now().await;
                            }
                            while !done.load(Ordering::SeqCst) && out.len() < 20_000 {
                                let acked_before = acked.load(Ordering::SeqCst);
                                let (found, vec, meta): (bool, Vec<f32>, Option<String>) = match kind {
                                    Reader::Query => match c.query(with_key(pb::QueryRequest { doc_id: ID, include_embedding: true, namespace: String::new() }, None)).await {
                                        Ok(x) => {
                                            let x = x.into_inner();
                                            (x.found, x.embedding, x.metadata.get("v").cloned())
                                        }
                                        Err(_) => continue,
                                    },
                                    Reader::BulkQuery => match c.bulk_query(with_key(pb::BulkQueryRequest { doc_ids: vec![ID], include_embeddings: true, namespace: String::new() }, None)).await {
                                        Ok(x) => match x.into_inner().results.into_iter().next() {
                                            Some(q) => (q.found, q.embedding, q.metadata.get("v").cloned()),
                                            None => continue,
                                        },
                                        Err(_) => continue,
                                    },
                                };
                                let sent_after = sent.load(Ordering::SeqCst);
                                out.push(Obs { kind, acked_before, sent_after, found, vec_ver: ver_of(&vec, cosine), meta_ver: meta.and_then(|s| s.parse().ok()) });
                            }
                            out
                        });
                        drop(rt);
                        obs
                    })
                })
                .collect();
            let werr = writer.join().unwrap_or(Some("writer thread panicked".into()));
            if let Some(f) = flusher {
                let _ = f.join();
            }
            let mut all = vec![];
            for r in readers {
                if let Ok(o) = r.join() {
                    all.extend(o);
                }
            }
            (werr, all)
        });
        srv.stop_kill();
        if let Some(e) = werr {
            return Err(Failure::new("setup_failed", format!("(writer could not complete, not judged) {}", e)));
        }
        let mut versions = std::collections::BTreeSet::new();
        let mut absent_seen = 0u64;
        let st = states(case);
        for o in &all_obs {
            let ctx = |msg: &str| format!("{:?} read (began after write {} was acknowledged, returned after write {} was sent): {}", o.kind, o.acked_before, o.sent_after, msg);
            // single sequential writer: a read overlapping operations acked_before+1 ..= sent_after
            // may return the state after any operation j in acked_before ..= sent_after
            let lo = o.acked_before as usize;
            let hi = (o.sent_after as usize).min(st.len() - 1);
            let observed: Option<(u32, u32)> = if o.found {
                match (o.vec_ver, o.meta_ver) {
                    (Some(v), Some(m)) => Some((v, m)),
                    _ => return Err(Failure::new("read_returns_unwritten_value", ctx(&format!("vector version {:?}, metadata version {:?}", o.vec_ver, o.meta_ver))).with_sig(json!({"kind": "read_returns_unwritten_value", "level": "server"}))),
                }
            } else {
                None
            };
            if !st[lo..=hi].contains(&observed) {
                let rpc = format!("{:?}", o.kind);
                return Err(match observed {
                    None => Failure::new("read_misses_live_document", ctx("found=false although the document exists after every operation in that window")).with_sig(json!({"kind": "read_misses_live_document", "level": "server", "rpc": rpc})),
                    Some((v, m)) if !st.contains(&observed) => {
                        Failure::new("torn_read", ctx(&format!("the vector is the one of write {}, the metadata the one of operation {}; no operation of the writer ever produced that pair", v, m))).with_sig(json!({"kind": "torn_read", "level": "server", "rpc": rpc}))
                    }
                    Some((v, m)) if st[..lo].contains(&observed) => Failure::new("stale_read", ctx(&format!("returned (vector {}, metadata {}), a state that had been replaced before the read began", v, m))).with_sig(json!({"kind": "stale_read", "level": "server", "rpc": rpc})),
                    Some((v, m)) => Failure::new("read_returns_unwritten_value", ctx(&format!("returned (vector {}, metadata {}), a state produced only by an operation that had not been sent", v, m))).with_sig(json!({"kind": "read_returns_unwritten_value", "level": "server"})),
                });
            }
            let Some((vv, _)) = observed else {
                absent_seen += 1;
                continue;
            };
            versions.insert(vv);
        }
        rep.count("reads_during_writes", all_obs.len() as u64);
        rep.count("reads_answering_absent_inside_a_delete_window", absent_seen);
        if case.delete_every > 0 {
            rep.label("writer_with_deletes");
        }
        if case.update_every > 0 {
            rep.label("writer_with_metadata_updates");
        }
        rep.count("distinct_versions_observed", versions.len() as u64);
        if all_obs.len() >= 20 && versions.len() >= 2 {
            rep.nontrivial = true;
        }
        for k in &case.readers {
            rep.label(&format!("reader_{:?}", k));
        }
        if case.flusher {
            rep.label("with_flusher");
        }
        Ok(rep)
    }
}
