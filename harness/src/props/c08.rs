//! C08 — no interleaving of concurrent API calls can deadlock.
//!
//! Part `pairs` (exhaustive at preemption bound 1): every ORDERED pair of operations from the
//! catalogue below x every scheduling decision of the non-preemptive run at which another
//! thread could be chosen; forced switches at blocking points are free, so the classic
//! lock-order inversion (T0 takes A, preempted, T1 takes B and blocks on A, T0 blocks on B) is
//! inside the bound.  Part `schedules` (generated): 2-3 threads x 1-3 operations each x 1-4
//! generated preemptions on several engine configurations (cache strategy, tiny hot tier,
//! snapshot interval, rotation).
//! Oracle: the run ends with every thread finished.  A state in which no thread can run is
//! confirmed with the real blocking lock primitives before it is reported (see sched.rs).

use crate::common::gens::Metric;
use crate::common::runner::*;
use crate::common::sched::{self, Outcome, Program};
use crate::common::tape::Tape;
use crate::common::tiered::{Strat, Tiered, TieredCfg};
use kyrodb_engine::proto as pb;
use serde::{Deserialize, Serialize};
use serde_json::json;
use std::collections::HashMap;
use std::sync::Arc;

#[derive(Clone, Copy, Debug, PartialEq, Eq, Serialize, Deserialize)]
pub enum OpK {
    InsertNew,
    Overwrite,
    OverwriteCold,
    Delete,
    DeleteCold,
    PointRead,
    ReadWithMeta,
    BulkRead,
    Search,
    SearchCachedRepeat,
    SearchBatch,
    UpdateMeta,
    Drain,
    Snapshot,
    Stats,
    BatchDelete,
    FilterDelete,
    BulkLoad,
    Exists,
    FilterIds,
    HotStats,
    CacheStats,
    /// filter the index cannot compile (NOT without operand): the scan fall-back path
    FilterIdsUncompilable,
    FilterDeleteUncompilable,
}

pub const CATALOGUE: &[OpK] = &[
    OpK::InsertNew,
    OpK::Overwrite,
    OpK::OverwriteCold,
    OpK::Delete,
    OpK::DeleteCold,
    OpK::PointRead,
    OpK::ReadWithMeta,
    OpK::BulkRead,
    OpK::Search,
    OpK::SearchCachedRepeat,
    OpK::SearchBatch,
    OpK::UpdateMeta,
    OpK::Drain,
    OpK::Snapshot,
    OpK::Stats,
    OpK::BatchDelete,
    OpK::FilterDelete,
    OpK::BulkLoad,
    OpK::Exists,
    OpK::FilterIds,
    OpK::HotStats,
    OpK::CacheStats,
    OpK::FilterIdsUncompilable,
    OpK::FilterDeleteUncompilable,
];

#[derive(Clone, Debug, Serialize, Deserialize)]
pub struct Case {
    pub strat: Strat,
    /// 0: roomy hot tier, 1: hot tier at its hard limit (inserts drain), 2: tiny index capacity
    pub shape: u8,
    pub threads: Vec<Vec<OpK>>,
    pub plan: Vec<(u32, u8)>,
    /// plan steps are fractions (x/65536 of the non-preemptive decision count) instead of absolute
    #[serde(default)]
    pub relative: bool,
    /// after running `plan`, also run every plan that adds ONE more preemption at a later
    /// decision (complete enumeration at preemption bound |plan|+1 below this prefix)
    #[serde(default)]
    pub expand: bool,
}

fn vecf(i: u64) -> Vec<f32> {
    let a = i as f32;
    vec![1.0 + a, 0.5 * a, 0.25, 1.0]
}

fn meta(i: u64, v: u64) -> HashMap<String, String> {
    let mut m = HashMap::new();
    m.insert("g".into(), (i % 2).to_string());
    m.insert("v".into(), v.to_string());
    m
}

pub fn cfg_for(strat: Strat, shape: u8) -> TieredCfg {
    TieredCfg {
        metric: Metric::Euclidean,
        dim: 4,
        strat,
        l1a_cap: 3,
        qcache_cap: 3,
        qcache_sim: 1.0,
        hot_soft: if shape == 1 { 2 } else { 6 },
        hot_hard: if shape == 1 { 5 } else { 64 },
        capacity: if shape == 2 { 14 } else { 256 },
        ef_search: 32,
        persist: true,
        snapshot_interval: 3,
        rotate_bytes: 300,
    }
}

/// Engine with documents 1..=8: 1-4 drained to the cold tier only, 5-8 still mirrored in the
/// recent-write tier; one cached search; built single-threaded and uncontrolled.
pub fn build(cfg: &TieredCfg, dir: &std::path::Path) -> Result<Tiered, Failure> {
    let pool: Vec<u64> = (1..=12).collect();
    let t = Tiered::build(cfg, Some(dir), &pool).map_err(|e| Failure::new("setup_failed", format!("{:#}", e)))?;
    let e = &t.engine;
    for i in 1..=4u64 {
        e.insert(i, vecf(i), meta(i, 0)).map_err(|x| Failure::new("setup_failed", format!("{:#}", x)))?;
    }
    e.flush_hot_tier(true).map_err(|x| Failure::new("setup_failed", format!("{:#}", x)))?;
    for i in 5..=8u64 {
        e.insert(i, vecf(i), meta(i, 0)).map_err(|x| Failure::new("setup_failed", format!("{:#}", x)))?;
    }
    let _ = e.knn_search(&vecf(2), 3);
    let _ = e.query(1, Some(&vecf(1)));
    Ok(t)
}

pub fn apply(e: &kyrodb_engine::TieredEngine, op: OpK, tid: usize, n: usize) {
    // distinct fresh ids per (thread, position); shared existing ids to collide on
    let fresh = 20 + (tid as u64) * 10 + n as u64;
    match op {
        OpK::InsertNew => {
            let _ = e.insert(fresh, vecf(fresh), meta(fresh, 1));
        }
        OpK::Overwrite => {
            let _ = e.insert(6, vecf(60 + tid as u64), meta(6, 10 + tid as u64));
        }
        OpK::OverwriteCold => {
            let _ = e.insert(2, vecf(70 + tid as u64), meta(2, 10 + tid as u64));
        }
        OpK::Delete => {
            let _ = e.delete(6);
        }
        OpK::DeleteCold => {
            let _ = e.delete(2);
        }
        OpK::PointRead => {
            let _ = e.query(6, Some(&vecf(6)));
            let _ = e.query(2, None);
        }
        OpK::ReadWithMeta => {
            let _ = e.get_document_with_metadata(6);
            let _ = e.get_document_with_metadata(2);
        }
        OpK::BulkRead => {
            let _ = e.bulk_query_with_source(&[1, 2, 6, 7, 99], true);
        }
        OpK::Search => {
            let _ = e.knn_search(&vecf(3 + tid as u64), 3);
        }
        OpK::SearchCachedRepeat => {
            let _ = e.knn_search(&vecf(2), 3);
        }
        OpK::SearchBatch => {
            let _ = e.knn_search_batch_with_ef(&[vecf(2), vecf(9)], 2, Some(16));
        }
        OpK::UpdateMeta => {
            let _ = e.update_metadata(6, meta(6, 30 + tid as u64), tid % 2 == 0);
            let _ = e.update_metadata(2, meta(2, 30 + tid as u64), true);
        }
        OpK::Drain => {
            let _ = e.flush_hot_tier(true);
        }
        OpK::Snapshot => {
            let _ = e.cold_tier().create_snapshot();
        }
        OpK::Stats => {
            let _ = e.stats();
        }
        OpK::BatchDelete => {
            let _ = e.batch_delete(&[2, 6, 6, 99]);
        }
        OpK::FilterDelete => {
            let f = pb::MetadataFilter { filter_type: Some(pb::metadata_filter::FilterType::Exact(pb::ExactMatch { key: "g".into(), value: "1".into() })) };
            let _ = e.batch_delete_by_metadata_filter(&f);
        }
        OpK::BulkLoad => {
            let _ = e.bulk_load_cold_tier(vec![(fresh + 100, vecf(fresh), meta(fresh, 2)), (6, vecf(61), meta(6, 3))]);
        }
        OpK::Exists => {
            let _ = e.exists(6);
            let _ = e.get_metadata(2);
        }
        OpK::FilterIds => {
            let f = pb::MetadataFilter { filter_type: Some(pb::metadata_filter::FilterType::Exact(pb::ExactMatch { key: "g".into(), value: "0".into() })) };
            let _ = e.cold_tier().ids_for_metadata_filter(&f);
        }
        OpK::FilterIdsUncompilable => {
            let f = pb::MetadataFilter { filter_type: Some(pb::metadata_filter::FilterType::NotFilter(Box::new(pb::NotFilter { filter: None }))) };
            let _ = e.cold_tier().ids_for_metadata_filter(&f);
        }
        OpK::FilterDeleteUncompilable => {
            let f = pb::MetadataFilter { filter_type: Some(pb::metadata_filter::FilterType::OrFilter(pb::OrFilter { filters: vec![pb::MetadataFilter { filter_type: Some(pb::metadata_filter::FilterType::NotFilter(Box::new(pb::NotFilter { filter: None }))) }, pb::MetadataFilter { filter_type: Some(pb::metadata_filter::FilterType::Exact(pb::ExactMatch { key: "g".into(), value: "1".into() })) }] })) };
            let _ = e.batch_delete_by_metadata_filter(&f);
        }
        OpK::HotStats => {
            let _ = e.hot_tier().stats();
            let _ = e.hot_tier().len();
        }
        OpK::CacheStats => {
            let _ = e.cache_size();
            let _ = e.hsc_lifecycle_stats();
        }
    }
}

fn programs(engine: &Arc<kyrodb_engine::TieredEngine>, threads: &[Vec<OpK>]) -> Vec<Program> {
    threads
        .iter()
        .enumerate()
        .map(|(tid, ops)| {
            let e = Arc::clone(engine);
            let ops = ops.clone();
            let p: Program = Box::new(move |t| {
                for (n, op) in ops.iter().enumerate() {
                    t.label(&format!("{:?}", op));
                    apply(&e, *op, tid, n);
                    t.yield_now();
                }
            });
            p
        })
        .collect()
}

pub struct C08 {
    pub part_name: &'static str,
}

pub fn execute(case: &Case, env: &CaseEnv, tag: &str) -> Result<sched::RunOut, Failure> {
    let cfg = cfg_for(case.strat, case.shape);
    let mut plan = case.plan.clone();
    if case.relative {
        let t = build(&cfg, &env.dir(&format!("{}base", tag)))?;
        let base = sched::run(programs(&t.engine, &case.threads), &[]);
        let n = base.decisions.max(1) as u64;
        plan = case.plan.iter().map(|(f, a)| ((((*f as u64) * n) >> 16) as u32, *a)).collect();
        if let Outcome::Deadlock(_) | Outcome::Hang = base.outcome {
            return Ok(base);
        }
    }
    let t = build(&cfg, &env.dir(tag))?;
    Ok(sched::run(programs(&t.engine, &case.threads), &plan))
}

pub fn judge(case: &Case, out: &sched::RunOut, rep: &mut CaseReport, env: &CaseEnv) -> Result<(), Failure> {
    match &out.outcome {
        Outcome::Finished => {}
        Outcome::Hang => return Err(Failure::new("setup_failed", format!("run did not finish within the watchdog: {:?}", case))),
        Outcome::Deadlock(ws) => {
            let sites = sched::deadlock_sites(ws);
            let sig = json!({"kind": "deadlock", "sites": sites});
            if env.ctx.is_known(&sig) {
                rep.known_sigs.push(sig);
                return Ok(());
            }
            return Err(Failure::new("deadlock", format!("confirmed deadlock: {}", sched::describe_deadlock(ws))).with_sig(sig));
        }
    }
    if let Some((tid, msg)) = out.errors.iter().enumerate().find_map(|(i, e)| e.as_ref().map(|m| (i, m.clone()))) {
        return Err(Failure::new("panic_under_schedule", format!("thread {} panicked: {}", tid, msg)).with_sig(json!({"kind": "panic_under_schedule"})));
    }
    if out.unconfirmed {
        rep.excluded.push("deadlock_candidate_not_confirmed_by_real_locks".into());
    }
    Ok(())
}

impl Prop for C08 {
    type Case = Case;
    fn part(&self) -> &'static str {
        self.part_name
    }
    fn shape(&self, _tier: Tier) -> RawShape {
        RawShape { head_len: 16, chunk_len: 2, min_chunks: 2, max_chunks: 9 }
    }
    fn max_shrink_iters(&self) -> u32 {
        60
    }
    fn rule(&self) -> String {
        "pairs: every ordered pair of the 24-operation catalogue x every decision of the non-preemptive run with more than one runnable thread (complete at preemption bound 1); schedules: 2-3 threads x 1-3 operations x 1-4 generated preemptions x cache strategy x engine shape; non-trivial = the plan preempted at least once and both threads touched a common lock (some thread had to wait) or more than 20 decisions were taken; distinct = hash of decoded case".into()
    }
    fn decode(&self, raw: &Raw, _tier: Tier) -> Case {
        let mut t = Tape::new(&raw.head);
        let strat = t.pick(&[Strat::Lru, Strat::LearnedTrained, Strat::LearnedSemantic, Strat::AbTest, Strat::LearnedUntrained]);
        let shape = t.below(3) as u8;
        let nthreads = 2 + t.below(2);
        let npre = 1 + t.below(4);
        let mut plan: Vec<(u32, u8)> = (0..npre).map(|_| (t.u16() as u32, 1 + t.below(2) as u8)).collect();
        plan.sort();
        let mut threads: Vec<Vec<OpK>> = vec![vec![]; nthreads];
        for (i, c) in raw.chunks.iter().enumerate() {
            let mut t = Tape::new(c);
            threads[i % nthreads].push(CATALOGUE[t.below(CATALOGUE.len())]);
        }
        for th in threads.iter_mut() {
            if th.is_empty() {
                th.push(OpK::Stats);
            }
        }
        Case { strat, shape, threads, plan, relative: true, expand: false }
    }
    fn run(&self, case: &Case, env: &CaseEnv) -> Result<CaseReport, Failure> {
        let mut rep = CaseReport::default();
        let out = execute(case, env, "r")?;
        judge(case, &out, &mut rep, env)?;
        rep.count("decisions", out.decisions as u64);
        rep.count("lock_order_edges", out.edges.len() as u64);
        if case.expand && !case.relative {
            let last = case.plan.iter().map(|(d, _)| *d).max().unwrap_or(0);
            for (d, (alts, me_ready)) in out.trace.iter().enumerate() {
                if (d as u32) > last && *alts > 1 && *me_ready {
                    let mut c = case.clone();
                    c.expand = false;
                    c.plan.push((d as u32, 1));
                    let o2 = execute(&c, env, "x")?;
                    let _ = std::fs::remove_dir_all(env.scratch_root().join("x"));
                    judge(&c, &o2, &mut rep, env).map_err(|mut f| {
                        f.msg = format!("[plan {:?}] {}", c.plan, f.msg);
                        f
                    })?;
                    rep.count("evaluations_judged", 1);
                    rep.count("decisions", o2.decisions as u64);
                }
            }
        }
        let waited = out.blocked_events > 0;
        rep.nontrivial = !case.plan.is_empty() && (waited || out.decisions > 20);
        if waited {
            rep.label("some_thread_waited");
        }
        Ok(rep)
    }
}

/// All single-preemption cases for every ordered pair (baseline pass first).
fn pair_cases(ctx: &Ctx, strats: &[Strat], shapes: &[u8], expand: bool) -> Vec<Case> {
    let mut combos = vec![];
    for (si, s) in strats.iter().enumerate() {
        for sh in shapes {
            let _ = si;
            for a in CATALOGUE {
                for b in CATALOGUE {
                    combos.push((*s, *sh, *a, *b));
                }
            }
        }
    }
    // plain worker threads, not rayon: the engine's batch search uses the global rayon pool
    // itself, and pool workers parked inside a controlled run would starve it
    let env = ctx.env(false);
    let next = std::sync::atomic::AtomicUsize::new(0);
    let out: std::sync::Mutex<Vec<(usize, Vec<Case>)>> = std::sync::Mutex::new(vec![]);
    std::thread::scope(|sc| {
        for _ in 0..ctx.threads.max(1) {
            sc.spawn(|| loop {
                let i = next.fetch_add(1, std::sync::atomic::Ordering::Relaxed);
                if i >= combos.len() {
                    break;
                }
                let (s, sh, a, b) = &combos[i];
                let base = Case { strat: *s, shape: *sh, threads: vec![vec![*a], vec![*b]], plan: vec![], relative: false, expand: false };
                let mut v = vec![base.clone()];
                if let Ok(o) = execute(&base, &env, &format!("base{}", i)) {
                    for (d, (alts, me_ready)) in o.trace.iter().enumerate() {
                        if *alts > 1 && *me_ready {
                            let mut c = base.clone();
                            c.plan = vec![(d as u32, 1)];
                            v.push(c);
                        }
                    }
                }
                let _ = std::fs::remove_dir_all(env.scratch_root().join(format!("base{}", i)));
                out.lock().unwrap().push((i, v));
            });
        }
    });
    let mut out = out.into_inner().unwrap();
    out.sort_by_key(|(i, _)| *i);
    let out: Vec<Vec<Case>> = out.into_iter().map(|(_, v)| v).collect();
    out.into_iter().flatten().collect()
}

pub fn main(ctx: &Ctx) {
    ctx.assume("scheduling points are lock acquisitions, releases and API-call boundaries (the granularity the property names); code between two lock operations runs un-interleaved");
    ctx.assume("the asynchronous timed search (tokio spawn_blocking workers) and rayon workers inside batch search are not controlled threads; they use the real locks");
    ctx.assume("a deadlock is reported only after every parked thread failed a real 150 ms timed acquisition at the same time");
    sched::install();
    run_committed_replays(ctx, &C08 { part_name: "pairs" });
    run_committed_replays(ctx, &C08 { part_name: "schedules" });
    let all: &[Strat] = &[Strat::Lru, Strat::LearnedTrained, Strat::LearnedSemantic, Strat::AbTest, Strat::LearnedUntrained];
    let cases = pair_cases(ctx, all, &[0, 1, 2], false);
    run_cases(ctx, &C08 { part_name: "pairs" }, "pairs", cases, true);
    if ctx.tier == Tier::Thorough {
        // complete at preemption bound 2 for two configurations
        let cases = pair_cases(ctx, &[Strat::LearnedTrained], &[0, 1], true);
        run_cases(ctx, &C08 { part_name: "pairs" }, "pairs_bound2", cases, true);
    }
    run_pbt(ctx, &C08 { part_name: "schedules" }, ctx.tier.pick(30_000, 600_000));
}

pub fn replay(ctx: &Ctx, v: &serde_json::Value) -> Option<i32> {
    sched::install();
    replay_file(ctx, &C08 { part_name: "pairs" }, v).or_else(|| replay_file(ctx, &C08 { part_name: "schedules" }, v))
}
