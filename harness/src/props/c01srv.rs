//! C01, server part — process kill of the real `kyrodb_server` at a generated instant while a
//! client streams writes and records the acknowledgements.
//!
//! Writer: sequential gRPC writes (insert with a unique version in vector and metadata, delete,
//! batch delete of two ids) on ids 1..6, each recorded as acknowledged when its response
//! arrives.  Killer: SIGKILL after a generated delay (or after a generated number of
//! acknowledgements).  Then the server is restarted in strict mode: start-up must succeed and,
//! per id, the recovered document must be the result of the acknowledged operations on that id
//! optionally followed by the single operation that was in flight (its response never arrived).
//! A second kill during the restart's first 0-30 ms followed by another restart must give the
//! same outcome.  The kill instant is real time (OS schedule); the oracle cannot fail on a
//! correct server whatever the instant.

use crate::common::runner::*;
use crate::common::srv::{with_key, Server, SrvCfg};
use crate::common::tape::Tape;
use kyrodb_engine::proto as pb;
use serde::{Deserialize, Serialize};
use serde_json::json;
use std::collections::BTreeMap;
use std::sync::atomic::{AtomicBool, AtomicUsize, Ordering};

#[derive(Clone, Debug, Serialize, Deserialize)]
pub enum W {
    Put { id: u64 },
    Del { id: u64 },
    BatchDel { a: u64, b: u64 },
}

#[derive(Clone, Debug, Serialize, Deserialize)]
pub struct Case {
    pub fsync: String,
    pub snapshot_interval: u64,
    pub max_wal: u64,
    pub writes: Vec<W>,
    /// kill after this many acknowledgements (then a further delay of `kill_us` microseconds)
    pub kill_after_acks: usize,
    pub kill_us: u64,
    /// second kill this many milliseconds into the restart (0 = none)
    pub kill_restart_ms: u64,
}

pub struct C01Srv;

fn cfg_for(case: &Case) -> SrvCfg {
    let mut c = SrvCfg::default_for(4, "euclidean", false, 1_000_000);
    c.snapshot_interval = case.snapshot_interval;
    c.max_wal_bytes = case.max_wal;
    c.fsync = match case.fsync.as_str() {
        "none" => "none",
        "full" => "full",
        _ => "data_only",
    };
    c
}

/// per id: None = absent, Some(version)
type State = BTreeMap<u64, u32>;

fn apply(st: &mut State, w: &W, ver: u32) {
    match w {
        W::Put { id } => {
            st.insert(*id, ver);
        }
        W::Del { id } => {
            st.remove(id);
        }
        W::BatchDel { a, b } => {
            st.remove(a);
            st.remove(b);
        }
    }
}

fn census(srv: &Server) -> Result<State, String> {
    let rt = tokio::runtime::Builder::new_current_thread().enable_all().build().map_err(|e| e.to_string())?;
    let out = rt.block_on(async {
        let mut c = srv.client().await?;
        let r = c.bulk_query(with_key(pb::BulkQueryRequest { doc_ids: (1..=6).collect(), include_embeddings: true, namespace: String::new() }, None)).await.map_err(|s| format!("census refused: {:?}", s.code()))?;
        let mut st = State::new();
        for q in &r.get_ref().results {
            if q.found {
                let mv: Option<u32> = q.metadata.get("v").and_then(|s| s.parse().ok());
                let vv: Option<u32> = q.embedding.get(1).map(|x| *x as u32);
                if mv.is_none() || mv != vv {
                    return Err(format!("id {}: vector version {:?} and metadata version {:?} do not belong to one write", q.doc_id, vv, mv));
                }
                st.insert(q.doc_id, mv.unwrap());
            }
        }
        Ok::<State, String>(st)
    });
    drop(rt);
    out
}

impl Prop for C01Srv {
    type Case = Case;
    fn part(&self) -> &'static str {
        "server_kill"
    }
    fn shape(&self, _tier: Tier) -> RawShape {
        RawShape { head_len: 12, chunk_len: 3, min_chunks: 8, max_chunks: 60 }
    }
    fn max_shrink_iters(&self) -> u32 {
        16
    }
    fn rule(&self) -> String {
        "8-60 sequential gRPC writes against the real server (fsync policy x snapshot interval {0,3,10} x rotation {300 B, 4 KiB, none}); SIGKILL after a generated number of acknowledgements plus 0-3000 us; optional second SIGKILL 1-30 ms into the restart; non-trivial = the kill landed while a request was in flight or after at least one acknowledged write with requests still outstanding; distinct = hash of decoded case".into()
    }
    fn decode(&self, raw: &Raw, _tier: Tier) -> Case {
        let mut t = Tape::new(&raw.head);
        let fsync = t.pick(&["data_only", "none", "full"]).to_string();
        let snapshot_interval = t.pick(&[3u64, 0, 10]);
        let max_wal = t.pick(&[300u64, 4096, 1 << 20]);
        let writes: Vec<W> = raw
            .chunks
            .iter()
            .map(|c| {
                let mut t = Tape::new(c);
                match t.weighted(&[10, 3, 1]) {
                    0 => W::Put { id: 1 + t.below(6) as u64 },
                    1 => W::Del { id: 1 + t.below(6) as u64 },
                    _ => W::BatchDel { a: 1 + t.below(6) as u64, b: 1 + t.below(6) as u64 },
                }
            })
            .collect();
        let kill_after_acks = t.below(writes.len().max(1));
        let kill_us = [0u64, 50, 150, 400, 1000, 3000][t.below(6)];
        let kill_restart_ms = if t.chance(96) { 1 + t.below(30) as u64 } else { 0 };
        Case { fsync, snapshot_interval, max_wal, writes, kill_after_acks, kill_us, kill_restart_ms }
    }

    fn run(&self, case: &Case, env: &CaseEnv) -> Result<CaseReport, Failure> {
        let shard = super::c10::SHARD.with(|s| *s);
        let mut rep = CaseReport::default();
        let mut srv = Server::new(cfg_for(case), &env.dir("srv"), shard);
        srv.start().map_err(|e| Failure::new("setup_failed", e))?;
        let pid = srv.child.as_ref().map(|c| c.id() as i32).unwrap_or(0);
        let acked = AtomicUsize::new(0);
        let killed = AtomicBool::new(false);
        let port = srv.port;
        // writer and killer
        let (n_acked, in_flight): (usize, Option<usize>) = std::thread::scope(|sc| {
            let killer = sc.spawn(|| {
                let t0 = std::time::Instant::now();
                while acked.load(Ordering::Acquire) < case.kill_after_acks && t0.elapsed().as_secs() < 20 {
                    std::hint::spin_loop();
                }
                let t1 = std::time::Instant::now();
                while (t1.elapsed().as_micros() as u64) < case.kill_us {
                    std::hint::spin_loop();
                }
                unsafe { libc::kill(pid, libc::SIGKILL) };
                killed.store(true, Ordering::Release);
            });
            let rt = tokio::runtime::Builder::new_current_thread().enable_all().build().unwrap();
            let res = rt.block_on(async {
                let ep = tonic::transport::Endpoint::from_shared(format!("http://127.0.0.1:{}", port)).unwrap().timeout(std::time::Duration::from_secs(10));
                let Ok(ch) = ep.connect().await else { return (0usize, None) };
                let mut c = kyrodb_engine::proto::kyro_db_service_client::KyroDbServiceClient::new(ch);
                for (i, w) in case.writes.iter().enumerate() {
                    let ver = i as u32 + 1;
                    let ok = match w {
                        W::Put { id } => {
                            let mut metadata = std::collections::HashMap::new();
                            metadata.insert("v".to_string(), ver.to_string());
                            c.insert(with_key(pb::InsertRequest { doc_id: *id, embedding: vec![*id as f32, ver as f32, 0.5, 1.0], metadata, namespace: String::new() }, None)).await.map(|r| r.get_ref().success).unwrap_or(false)
                        }
                        W::Del { id } => c.delete(with_key(pb::DeleteRequest { doc_id: *id, namespace: String::new() }, None)).await.is_ok(),
                        W::BatchDel { a, b } => c
                            .batch_delete(with_key(pb::BatchDeleteRequest { delete_criteria: Some(pb::batch_delete_request::DeleteCriteria::Ids(pb::IdList { doc_ids: vec![*a, *b] })), namespace: String::new() }, None))
                            .await
                            .is_ok(),
                    };
                    if !ok {
                        // the response never arrived (or an error after the kill): in flight
                        return (i, Some(i));
                    }
                    acked.store(i + 1, Ordering::Release);
                }
                (case.writes.len(), None)
            });
            drop(rt);
            let _ = killer.join();
            res
        });
        srv.stop_kill();
        if in_flight.is_some() || (n_acked > 0 && n_acked < case.writes.len()) {
            rep.nontrivial = true;
        }
        if in_flight.is_some() {
            rep.label("kill_with_request_in_flight");
        }
        // expected states: acknowledged prefix, optionally + the in-flight operation
        let mut want = State::new();
        for (i, w) in case.writes.iter().take(n_acked).enumerate() {
            apply(&mut want, w, i as u32 + 1);
        }
        let mut want2 = want.clone();
        if let Some(i) = in_flight {
            apply(&mut want2, &case.writes[i], i as u32 + 1);
        }
        // restart (optionally killed once more during start-up)
        if case.kill_restart_ms > 0 {
            let _ = srv.start_with_config(&srv.root.join("server.toml"), std::time::Duration::from_millis(case.kill_restart_ms));
            srv.stop_kill();
            rep.label("second_kill_during_restart");
        }
        if let Err(e) = srv.start() {
            if e.contains("did not open port") {
                return Err(Failure::new("setup_failed", format!("(start-up timed out, not judged) {}", e)));
            }
            return Err(Failure::new("restart_fails_after_kill", format!("strict start-up fails after SIGKILL ({} acknowledged, in flight {:?}): {}", n_acked, in_flight.map(|i| &case.writes[i]), e)).with_sig(json!({"kind": "restart_fails_after_kill", "level": "server"})));
        }
        let got = census(&srv).map_err(|e| Failure::new("torn_document_after_kill", e).with_sig(json!({"kind": "torn_document_after_kill"})))?;
        srv.stop_kill();
        // a batch delete in flight may be partially applied (known finding C01-F3)
        let partial_batch = matches!(in_flight.map(|i| &case.writes[i]), Some(W::BatchDel { .. })) && got != want && got != want2 && {
            let mut ok = false;
            if let Some(W::BatchDel { a, b }) = in_flight.map(|i| &case.writes[i]) {
                for one in [a, b] {
                    let mut w3 = want.clone();
                    w3.remove(one);
                    ok |= w3 == got;
                }
            }
            ok
        };
        if got != want && got != want2 {
            let sig = if partial_batch { json!({"kind": "crash_recovery_wrong_state", "during": "batch_delete", "partial_batch_applied": true}) } else { json!({"kind": "crash_recovery_wrong_state", "level": "server"}) };
            if env.ctx.is_known(&sig) {
                rep.known_sigs.push(sig);
                return Ok(rep);
            }
            return Err(Failure::new(
                "crash_recovery_wrong_state",
                format!("after SIGKILL and restart the server holds {:?}; acknowledged operations give {:?}{}", got, want, if in_flight.is_some() { format!(", with the in-flight operation {:?}", want2) } else { String::new() }),
            )
            .with_sig(sig));
        }
        rep.count("acknowledged_writes", n_acked as u64);
        Ok(rep)
    }
}
