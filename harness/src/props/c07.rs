//! C07 — the query-result cache never serves stale or foreign results (sequential part).
//!
//! Generated: a pool of query vectors (header), then a history of searches (scope, query, k,
//! API flavour) and writes on a TieredEngine whose query cache has capacity {1,2,16} and
//! similarity threshold 1.0; writes are *aimed* at the cached result's distance boundary
//! (relative offsets from 1e-6 to 1e-1 on both sides, energy in the lanes beyond the 32-lane
//! prefix) next to ordinary inserts, overwrites, deletes, metadata updates, bulk loads,
//! drains and stale-mirror pokes.
//! Oracle for every response whose path is `CacheHit`: see `judge_hit`.

use crate::common::gens::{meta_map, valid_vector, vector_of_class, FVec, Metric, VClass};
use crate::common::model::{bits_of, meta_to_hash, normalise_query_f64, Meta, Model};
use crate::common::runner::*;
use crate::common::tape::{Mix, Tape};
use crate::common::tiered::{Strat, Tiered, TieredCfg};
use kyrodb_engine::{SearchExecutionPath, SearchResult};
use serde::{Deserialize, Serialize};
use serde_json::json;
use std::collections::BTreeMap;

#[derive(Clone, Copy, Debug, PartialEq, Eq, Serialize, Deserialize)]
pub enum SApi {
    Sync,
    Batch,
    Timed,
}

#[derive(Clone, Debug, Serialize, Deserialize)]
pub enum QOp {
    Search { api: SApi, scope: u64, q: usize, k: usize },
    Insert { id: u64, vec: FVec },
    /// write a vector at reference distance worst*(1+rel) from query `q` where `worst` is the
    /// boundary of the last result observed for (scope, q); falls back to a random vector
    Aimed { id: u64, scope: u64, q: usize, rel: f32, tail_heavy: bool, seed: u32 },
    Delete { id: u64 },
    /// delete the document at position `pos` of the last result observed for (scope, q)
    DeleteCached { scope: u64, q: usize, pos: usize },
    /// overwrite (new vector) the document at position `pos` of the last result for (scope, q)
    OverwriteCached { scope: u64, q: usize, pos: usize, vec: FVec },
    UpdateMeta { id: u64, meta: Meta },
    BulkLoad { id: u64, vec: FVec },
    Flush,
    /// plant a stale mirror entry for `id` (forces the drift-repair path on the next search)
    PokeStaleMirror { id: u64 },
}

#[derive(Clone, Debug, Serialize, Deserialize)]
pub struct Case {
    pub cfg: TieredCfg,
    pub queries: Vec<FVec>,
    pub preload: usize,
    pub preload_seed: u32,
    pub ops: Vec<QOp>,
}

pub struct C07;

const KS: &[usize] = &[1, 2, 3, 5, 10];
const RELS: &[f32] = &[-0.5, -0.1, -1e-2, -1e-3, -1e-4, -1e-5, -1e-6, 1e-6, 1e-5, 1e-4, 1e-3, 1e-2, 1e-1, 0.5];

fn tail_heavy_unit(seed: u64, dim: usize) -> Vec<f64> {
    let mut m = Mix(seed ^ 0x7A11);
    let mut v: Vec<f64> = (0..dim).map(|i| if dim > 32 && i < 32 { 0.02 * m.gauss() } else { m.gauss() }).collect();
    let n = v.iter().map(|x| x * x).sum::<f64>().sqrt().max(1e-9);
    v.iter_mut().for_each(|x| *x /= n);
    v
}

/// The cache key is documented to quantise each lane to 1/32768 resolution ("for stable
/// hashing").  Queries with equal quantised lanes are therefore the same cache key by
/// design; anything else (e.g. lanes that only become equal by *saturating* a 16-bit
/// integer) is a foreign query.
fn quantised(v: &[f32]) -> Option<Vec<i64>> {
    let mut out = Vec::with_capacity(v.len());
    for x in v {
        let q = (*x as f64 * 32768.0).round();
        if !q.is_finite() || q.abs() > 9.0e18 {
            return None;
        }
        out.push(q as i64);
    }
    Some(out)
}

fn saturates_i16(v: &[f32]) -> bool {
    v.iter().any(|x| !(-32768.0..=32767.0).contains(&(*x as f64 * 32768.0).round()))
}

/// The engine keys the cache by the query *as normalised for the metric* (Cosine and
/// InnerProduct queries are scaled to unit length first), so [2,-2] and [3,-3] are the same
/// Cosine query.  Lanes within one quantum of each other count as equal (rounding at the
/// f32/f64 boundary).
fn equivalent_queries(metric: Metric, a: &[f32], b: &[f32]) -> bool {
    if bits_of(a) == bits_of(b) {
        return true;
    }
    let (na, nb) = (key_form(metric, a), key_form(metric, b));
    match (quantised(&na), quantised(&nb)) {
        (Some(x), Some(y)) => x.len() == y.len() && x.iter().zip(y.iter()).all(|(p, q)| (p - q).abs() <= 1),
        _ => false,
    }
}

fn key_form(metric: Metric, q: &[f32]) -> Vec<f32> {
    match metric {
        Metric::Euclidean => q.to_vec(),
        _ => normalise_query_f64(q).iter().map(|x| *x as f32).collect(),
    }
}

fn ref_distances(metric: Metric, q: &[f32], stored: &[f32]) -> (f64, f64) {
    match metric {
        Metric::Euclidean => {
            let d = q.iter().zip(stored).map(|(a, b)| (*a as f64 - *b as f64).powi(2)).sum::<f64>().sqrt();
            (d, d)
        }
        _ => {
            let qn = normalise_query_f64(q);
            let dot: f64 = qn.iter().zip(stored).map(|(a, b)| a * (*b as f64)).sum();
            let d_dot = (1.0 - dot).max(0.0);
            let nq: f64 = q.iter().map(|a| (*a as f64).powi(2)).sum::<f64>().sqrt();
            let nv: f64 = stored.iter().map(|a| (*a as f64).powi(2)).sum::<f64>().sqrt();
            let raw: f64 = q.iter().zip(stored).map(|(a, b)| *a as f64 * *b as f64).sum();
            (d_dot, 1.0 - (raw / (nq * nv)).clamp(-1.0, 1.0))
        }
    }
}

fn tol(d: f64) -> f64 {
    // float tolerance + slack for the documented 16-bit query quantisation
    3e-4 + 3e-4 * d.abs()
}

struct Stored {
    time: usize,
    k: usize,
    query: Vec<f32>,
}

#[derive(Default)]
struct Log {
    /// per scope: every non-hit, non-empty search (a potential store)
    stores: BTreeMap<u64, Vec<Stored>>,
    /// (time, id) of every document write (insert / overwrite / bulk load)
    writes: Vec<(usize, u64)>,
    /// times of events that must clear the cache: metadata update, bulk load, drift repair
    clears: Vec<(usize, &'static str)>,
    /// last observed result per (scope, query index)
    last: BTreeMap<(u64, usize), Vec<SearchResult>>,
}

impl Prop for C07 {
    type Case = Case;
    fn part(&self) -> &'static str {
        "sequential"
    }
    fn shape(&self, tier: Tier) -> RawShape {
        RawShape { head_len: 48, chunk_len: 20, min_chunks: 6, max_chunks: tier.pick(60, 120) }
    }
    fn rule(&self) -> String {
        "search/write history with a small query pool, 3 scopes, k in {1,2,3,5,10}, writes aimed at the cached boundary (|rel| 1e-6..0.5, both sides, tail-heavy beyond the 32-lane prefix); non-trivial = a CacheHit observed after at least one write since the explaining store; distinct = hash of decoded case".into()
    }
    fn decode(&self, raw: &Raw, _tier: Tier) -> Case {
        let mut t = Tape::new(&raw.head);
        let mut cfg = TieredCfg::decode(&mut t, &[2, 8, 31, 32, 33, 64], &[1, 2, 16], &[2, 8, 64]);
        cfg.strat = Strat::Lru;
        cfg.capacity = 2000;
        cfg.persist = false;
        cfg.qcache_sim = 1.0;
        cfg.ef_search = t.pick(&[50usize, 400]);
        let nq = 2 + t.below(4);
        let mut queries = vec![];
        for i in 0..nq {
            let v = if t.chance(96) && cfg.dim > 32 {
                tail_heavy_unit(t.u32() as u64, cfg.dim).iter().map(|x| *x as f32).collect()
            } else {
                valid_vector(&mut t, cfg.dim, cfg.metric)
            };
            let _ = i;
            queries.push(FVec(v));
        }
        let preload = t.pick(&[0usize, 3, 12, 40]);
        let preload_seed = t.u32();
        let nqs = queries.len();
        let ops = raw
            .chunks
            .iter()
            .map(|c| {
                let mut t = Tape::new(c);
                match t.weighted(&[30, 6, 14, 3, 4, 4, 3, 3, 2, 2]) {
                    0 => QOp::Search { api: t.pick(&[SApi::Sync, SApi::Sync, SApi::Batch, SApi::Timed]), scope: t.below(3) as u64, q: t.below(nqs), k: t.pick(KS) },
                    1 => QOp::Insert { id: 1 + t.below(30) as u64, vec: FVec(valid_vector(&mut t, cfg.dim, cfg.metric)) },
                    2 => QOp::Aimed { id: 100 + t.below(40) as u64, scope: t.below(3) as u64, q: t.below(nqs), rel: t.pick(RELS), tail_heavy: t.chance(160), seed: t.u32() },
                    3 => QOp::Delete { id: 1 + t.below(30) as u64 },
                    4 => QOp::DeleteCached { scope: t.below(3) as u64, q: t.below(nqs), pos: t.below(10) },
                    5 => QOp::OverwriteCached { scope: t.below(3) as u64, q: t.below(nqs), pos: t.below(10), vec: FVec(valid_vector(&mut t, cfg.dim, cfg.metric)) },
                    6 => QOp::UpdateMeta { id: 1 + t.below(30) as u64, meta: meta_map(&mut t, 2) },
                    7 => QOp::BulkLoad { id: 1 + t.below(30) as u64, vec: FVec(valid_vector(&mut t, cfg.dim, cfg.metric)) },
                    8 => QOp::Flush,
                    _ => QOp::PokeStaleMirror { id: 1 + t.below(30) as u64 },
                }
            })
            .collect();
        Case { cfg, queries, preload, preload_seed, ops }
    }

    fn run(&self, case: &Case, _env: &CaseEnv) -> Result<CaseReport, Failure> {
        let cfg = &case.cfg;
        let te = Tiered::build(cfg, None, &[]).map_err(|e| Failure::new("setup_failed", format!("{:#}", e)))?;
        let mut model = Model::new();
        let mut rep = CaseReport::default();
        let mut log = Log::default();
        let metric = cfg.metric;
        let rt = tokio::runtime::Builder::new_current_thread().enable_time().build().map_err(|e| Failure::new("setup_failed", format!("{}", e)))?;
        let mut prev_state: BTreeMap<u64, (Vec<f32>, kyrodb_engine::VectorCoherenceToken)> = BTreeMap::new();

        let write = |te: &Tiered, model: &mut Model, id: u64, v: &[f32], bulk: bool| -> Result<(), Failure> {
            if bulk {
                let (_, failed, _, _) = te.engine.bulk_load_cold_tier(vec![(id, v.to_vec(), Default::default())]).map_err(|e| Failure::new("valid_insert_rejected", format!("{:#}", e)))?;
                if failed > 0 {
                    return Err(Failure::new("valid_insert_rejected", format!("bulk load of {} refused", id)));
                }
            } else {
                te.engine.insert(id, v.to_vec(), Default::default()).map_err(|e| Failure::new("valid_insert_rejected", format!("insert({}): {:#}", id, e)))?;
            }
            let stored = te.engine.cold_tier().fetch_document(id).ok_or_else(|| Failure::new("ack_not_visible", format!("write of {} not visible", id)))?;
            model.put(id, bits_of(&stored), Meta::new());
            Ok(())
        };

        // preload (time 0)
        for j in 0..case.preload {
            let id = 200 + j as u64;
            let v = vector_of_class([VClass::Unit, VClass::Gauss, VClass::Scaled][j % 3], case.preload_seed as u64 + j as u64, cfg.dim, metric);
            write(&te, &mut model, id, &v, j % 2 == 0)?;
        }
        te.qcache.clear();

        for (i, op) in case.ops.iter().enumerate() {
            let time = i + 1;
            let at = |m: String| format!("op {} {:?}: {}", i, short(op), m);
            match op {
                QOp::Search { api, scope, q, k } => {
                    let qv = &case.queries[*q].0;
                    let res = match api {
                        SApi::Sync => te.engine.knn_search_with_ef_detailed_scoped(qv, *k, None, *scope),
                        SApi::Batch => te.engine.knn_search_batch_with_ef_detailed_scoped(&[qv.clone()], *k, None, *scope).map(|mut v| v.remove(0)),
                        SApi::Timed => rt.block_on(te.engine.knn_search_with_timeouts_with_ef_scoped(qv, *k, None, *scope)),
                    };
                    let (results, path) = res.map_err(|e| Failure::new("valid_search_rejected", at(format!("{:#}", e))))?;
                    if path == SearchExecutionPath::CacheHit {
                        let since = judge_hit(&log, &model, metric, *scope, qv, *k, &results, time).map_err(|mut f| {
                            f.msg = at(f.msg);
                            f
                        })?;
                        rep.count("cache_hits", 1);
                        if since > 0 {
                            rep.nontrivial = true;
                            rep.count("hits_after_writes", 1);
                        }
                    } else if path == SearchExecutionPath::Degraded {
                        rep.excluded.push("degraded_path".into());
                    } else if !results.is_empty() {
                        log.stores.entry(*scope).or_default().push(Stored { time, k: *k, query: qv.clone() });
                        rep.count("non_hit_searches", 1);
                    }
                    log.last.insert((*scope, *q), results);
                }
                QOp::Insert { id, vec } => {
                    self.note_prev(&te, &mut prev_state, *id);
                    write(&te, &mut model, *id, &vec.0, false).map_err(|mut f| {
                        f.msg = at(f.msg);
                        f
                    })?;
                    log.writes.push((time, *id));
                }
                QOp::Aimed { id, scope, q, rel, tail_heavy, seed } => {
                    let qv = &case.queries[*q].0;
                    let worst = log.last.get(&(*scope, *q)).and_then(|r| r.last()).map(|r| r.distance as f64);
                    let v = match worst {
                        Some(w) if w > 1e-6 => aimed_vector(metric, qv, w * (1.0 + *rel as f64), *tail_heavy, *seed as u64),
                        _ => None,
                    };
                    let v = v.unwrap_or_else(|| vector_of_class(VClass::Unit, *seed as u64, cfg.dim, metric));
                    self.note_prev(&te, &mut prev_state, *id);
                    write(&te, &mut model, *id, &v, false).map_err(|mut f| {
                        f.msg = at(f.msg);
                        f
                    })?;
                    log.writes.push((time, *id));
                    if worst.is_some() {
                        rep.label(if *rel < 0.0 { "aimed_inside_boundary" } else { "aimed_outside_boundary" });
                        if rel.abs() <= 1e-3 {
                            rep.label("aimed_within_1e-3_of_boundary");
                        }
                    }
                }
                QOp::Delete { id } => {
                    let got = te.engine.delete(*id).map_err(|e| Failure::new("valid_delete_rejected", at(format!("{:#}", e))))?;
                    if got != model.contains(*id) {
                        return Err(Failure::new("delete_return", at(format!("returned {} model {}", got, model.contains(*id)))));
                    }
                    model.delete(*id);
                }
                QOp::DeleteCached { scope, q, pos } => {
                    if let Some(r) = log.last.get(&(*scope, *q)).and_then(|r| r.get(*pos % r.len().max(1))).cloned() {
                        let got = te.engine.delete(r.doc_id).map_err(|e| Failure::new("valid_delete_rejected", at(format!("{:#}", e))))?;
                        if got != model.contains(r.doc_id) {
                            return Err(Failure::new("delete_return", at(format!("returned {} model {}", got, model.contains(r.doc_id)))));
                        }
                        model.delete(r.doc_id);
                        rep.label("deleted_cached_doc");
                    }
                }
                QOp::OverwriteCached { scope, q, pos, vec } => {
                    if let Some(r) = log.last.get(&(*scope, *q)).and_then(|r| r.get(*pos % r.len().max(1))).cloned() {
                        if model.contains(r.doc_id) {
                            self.note_prev(&te, &mut prev_state, r.doc_id);
                            write(&te, &mut model, r.doc_id, &vec.0, false).map_err(|mut f| {
                                f.msg = at(f.msg);
                                f
                            })?;
                            log.writes.push((time, r.doc_id));
                            rep.label("overwrote_cached_doc");
                        }
                    }
                }
                QOp::UpdateMeta { id, meta } => {
                    let got = te.engine.update_metadata(*id, meta_to_hash(meta), true).map_err(|e| Failure::new("valid_update_rejected", at(format!("{:#}", e))))?;
                    if got != model.contains(*id) {
                        return Err(Failure::new("update_return", at(format!("returned {} model {}", got, model.contains(*id)))));
                    }
                    if got {
                        model.update_meta(*id, meta, true);
                        log.clears.push((time, "metadata_update"));
                    }
                }
                QOp::BulkLoad { id, vec } => {
                    self.note_prev(&te, &mut prev_state, *id);
                    write(&te, &mut model, *id, &vec.0, true).map_err(|mut f| {
                        f.msg = at(f.msg);
                        f
                    })?;
                    log.writes.push((time, *id));
                    log.clears.push((time, "bulk_load"));
                }
                QOp::Flush => {
                    te.engine.flush_hot_tier(true).map_err(|e| Failure::new("flush_failed", at(format!("{:#}", e))))?;
                }
                QOp::PokeStaleMirror { id } => {
                    if let (Some((pv, ptok)), true) = (prev_state.get(id).cloned(), model.contains(*id)) {
                        let cur = te.engine.cold_tier().current_coherence_token(*id);
                        if cur.is_some() && cur != Some(ptok) {
                            te.engine.hot_tier().insert_with_coherence(*id, pv, Default::default(), ptok);
                            rep.label("poke_stale_mirror");
                        }
                    }
                }
            }
        }
        Ok(rep)
    }
}

impl C07 {
    fn note_prev(&self, te: &Tiered, prev: &mut BTreeMap<u64, (Vec<f32>, kyrodb_engine::VectorCoherenceToken)>, id: u64) {
        if let Some(x) = te.engine.cold_tier().fetch_document_with_coherence(id) {
            prev.insert(id, x);
        }
    }
}

/// Vector at reference distance `target` from `q` (None if impossible for the metric).
fn aimed_vector(metric: Metric, q: &[f32], target: f64, tail_heavy: bool, seed: u64) -> Option<Vec<f32>> {
    let dim = q.len();
    let u: Vec<f64> = if tail_heavy { tail_heavy_unit(seed, dim) } else { vector_of_class(VClass::Unit, seed, dim, metric).iter().map(|x| *x as f64).collect() };
    match metric {
        Metric::Euclidean => {
            if target <= 0.0 {
                return None;
            }
            Some(q.iter().zip(u.iter()).map(|(a, b)| (*a as f64 + target * b) as f32).collect())
        }
        _ => {
            // unit vector at cosine distance `target` from q: cos(theta) = 1 - target
            let c = 1.0 - target;
            if !(-1.0..=1.0).contains(&c) {
                return None;
            }
            let qn = {
                let n = q.iter().map(|a| (*a as f64).powi(2)).sum::<f64>().sqrt();
                q.iter().map(|a| *a as f64 / n).collect::<Vec<f64>>()
            };
            // Gram-Schmidt: component of u orthogonal to q
            let proj: f64 = u.iter().zip(qn.iter()).map(|(a, b)| a * b).sum();
            let mut w: Vec<f64> = u.iter().zip(qn.iter()).map(|(a, b)| a - proj * b).collect();
            let wn = w.iter().map(|x| x * x).sum::<f64>().sqrt();
            if wn < 1e-6 || dim < 2 {
                return None;
            }
            w.iter_mut().for_each(|x| *x /= wn);
            let s = (1.0 - c * c).max(0.0).sqrt();
            Some(qn.iter().zip(w.iter()).map(|(a, b)| (c * a + s * b) as f32).collect())
        }
    }
}

/// Oracle for a `CacheHit`.  Returns the number of document writes since the explaining store.
#[allow(clippy::too_many_arguments)]
fn judge_hit(log: &Log, model: &Model, metric: Metric, scope: u64, q: &[f32], k: usize, results: &[SearchResult], now: usize) -> Result<usize, Failure> {
    // (1) explainable: the latest non-hit, non-empty search in the SAME scope with an
    //     equivalent query is the only possible origin of the entry; it must have k' >= k
    let origin = log.stores.get(&scope).and_then(|v| v.iter().rev().find(|s| equivalent_queries(metric, &s.query, q)));
    let Some(origin) = origin else {
        let other_scope = log.stores.iter().any(|(s, v)| *s != scope && v.iter().any(|st| equivalent_queries(metric, &st.query, q)));
        let saturated = saturates_i16(&key_form(metric, q));
        return Err(Failure::new(
            "unexplained_cache_hit",
            format!(
                "CacheHit for scope {} k={} but no earlier search in this scope with an equivalent query could have stored it ({})",
                scope,
                k,
                if other_scope { "the same query was only ever searched in ANOTHER scope" } else if saturated { "query lanes outside the 16-bit quantisation range: a 16-bit cache key would saturate" } else { "foreign query" }
            ),
        )
        .with_sig(json!({"kind": "unexplained_cache_hit", "other_scope": other_scope, "query_saturates_quantisation": saturated})));
    };
    if origin.k < k {
        return Err(Failure::new("entry_used_for_larger_k", format!("CacheHit for k={} but the only possible origin (time {}) was computed for k={}", k, origin.time, origin.k)));
    }
    if results.len() > k {
        return Err(Failure::new("more_than_k", format!("{} cached results served for k={}", results.len(), k)));
    }
    // (5) metadata updates / bulk loads / drift repairs: at the engine level a cached entry
    //     is stale only through clauses (2)-(4) (engine-level search results do not depend on
    //     metadata); demanding a full clear would be stricter than the property.  Filter-
    //     dependent staleness is judged where filters exist: at the server level (E4).
    // (2) + (3)
    let mut ids = std::collections::BTreeSet::new();
    for r in results {
        ids.insert(r.doc_id);
        let Some(doc) = model.get(r.doc_id) else {
            return Err(Failure::new("dead_document_in_cached_result", format!("cached result contains id {} which no longer exists", r.doc_id)));
        };
        let (a, b) = ref_distances(metric, q, &doc.vec_f32());
        let got = r.distance as f64;
        if !((got - a).abs() <= tol(a) || (got - b).abs() <= tol(b)) {
            return Err(Failure::new(
                "stale_distance_in_cached_result",
                format!("cached result reports distance {} for id {} but the distance from this query to its current vector is {} (cosine form {})", got, r.doc_id, a, b),
            )
            .with_sig(json!({"kind": "stale_distance_in_cached_result", "query_saturates_quantisation": saturates_i16(&key_form(metric, q))})));
        }
    }
    // (4) documents written since the store that lie strictly inside the boundary
    let boundary = if results.len() >= k { results.last().map(|r| r.distance as f64) } else { None };
    let mut since = 0usize;
    let mut judged = std::collections::BTreeSet::new();
    for (t, id) in log.writes.iter().rev() {
        if *t <= origin.time {
            break;
        }
        since += 1;
        if !judged.insert(*id) || ids.contains(id) {
            continue;
        }
        let Some(doc) = model.get(*id) else { continue };
        let (a, b) = ref_distances(metric, q, &doc.vec_f32());
        let d = a.max(b);
        let inside = match boundary {
            Some(w) => {
                // Cosine / InnerProduct: the engine's accepted normalisation band makes its two
                // distance forms differ by up to ~1.1 % of |dot|; stay outside that band
                let slack = if metric == Metric::Euclidean { 0.0 } else { 0.011 * (1.0 - d).abs() + 0.011 * (1.0 - w).abs() };
                d < w - tol(w) - tol(d) - slack
            }
            None => true, // fewer than k cached results: any new document belongs in it
        };
        if inside {
            return Err(Failure::new(
                "cached_result_omits_newer_document",
                format!("id {} was written at time {} (after the store at time {}), lies at distance {} strictly inside the cached boundary {:?} (k={}, {} results) and is missing from the CacheHit", id, t, origin.time, d, boundary, k, results.len()),
            )
            .with_sig(json!({"kind": "cached_result_omits_newer_document"})));
        }
    }
    Ok(since)
}

fn short(op: &QOp) -> String {
    match op {
        QOp::Search { api, scope, q, k } => format!("search({:?}, scope={}, q{}, k={})", api, scope, q, k),
        QOp::Insert { id, .. } => format!("insert({})", id),
        QOp::Aimed { id, scope, q, rel, tail_heavy, .. } => format!("aimed_insert({}, scope={}, q{}, rel={}, tail_heavy={})", id, scope, q, rel, tail_heavy),
        QOp::Delete { id } => format!("delete({})", id),
        QOp::DeleteCached { scope, q, pos } => format!("delete_cached(scope={}, q{}, pos={})", scope, q, pos),
        QOp::OverwriteCached { scope, q, pos, .. } => format!("overwrite_cached(scope={}, q{}, pos={})", scope, q, pos),
        QOp::UpdateMeta { id, .. } => format!("update_meta({})", id),
        QOp::BulkLoad { id, .. } => format!("bulk_load({})", id),
        QOp::Flush => "flush".into(),
        QOp::PokeStaleMirror { id } => format!("poke_stale_mirror({})", id),
    }
}

pub fn main(ctx: &Ctx) {
    ctx.assume("similarity threshold 1.0 (exact-match only) so the designed semantic approximation is not mistaken for staleness");
    ctx.assume("queries whose lanes quantise to the same in-range 16-bit values are the same cache key by documented design; out-of-range (saturating) lanes are not");
    ctx.assume("schedule part (searcher || writer, parts race_pairs / race_programs): scheduling points are lock operations and API-call boundaries; Euclidean line set-up with a unique exact top-k");
    run_committed_replays(ctx, &C07);
    run_pbt(ctx, &C07, ctx.tier.pick(60_000, 1_200_000));
    super::c07s::main(ctx);
}

pub fn replay(ctx: &Ctx, v: &serde_json::Value) -> Option<i32> {
    replay_file(ctx, &C07, v).or_else(|| super::c07s::replay(ctx, v))
}
