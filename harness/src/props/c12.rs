//! C12 — restoring a backup reproduces the collection as of that backup.
//!
//! Parts:
//!  * `restore`   generated histories with full / incremental backups at quiescent points,
//!                snapshots / rotation / compaction / restarts in between; every backup is
//!                restored into an empty directory, recovered in strict mode and compared
//!                with the model as of that backup.
//!  * `tamper`    for small backups: EVERY byte of the archive x 2 bit positions, every
//!                truncation length, every byte of the metadata JSON x 2 bit positions;
//!                restore into a directory holding sentinel files with allow_clear=true.
//!  * `clear`     non-empty target without confirmation.
//!  * `retention` synthetic backup timelines x retention policies: ancestors survive.
//!  * `pitr`      point-in-time targets on real 1.1 s spaced backups (few cases).

use crate::common::eng::{copy_dir, diff_dumps, dump_backend, BackendCfg, Dump};
use crate::common::gens::DIMS_SMALL;
use crate::common::hist::{apply_write, decode_bop, BOp};
use crate::common::model::Model;
use crate::common::runner::*;
use crate::common::tape::Tape;
use kyrodb_engine::backup::{BackupManager, BackupMetadata, BackupType, ClearDirectoryOptions, RestoreManager, RetentionPolicy};
use serde::{Deserialize, Serialize};
use serde_json::json;
use std::collections::{BTreeMap, BTreeSet};
use std::path::Path;

// ------------------------------------------------------------------------------------------
// restore part
// ------------------------------------------------------------------------------------------

#[derive(Clone, Debug, Serialize, Deserialize)]
pub enum XOp {
    W(BOp),
    Full,
    /// incremental with parent = the (sel % n)-th earlier backup (newest first when sel = 0)
    Incr { parent_sel: u8 },
}

#[derive(Clone, Debug, Serialize, Deserialize)]
pub struct Case {
    pub cfg: BackendCfg,
    pub pool: usize,
    pub ops: Vec<XOp>,
}

pub struct Restore;

struct Taken {
    meta: BackupMetadata,
    model: Dump,
    after_snapshot: bool,
    after_restart: bool,
    chain_len: usize,
}

fn list_has(dir: &Path, suffix: &str) -> usize {
    std::fs::read_dir(dir).map(|rd| rd.flatten().filter(|e| e.file_name().to_string_lossy().ends_with(suffix)).count()).unwrap_or(0)
}

fn restore_and_dump(cfg: &BackendCfg, backup_dir: &Path, target: &Path, id: uuid::Uuid) -> Result<Result<Dump, String>, String> {
    let rm = RestoreManager::new(backup_dir, target).map_err(|e| format!("{:#}", e))?;
    if let Err(e) = rm.restore_from_backup_with_options(id, &ClearDirectoryOptions::new().with_allow_clear(true)) {
        return Ok(Err(format!("restore failed: {:#}", e)));
    }
    match cfg.recover(target) {
        Ok(b) => Ok(Ok(dump_backend(&b))),
        Err(e) => Ok(Err(format!("restored directory does not start in strict mode: {:#}", e))),
    }
}

impl Prop for Restore {
    type Case = Case;
    fn part(&self) -> &'static str {
        "restore"
    }
    fn shape(&self, tier: Tier) -> RawShape {
        RawShape { head_len: 8, chunk_len: 21, min_chunks: 6, max_chunks: tier.pick(40, 80) }
    }
    fn max_shrink_iters(&self) -> u32 {
        1500
    }
    fn rule(&self) -> String {
        "history with backups at quiescent points; every backup restored into an empty directory and recovered; non-trivial = an incremental taken after a snapshot+compaction or after a restart since its parent, or a chain of length >= 3; distinct = hash of decoded case".into()
    }
    fn decode(&self, raw: &Raw, _tier: Tier) -> Case {
        let mut t = Tape::new(&raw.head);
        let mut cfg = BackendCfg::decode(&mut t, DIMS_SMALL);
        cfg.rotate_bytes = t.pick(&[300u64, 64, 1 << 20]);
        cfg.snapshot_interval = t.pick(&[3usize, 0, 1, 7, 1000]);
        let pool = 3 + t.below(6);
        let ops = raw
            .chunks
            .iter()
            .map(|c| {
                if c[0] < 200 {
                    XOp::W(decode_bop(&c[1..], &cfg, pool, &[10, 3, 2, 3, 2, 2]))
                } else if c[0] < 222 {
                    XOp::Full
                } else {
                    XOp::Incr { parent_sel: c[1] % 4 }
                }
            })
            .collect();
        Case { cfg, pool, ops }
    }
    fn run(&self, case: &Case, env: &CaseEnv) -> Result<CaseReport, Failure> {
        let cfg = &case.cfg;
        let data = env.dir("data");
        let bdir = env.dir("backups");
        let mut b = cfg.create(&data).map_err(|e| Failure::new("setup_failed", format!("{:#}", e)))?;
        let mut model = Model::new();
        let mut ever = BTreeSet::new();
        let mut rep = CaseReport::default();
        let mut taken: Vec<Taken> = vec![];
        let mut snaps_seen = 0usize;
        let mut snapshot_since_backup = false;
        let mut restart_since_backup = false;
        let bm = BackupManager::new(&bdir, &data).map_err(|e| Failure::new("setup_failed", format!("{:#}", e)))?;
        for (i, op) in case.ops.iter().enumerate() {
            match op {
                XOp::W(BOp::Snapshot) => b.create_snapshot().map_err(|e| Failure::new("setup_failed", format!("op {} snapshot: {:#}", i, e)))?,
                XOp::W(BOp::Restart) => {
                    drop(b);
                    b = cfg.recover(&data).map_err(|e| Failure::new("setup_failed", format!("op {} restart: {:#}", i, e)))?;
                    restart_since_backup = true;
                }
                XOp::W(w) => {
                    apply_write(&b, &mut model, w, cfg, &mut ever).map_err(|f| Failure::new("setup_failed", format!("op {}: {}", i, f.msg)))?;
                }
                XOp::Full | XOp::Incr { .. } => {
                    let n = list_has(&data, ".snap");
                    if n > snaps_seen {
                        snapshot_since_backup = true;
                        snaps_seen = n;
                    }
                    let res = match op {
                        XOp::Full => bm.create_full_backup(format!("full at op {}", i)).map(|m| (m, 1usize)),
                        XOp::Incr { parent_sel } => {
                            if taken.is_empty() {
                                continue;
                            }
                            let p = &taken[taken.len() - 1 - (*parent_sel as usize % taken.len())];
                            let cl = p.chain_len + 1;
                            bm.create_incremental_backup(p.meta.id, format!("incr at op {}", i)).map(|m| (m, cl))
                        }
                        _ => unreachable!(),
                    };
                    match res {
                        Ok((meta, chain_len)) => {
                            let incr = meta.backup_type == BackupType::Incremental;
                            if incr && (snapshot_since_backup || restart_since_backup) || chain_len >= 3 {
                                rep.nontrivial = true;
                            }
                            taken.push(Taken { meta, model: model.docs.clone(), after_snapshot: snapshot_since_backup, after_restart: restart_since_backup, chain_len });
                            snapshot_since_backup = false;
                            restart_since_backup = false;
                        }
                        Err(e) => {
                            let msg = format!("{:#}", e);
                            if msg.contains("No new WAL files since parent backup") {
                                rep.label("incremental_refused_nothing_new");
                            } else {
                                return Err(Failure::new("backup_failed", format!("op {} {:?}: backup failed at a quiescent point: {}", i, op, msg)));
                            }
                        }
                    }
                }
            }
        }
        drop(b);
        // restore every backup
        for (j, t) in taken.iter().enumerate() {
            let target = env.dir(&format!("restore{}", j));
            let out = restore_and_dump(cfg, &bdir, &target, t.meta.id).map_err(|e| Failure::new("setup_failed", e))?;
            let incr = t.meta.backup_type == BackupType::Incremental;
            let sig = |kind: &str| json!({"kind": kind, "incremental": incr, "snapshot_since_parent": t.after_snapshot});
            match out {
                Err(msg) => {
                    let f = Failure::new(
                        "restored_backup_unusable",
                        format!("backup #{} ({:?}, chain length {}, snapshot since previous backup: {}, restart since: {}): {}", j, t.meta.backup_type, t.chain_len, t.after_snapshot, t.after_restart, msg),
                    )
                    .with_sig(sig("restored_backup_unusable"));
                    if env.ctx.is_known(&f.sig) {
                        rep.known_sigs.push(f.sig);
                        continue;
                    }
                    return Err(f);
                }
                Ok(d) => {
                    if let Some(diff) = diff_dumps(&t.model, &d) {
                        let f = Failure::new(
                            "restored_collection_differs",
                            format!("backup #{} ({:?}, chain length {}, snapshot since previous backup: {}): restored collection differs from the collection at backup time: {}", j, t.meta.backup_type, t.chain_len, t.after_snapshot, diff),
                        )
                        .with_sig(sig("restored_collection_differs"));
                        if env.ctx.is_known(&f.sig) {
                            rep.known_sigs.push(f.sig);
                            continue;
                        }
                        return Err(f);
                    }
                }
            }
            rep.count("evaluations_judged", 1);
            rep.label(if incr { "restored_incremental" } else { "restored_full" });
            let _ = std::fs::remove_dir_all(&target);
        }
        Ok(rep)
    }
}

// ------------------------------------------------------------------------------------------
// tamper part (exhaustive over small archives)
// ------------------------------------------------------------------------------------------

#[derive(Clone, Debug, Serialize, Deserialize)]
pub enum Tamper {
    FlipArchive { off: usize, bit: u8 },
    TruncArchive { len: usize },
    FlipMeta { off: usize, bit: u8 },
    TruncMeta { len: usize },
    DeleteArchive,
}

#[derive(Clone, Debug, Serialize, Deserialize)]
pub struct TCase {
    /// which of the fixed small histories (0..N_FIX)
    pub fixture: usize,
    /// restore the incremental (true) or the full backup (false)
    pub incremental: bool,
    /// tamper with the parent (full) archive while restoring the incremental
    pub on_parent: bool,
    pub tamper: Tamper,
}

pub struct TamperP;

const N_FIX: usize = 3;

struct Fixture {
    cfg: BackendCfg,
    bdir: std::path::PathBuf,
    full: BackupMetadata,
    incr: Option<BackupMetadata>,
    model_full: Dump,
    model_incr: Dump,
}

fn build_fixture(which: usize, root: &Path) -> Result<Fixture, Failure> {
    use crate::common::eng::Fsync;
    use crate::common::gens::{FVec, Metric};
    let err = |e: anyhow::Error| Failure::new("setup_failed", format!("fixture {}: {:#}", which, e));
    let cfg = BackendCfg { metric: Metric::Euclidean, dim: 2, snapshot_interval: if which == 1 { 2 } else { 0 }, rotate_bytes: if which == 2 { 64 } else { 1 << 20 }, capacity: 100, fsync: Fsync::Never };
    let data = root.join(format!("fx{}_data", which));
    let bdir = root.join(format!("fx{}_backups", which));
    std::fs::create_dir_all(&data).unwrap();
    let b = cfg.create(&data).map_err(err)?;
    let mut model = Model::new();
    let mut ever = BTreeSet::new();
    let mk = |id: u64, x: f32| BOp::Insert { id, vec: FVec(vec![x, 1.0]), meta: [("a".to_string(), format!("{}", id))].into_iter().collect() };
    for op in [mk(1, 1.0), mk(2, 2.0), mk(3, 3.0), BOp::Delete { id: 2 }] {
        apply_write(&b, &mut model, &op, &cfg, &mut ever)?;
    }
    let bm = BackupManager::new(&bdir, &data).map_err(err)?;
    let full = bm.create_full_backup("fixture full".into()).map_err(err)?;
    let model_full = model.docs.clone();
    for op in [mk(4, 4.0), BOp::Delete { id: 1 }] {
        apply_write(&b, &mut model, &op, &cfg, &mut ever)?;
    }
    let incr = bm.create_incremental_backup(full.id, "fixture incremental".into()).ok();
    let model_incr = model.docs.clone();
    drop(b);
    Ok(Fixture { cfg, bdir, full, incr, model_full, model_incr })
}

fn dir_fingerprint(dir: &Path) -> BTreeMap<String, Vec<u8>> {
    let mut m = BTreeMap::new();
    if let Ok(rd) = std::fs::read_dir(dir) {
        for e in rd.flatten() {
            if e.path().is_file() {
                m.insert(e.file_name().to_string_lossy().to_string(), std::fs::read(e.path()).unwrap_or_default());
            }
        }
    }
    m
}

fn tamper_eval(fx: &Fixture, case: &TCase, work: &Path) -> Result<(bool, &'static str), Failure> {
    let bcopy = work.join("b");
    let target = work.join("t");
    let _ = std::fs::remove_dir_all(work);
    copy_dir(&fx.bdir, &bcopy).map_err(|e| Failure::new("setup_failed", e.to_string()))?;
    std::fs::create_dir_all(&target).unwrap();
    std::fs::write(target.join("SENTINEL_A"), b"live data that must survive a rejected restore").unwrap();
    std::fs::write(target.join("wal_1.wal"), b"WAL\0sentinel").unwrap();
    let before = dir_fingerprint(&target);
    let (restore_meta, expect) = if case.incremental {
        match &fx.incr {
            Some(m) => (m, &fx.model_incr),
            None => return Ok((false, "skipped")),
        }
    } else {
        (&fx.full, &fx.model_full)
    };
    let victim = if case.incremental && !case.on_parent { restore_meta } else { &fx.full };
    let tar = bcopy.join(format!("backup_{}.tar", victim.id));
    let js = bcopy.join(format!("backup_{}.json", victim.id));
    let changed = match &case.tamper {
        Tamper::FlipArchive { off, bit } => {
            let mut d = std::fs::read(&tar).unwrap();
            if *off >= d.len() {
                return Ok((false, "skipped"));
            }
            d[*off] ^= 1 << bit;
            std::fs::write(&tar, d).unwrap();
            true
        }
        Tamper::TruncArchive { len } => {
            let d = std::fs::read(&tar).unwrap();
            if *len >= d.len() {
                return Ok((false, "skipped"));
            }
            std::fs::write(&tar, &d[..*len]).unwrap();
            true
        }
        Tamper::FlipMeta { off, bit } => {
            let mut d = std::fs::read(&js).unwrap();
            if *off >= d.len() {
                return Ok((false, "skipped"));
            }
            d[*off] ^= 1 << bit;
            std::fs::write(&js, d).unwrap();
            true
        }
        Tamper::TruncMeta { len } => {
            let d = std::fs::read(&js).unwrap();
            if *len >= d.len() {
                return Ok((false, "skipped"));
            }
            std::fs::write(&js, &d[..*len]).unwrap();
            true
        }
        Tamper::DeleteArchive => {
            std::fs::remove_file(&tar).unwrap();
            true
        }
    };
    let _ = changed;
    let rm = RestoreManager::new(&bcopy, &target).map_err(|e| Failure::new("setup_failed", format!("{:#}", e)))?;
    let res = rm.restore_from_backup_with_options(restore_meta.id, &ClearDirectoryOptions::new().with_allow_clear(true));
    let region = match &case.tamper {
        Tamper::FlipArchive { .. } => "archive_flip",
        Tamper::TruncArchive { .. } => "archive_truncation",
        Tamper::FlipMeta { .. } => "metadata_flip",
        Tamper::TruncMeta { .. } => "metadata_truncation",
        Tamper::DeleteArchive => "archive_deleted",
    };
    match res {
        Err(_) => {
            let after = dir_fingerprint(&target);
            if after != before {
                return Err(Failure::new(
                    "rejected_restore_touched_target",
                    format!("{:?}: restore was rejected but the target directory changed (files before {:?}, after {:?})", case, before.keys().collect::<Vec<_>>(), after.keys().collect::<Vec<_>>()),
                )
                .with_sig(json!({"kind": "rejected_restore_touched_target", "tamper": region})));
            }
            Ok((true, "rejected_target_untouched"))
        }
        Ok(()) => match fx.cfg.recover(&target) {
            Ok(b) => {
                let d = dump_backend(&b);
                if let Some(diff) = diff_dumps(expect, &d) {
                    return Err(Failure::new("tampered_backup_restored_wrong_collection", format!("{:?}: altered backup was accepted and the restored collection differs: {}", case, diff))
                        .with_sig(json!({"kind": "tampered_backup_accepted", "tamper": region, "outcome": "wrong_collection"})));
                }
                Ok((true, "accepted_harmless"))
            }
            Err(e) => Err(Failure::new(
                "tampered_backup_accepted_unusable",
                format!("{:?}: altered backup passed verification, the target was cleared, and the restored directory does not start: {:#}", case, e),
            )
            .with_sig(json!({"kind": "tampered_backup_accepted", "tamper": region, "outcome": "unusable_directory"}))),
        },
    }
}

impl Prop for TamperP {
    type Case = TCase;
    fn part(&self) -> &'static str {
        "tamper"
    }
    fn shape(&self, _t: Tier) -> RawShape {
        RawShape { head_len: 1, chunk_len: 1, min_chunks: 0, max_chunks: 0 }
    }
    fn rule(&self) -> String {
        "complete enumeration over 3 fixed small backups (full and full+incremental): every archive byte x bits {0,5}, every truncation length of archive and metadata, every metadata byte x bits {0,5}, archive deletion; non-trivial = the tamper changed at least one byte of a file the restore reads; all cases distinct by construction".into()
    }
    fn decode(&self, _raw: &Raw, _t: Tier) -> TCase {
        TCase { fixture: 0, incremental: false, on_parent: false, tamper: Tamper::DeleteArchive }
    }
    fn run(&self, case: &TCase, env: &CaseEnv) -> Result<CaseReport, Failure> {
        let root = env.dir("fx");
        let fx = build_fixture(case.fixture % N_FIX, &root)?;
        let (judged, _) = tamper_eval(&fx, case, &env.dir("w"))?;
        Ok(CaseReport { nontrivial: judged, ..Default::default() })
    }
}

fn run_tamper_exhaustive(ctx: &Ctx) {
    let env = ctx.env(true);
    let root = env.dir("fixtures");
    let mut cases: Vec<(usize, TCase)> = vec![];
    let mut fixtures = vec![];
    for w in 0..N_FIX {
        match build_fixture(w, &root) {
            Ok(fx) => fixtures.push(fx),
            Err(f) => {
                ctx.report_violation("tamper", &TCase { fixture: w, incremental: false, on_parent: false, tamper: Tamper::DeleteArchive }, &f);
                return;
            }
        }
    }
    let bits: &[u8] = if ctx.tier == Tier::Quick { &[0, 5] } else { &[0, 1, 2, 3, 4, 5, 6, 7] };
    for (w, fx) in fixtures.iter().enumerate() {
        let mut variants = vec![(false, false)];
        if fx.incr.is_some() {
            variants.push((true, false));
            variants.push((true, true));
        }
        for (incremental, on_parent) in variants {
            let victim = if incremental && !on_parent { fx.incr.as_ref().unwrap() } else { &fx.full };
            let tar_len = std::fs::metadata(fx.bdir.join(format!("backup_{}.tar", victim.id))).map(|m| m.len() as usize).unwrap_or(0);
            let js_len = std::fs::metadata(fx.bdir.join(format!("backup_{}.json", victim.id))).map(|m| m.len() as usize).unwrap_or(0);
            let mk = |t: Tamper| TCase { fixture: w, incremental, on_parent, tamper: t };
            for off in 0..tar_len {
                for b in bits {
                    cases.push((w, mk(Tamper::FlipArchive { off, bit: *b })));
                }
            }
            for len in 0..tar_len {
                cases.push((w, mk(Tamper::TruncArchive { len })));
            }
            for off in 0..js_len {
                for b in bits {
                    cases.push((w, mk(Tamper::FlipMeta { off, bit: *b })));
                }
            }
            for len in 0..js_len {
                cases.push((w, mk(Tamper::TruncMeta { len })));
            }
            cases.push((w, mk(Tamper::DeleteArchive)));
        }
    }
    let next = std::sync::atomic::AtomicUsize::new(0);
    let stats = std::sync::Mutex::new(PartStats { part: "tamper".into(), rule: TamperP.rule(), exhaustive: true, ..Default::default() });
    let reported: std::sync::Mutex<BTreeSet<String>> = std::sync::Mutex::new(BTreeSet::new());
    std::thread::scope(|s| {
        for tix in 0..ctx.threads {
            let (next, stats, cases, fixtures, env, reported) = (&next, &stats, &cases, &fixtures, &env, &reported);
            s.spawn(move || {
                let mut st = PartStats::default();
                let work = env.dir(&format!("tw{}", tix));
                loop {
                    let i = next.fetch_add(1, std::sync::atomic::Ordering::Relaxed);
                    if i >= cases.len() {
                        break;
                    }
                    let (w, case) = &cases[i];
                    st.evaluations += 1;
                    match tamper_eval(&fixtures[*w], case, &work) {
                        Ok((judged, label)) => {
                            if judged {
                                st.nontrivial.insert(i as u64);
                                if st.samples.is_empty() && i % 997 == 5 {
                                    st.samples.push(format!("{:?} -> {}", case, label));
                                }
                            }
                            *st.labels.entry(label.to_string()).or_default() += 1;
                        }
                        Err(f) => {
                            if let Some(id) = ctx.known_id(&f.sig) {
                                *st.known_hits.entry(id).or_default() += 1;
                            } else {
                                // one report per signature, the search continues behind it
                                let key = f.sig.to_string();
                                if reported.lock().unwrap().insert(key) {
                                    ctx.report_violation("tamper", case, &f);
                                }
                            }
                        }
                    }
                }
                stats.lock().unwrap().merge(st);
            });
        }
    });
    ctx.add_part(stats.into_inner().unwrap());
    let _ = std::fs::remove_dir_all(env.scratch_root());
}

// ------------------------------------------------------------------------------------------
// clear + retention parts
// ------------------------------------------------------------------------------------------

#[derive(Clone, Debug, Serialize, Deserialize)]
pub struct RBackup {
    pub age_hours: u32,
    /// None = full; Some(i) = incremental whose parent is backup i (an earlier index)
    pub parent: Option<usize>,
}

#[derive(Clone, Debug, Serialize, Deserialize)]
pub struct RCase {
    pub backups: Vec<RBackup>,
    pub policy: (usize, usize, usize, usize, u64),
}

pub struct Retention;

impl Prop for Retention {
    type Case = RCase;
    fn part(&self) -> &'static str {
        "retention"
    }
    fn shape(&self, _tier: Tier) -> RawShape {
        RawShape { head_len: 8, chunk_len: 6, min_chunks: 2, max_chunks: 14 }
    }
    fn rule(&self) -> String {
        "synthetic backup directory (metadata + stub archives, ages 0..3000 h, random full/incremental chains) x random retention policy; non-trivial = at least one backup pruned and at least one incremental retained; distinct = hash of decoded case".into()
    }
    fn decode(&self, raw: &Raw, _tier: Tier) -> RCase {
        let mut t = Tape::new(&raw.head);
        let policy = (t.below(30), t.below(10), t.below(6), t.below(6), t.pick(&[0u64, 0, 1, 7]));
        let mut backups: Vec<RBackup> = vec![];
        for c in &raw.chunks {
            let mut t = Tape::new(c);
            let age_hours = t.pick(&[0u32, 1, 2, 5, 23, 25, 49, 100, 170, 400, 800, 2000, 3000]) + t.below(3) as u32;
            let parent = if backups.is_empty() || t.chance(70) { None } else if t.chance(128) { Some(backups.len() - 1) } else { Some(t.below(backups.len())) };
            backups.push(RBackup { age_hours, parent });
        }
        // usually a child is not older than its parent (clamped to the SAME second, which is what
        // two chained backups taken quickly after each other look like); in one case out of
        // six the clamp is skipped: a clock stepped backwards between parent and child.  The
        // property has no precondition on timestamps.
        let clock_stepped_back = t.chance(43);
        if !clock_stepped_back {
            for i in 0..backups.len() {
                if let Some(p) = backups[i].parent {
                    if backups[i].age_hours > backups[p].age_hours {
                        backups[i].age_hours = backups[p].age_hours;
                    }
                }
            }
        }
        RCase { backups, policy }
    }
    fn run(&self, case: &RCase, env: &CaseEnv) -> Result<CaseReport, Failure> {
        let bdir = env.dir("backups");
        let data = env.dir("data");
        let now = std::time::SystemTime::now().duration_since(std::time::UNIX_EPOCH).unwrap().as_secs();
        let mut metas: Vec<BackupMetadata> = vec![];
        for (i, b) in case.backups.iter().enumerate() {
            let mut m = match b.parent {
                None => BackupMetadata::new_full(10, 1, 0, format!("b{}", i)),
                Some(p) => BackupMetadata::new_incremental(metas[p].id, 10, 0, 0, format!("b{}", i)),
            };
            // 60 s margin keeps every backup on the same side of each bucket edge during the run
            m.timestamp = now.saturating_sub(b.age_hours as u64 * 3600 + 60);
            std::fs::write(bdir.join(format!("backup_{}.json", m.id)), serde_json::to_string_pretty(&m).unwrap()).unwrap();
            std::fs::write(bdir.join(format!("backup_{}.tar", m.id)), 0u32.to_le_bytes()).unwrap();
            metas.push(m);
        }
        let bm = BackupManager::new(&bdir, &data).map_err(|e| Failure::new("setup_failed", format!("{:#}", e)))?;
        let policy = RetentionPolicy { hourly_hours: case.policy.0, daily_days: case.policy.1, weekly_weeks: case.policy.2, monthly_months: case.policy.3, min_age_days: case.policy.4 };
        let deleted = bm.prune_backups(&policy).map_err(|e| Failure::new("prune_failed", format!("{:#}", e)))?;
        let survivors: BTreeSet<usize> = (0..metas.len()).filter(|i| bdir.join(format!("backup_{}.json", metas[*i].id)).exists()).collect();
        // reported == actually deleted
        let reported: BTreeSet<usize> = deleted.iter().filter_map(|id| metas.iter().position(|m| m.id == *id)).collect();
        let gone: BTreeSet<usize> = (0..metas.len()).filter(|i| !survivors.contains(i)).collect();
        if reported != gone {
            return Err(Failure::new("prune_report_differs", format!("prune reported {:?} but the backups actually gone are {:?}", reported, gone)));
        }
        for i in &gone {
            if bdir.join(format!("backup_{}.tar", metas[*i].id)).exists() {
                return Err(Failure::new("prune_left_archive", format!("backup {} metadata removed but archive left behind", i)));
            }
        }
        for i in &survivors {
            let mut cur = *i;
            while let Some(p) = case.backups[cur].parent {
                if !survivors.contains(&p) {
                    return Err(Failure::new(
                        "prune_removed_ancestor",
                        format!("retained backup {} (age {} h) depends on backup {} (age {} h) which was pruned; policy {:?}", i, case.backups[*i].age_hours, p, case.backups[p].age_hours, case.policy),
                    )
                    .with_sig(json!({"kind": "prune_removed_ancestor"})));
                }
                cur = p;
            }
        }
        let mut rep = CaseReport::default();
        rep.nontrivial = !gone.is_empty() && survivors.iter().any(|i| case.backups[*i].parent.is_some());
        Ok(rep)
    }
}

#[derive(Clone, Debug, Serialize, Deserialize)]
pub struct CCase {
    pub files: usize,
    pub pitr: bool,
}

pub struct ClearP;

impl Prop for ClearP {
    type Case = CCase;
    fn part(&self) -> &'static str {
        "clear"
    }
    fn shape(&self, _tier: Tier) -> RawShape {
        RawShape { head_len: 2, chunk_len: 1, min_chunks: 0, max_chunks: 0 }
    }
    fn rule(&self) -> String {
        "restore (by id and point-in-time) into a target holding 1..4 files with neither allow_clear nor BACKUP_ALLOW_CLEAR; non-trivial = always (target non-empty); distinct = (file count, api)".into()
    }
    fn decode(&self, raw: &Raw, _tier: Tier) -> CCase {
        let mut t = Tape::new(&raw.head);
        CCase { files: 1 + t.below(4), pitr: t.chance(128) }
    }
    fn run(&self, case: &CCase, env: &CaseEnv) -> Result<CaseReport, Failure> {
        let root = env.dir("fx");
        let fx = build_fixture(0, &root)?;
        let target = env.dir("target");
        for i in 0..case.files {
            std::fs::write(target.join(format!("keep_{}.dat", i)), format!("live {}", i)).unwrap();
        }
        let before = dir_fingerprint(&target);
        let rm = RestoreManager::new(&fx.bdir, &target).map_err(|e| Failure::new("setup_failed", format!("{:#}", e)))?;
        let res = if case.pitr { rm.restore_point_in_time(u64::MAX / 2) } else { rm.restore_from_backup(fx.full.id) };
        let after = dir_fingerprint(&target);
        if res.is_ok() || after != before {
            return Err(Failure::new(
                "cleared_without_confirmation",
                format!("restore into a non-empty target without confirmation: result ok={} and target files before {:?} after {:?}", res.is_ok(), before.keys().collect::<Vec<_>>(), after.keys().collect::<Vec<_>>()),
            ));
        }
        Ok(CaseReport { nontrivial: true, ..Default::default() })
    }
}

// ------------------------------------------------------------------------------------------
// point-in-time part (real clock: backups spaced by 1.1 s so every target has one answer)
// ------------------------------------------------------------------------------------------

#[derive(Clone, Debug, Serialize, Deserialize)]
pub struct PCase {
    pub cfg: BackendCfg,
    /// segments of writes, each followed by a backup (true = full, false = incremental on the previous)
    pub segments: Vec<(Vec<BOp>, bool)>,
    /// per segment: an incremental's parent is the backup this many steps up the parent chain of
    /// the latest backup (0 = the latest itself; >0 creates sibling incrementals, a "differential"
    /// schedule).  With parents always on the latest backup's ancestor chain, "the newest backup
    /// taken at or before T" is the unambiguous point-in-time answer.
    #[serde(default)]
    pub up: Vec<u8>,
}

pub struct Pitr;

impl Prop for Pitr {
    type Case = PCase;
    fn part(&self) -> &'static str {
        "pitr"
    }
    fn shape(&self, _tier: Tier) -> RawShape {
        RawShape { head_len: 8, chunk_len: 21, min_chunks: 4, max_chunks: 12 }
    }
    fn max_shrink_iters(&self) -> u32 {
        12
    }
    fn rule(&self) -> String {
        "2-4 backups spaced by 1.1 s of real time; an incremental's parent is the latest backup or one of its ancestors (sibling incrementals = differential schedule; new full backups start a new chain); point-in-time targets equal to, between and beyond the backup timestamps; non-trivial = a target that selects an incremental; distinct = hash of decoded case".into()
    }
    fn decode(&self, raw: &Raw, _tier: Tier) -> PCase {
        let mut t = Tape::new(&raw.head);
        let mut cfg = BackendCfg::decode(&mut t, &[2, 3]);
        cfg.rotate_bytes = t.pick(&[300u64, 1 << 20]);
        cfg.snapshot_interval = t.pick(&[0usize, 3]);
        let mut segments: Vec<(Vec<BOp>, bool)> = vec![];
        let mut up = vec![];
        let mut cur = vec![];
        for c in &raw.chunks {
            cur.push(decode_bop(&c[1..], &cfg, 5, &[10, 3, 2, 3, 1, 1]));
            if cur.len() >= 3 && segments.len() < 4 {
                let full = segments.is_empty() || c[0] < 50;
                // 0 (chain) for low bytes, 1-2 steps up for the upper 40 %
                up.push(if c[0] >= 205 { 2 } else if c[0] >= 150 { 1 } else { 0 });
                segments.push((std::mem::take(&mut cur), full));
            }
        }
        if segments.is_empty() {
            segments.push((cur, true));
            up.push(0);
        }
        PCase { cfg, segments, up }
    }
    fn run(&self, case: &PCase, env: &CaseEnv) -> Result<CaseReport, Failure> {
        let cfg = &case.cfg;
        let data = env.dir("data");
        let bdir = env.dir("backups");
        let mut b = cfg.create(&data).map_err(|e| Failure::new("setup_failed", format!("{:#}", e)))?;
        let bm = BackupManager::new(&bdir, &data).map_err(|e| Failure::new("setup_failed", format!("{:#}", e)))?;
        let mut model = Model::new();
        let mut ever = BTreeSet::new();
        let mut taken: Vec<(BackupMetadata, Dump)> = vec![];
        let mut rep = CaseReport::default();
        for (si, (ops, full)) in case.segments.iter().enumerate() {
            for op in ops {
                match op {
                    BOp::Snapshot => b.create_snapshot().map_err(|e| Failure::new("setup_failed", format!("{:#}", e)))?,
                    BOp::Restart => {
                        drop(b);
                        b = cfg.recover(&data).map_err(|e| Failure::new("setup_failed", format!("{:#}", e)))?;
                    }
                    w => {
                        apply_write(&b, &mut model, w, cfg, &mut ever).map_err(|f| Failure::new("setup_failed", f.msg))?;
                    }
                }
            }
            // wait until the wall clock second changes so timestamps are strictly increasing
            std::thread::sleep(std::time::Duration::from_millis(1100));
            let m = if *full || taken.is_empty() {
                bm.create_full_backup("pitr full".into())
            } else {
                // parent: `up` steps up the parent chain of the latest backup
                let mut parent = taken.last().unwrap().0.clone();
                for _ in 0..case.up.get(si).copied().unwrap_or(0) {
                    let Some(pid) = parent.parent_id else { break };
                    let Some((pm, _)) = taken.iter().find(|(m, _)| m.id == pid) else { break };
                    parent = pm.clone();
                    rep.label("sibling_incremental");
                }
                bm.create_incremental_backup(parent.id, "pitr incr".into())
            };
            match m {
                Ok(m) => taken.push((m, model.docs.clone())),
                Err(e) => {
                    let msg = format!("{:#}", e);
                    if !msg.contains("No new WAL files since parent backup") {
                        return Err(Failure::new("backup_failed", msg));
                    }
                }
            }
        }
        drop(b);
        if taken.is_empty() {
            return Ok(rep);
        }
        let mut targets: Vec<u64> = vec![];
        for (m, _) in &taken {
            targets.push(m.timestamp);
        }
        targets.push(taken.last().unwrap().0.timestamp + 1000);
        for (k, t) in targets.iter().enumerate() {
            // expected: the newest backup with timestamp <= T (timestamps are strictly increasing)
            let Some((em, edump)) = taken.iter().rev().find(|(m, _)| m.timestamp <= *t) else { continue };
            let target = env.dir(&format!("pitr{}", k));
            let rm = RestoreManager::new(&bdir, &target).map_err(|e| Failure::new("setup_failed", format!("{:#}", e)))?;
            let incr = em.backup_type == BackupType::Incremental;
            let sig = json!({"kind": "pitr_wrong", "incremental": incr});
            let res = rm.restore_point_in_time_with_options(*t, &ClearDirectoryOptions::new().with_allow_clear(true));
            let f = match res {
                Err(e) => Some(format!("point-in-time restore to {} failed: {:#}", t, e)),
                Ok(()) => match cfg.recover(&target) {
                    Err(e) => Some(format!("directory restored for time {} does not start: {:#}", t, e)),
                    Ok(bk) => diff_dumps(edump, &dump_backend(&bk)).map(|d| format!("point-in-time restore to {} (expected the {:?} backup taken at {}): {}", t, em.backup_type, em.timestamp, d)),
                },
            };
            if let Some(msg) = f {
                if env.ctx.is_known(&sig) {
                    rep.known_sigs.push(sig);
                    continue;
                }
                return Err(Failure::new("pitr_wrong", msg).with_sig(sig));
            }
            rep.count("evaluations_judged", 1);
            if incr {
                rep.nontrivial = true;
            }
        }
        Ok(rep)
    }
}

pub fn main(ctx: &Ctx) {
    std::env::remove_var("BACKUP_ALLOW_CLEAR");
    ctx.assume("backups are taken at quiescent points (no write in flight); the live engine keeps its files open");
    ctx.assume("retention timelines are synthetic metadata + stub archives with timestamps relative to now (60 s margin from bucket edges)");
    run_committed_replays(ctx, &Restore);
    run_committed_replays(ctx, &TamperP);
    run_committed_replays(ctx, &Retention);
    run_pbt(ctx, &Restore, ctx.tier.pick(1_500, 30_000));
    run_tamper_exhaustive(ctx);
    run_pbt(ctx, &Retention, ctx.tier.pick(20_000, 400_000));
    run_pbt(ctx, &ClearP, ctx.tier.pick(16, 64));
    run_pbt(ctx, &Pitr, ctx.tier.pick(48, 256));
}

pub fn replay(ctx: &Ctx, v: &serde_json::Value) -> Option<i32> {
    std::env::remove_var("BACKUP_ALLOW_CLEAR");
    replay_file(ctx, &Restore, v)
        .or_else(|| replay_file(ctx, &TamperP, v))
        .or_else(|| replay_file(ctx, &Retention, v))
        .or_else(|| replay_file(ctx, &ClearP, v))
        .or_else(|| replay_file(ctx, &Pitr, v))
}
