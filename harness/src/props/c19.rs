//! C19 — rate limits bound admitted traffic.
//!
//! Generated: (tenant rate, global rate, tenants, caller threads, call pattern) on the real
//! clock.  Every bound is checked against the interval measured on the CALLER's clock from
//! before the first to after the last call of the window, so the bound is never tighter than
//! the real one (time only loosens it).

use crate::common::runner::*;
use crate::common::tape::Tape;
use kyrodb_engine::RateLimiter;
use serde::{Deserialize, Serialize};
use serde_json::json;
use std::sync::Arc;
use std::time::{Duration, Instant};

#[derive(Clone, Debug, Serialize, Deserialize)]
pub enum Step {
    /// one call for tenant index t
    Call(usize),
    /// sleep this many 100-microsecond units
    Gap(u16),
}

#[derive(Clone, Debug, Serialize, Deserialize)]
pub struct Case {
    pub rate: u32,
    pub global: Option<u32>,
    pub tenants: usize,
    pub threads: usize,
    /// per-thread script (threads == 1: the sequential script is judged call by call)
    pub scripts: Vec<Vec<Step>>,
}

pub struct C19;

struct Obs {
    tenant: usize,
    before: Instant,
    after: Instant,
    admitted: bool,
}

fn check_windows(obs: &[Obs], rate: f64, what: &str, filter: impl Fn(&Obs) -> bool) -> Result<(), Failure> {
    // sort by 'before'; for every window [i..j] admitted <= burst + rate * (after_j - before_i) + 1
    let mut v: Vec<&Obs> = obs.iter().filter(|o| filter(o)).collect();
    v.sort_by_key(|o| o.before);
    let n = v.len();
    // prefix counts of admitted
    for i in 0..n {
        let mut count = 0u64;
        let mut latest_after = v[i].after;
        for j in i..n {
            if v[j].admitted {
                count += 1;
            }
            if v[j].after > latest_after {
                latest_after = v[j].after;
            }
            let span = latest_after.duration_since(v[i].before).as_secs_f64();
            let bound = rate + rate * span + 1e-3;
            if count as f64 > bound {
                return Err(Failure::new(
                    "rate_bound_exceeded",
                    format!("{}: {} requests admitted in a window of {:.6} s (calls {}..{} of {}), bound burst {} + rate x interval = {:.3}", what, count, span, i, j, n, rate, bound),
                )
                .with_sig(json!({"kind": "rate_bound_exceeded", "scope": what.split(' ').next().unwrap_or("")})));
            }
        }
        // windows starting later can only be smaller if nothing was admitted; cheap pruning for long scripts
        if n > 400 && i > 50 {
            break;
        }
    }
    Ok(())
}

impl Prop for C19 {
    type Case = Case;
    fn part(&self) -> &'static str {
        "limiter"
    }
    fn shape(&self, _tier: Tier) -> RawShape {
        RawShape { head_len: 12, chunk_len: 3, min_chunks: 8, max_chunks: 160 }
    }
    fn max_shrink_iters(&self) -> u32 {
        60
    }
    fn rule(&self) -> String {
        "rate in {1,2,5,50,1000} x global in {none,1,3,10,100000} x 1-4 tenants x 1-8 threads x generated call/gap scripts (<= 300 ms) plus a scripted drain / refused-hammer / 1.1 s idle / burst pattern in ~5 % of the cases; non-trivial = at least one refusal and one admission (and, for the refund rule, a global refusal while the tenant bucket had a token); distinct = hash of decoded case".into()
    }
    fn decode(&self, raw: &Raw, _tier: Tier) -> Case {
        let mut t = Tape::new(&raw.head);
        let rate = t.pick(&[1u32, 2, 5, 50, 1000]);
        let global = t.pick(&[None, Some(1u32), Some(3), Some(10), Some(100_000)]);
        let tenants = 1 + t.below(4);
        let threads = t.pick(&[1usize, 1, 1, 2, 4, 8]);
        let gap_style = t.below(4); // 0 bursts only, 1 short gaps, 2 long gaps, 3 idle then burst
        if t.chance(14) {
            // scripted long pattern (one thread): other tenants drain the global bucket, tenant 0
            // keeps being refused by the global limit, everything idles for 1.1 s (global refill),
            // then tenant 0 bursts.  A refund that credits more than it took shows up here.
            let (rate, global) = t.pick(&[(5u32, 10u32), (2, 10), (2, 3), (1, 3)]);
            let mut s = vec![];
            let drainers = ((global + rate - 1) / rate) as usize;
            for d in 0..drainers {
                for _ in 0..rate {
                    s.push(Step::Call(1 + d));
                }
            }
            for _ in 0..(3 * rate + 8) {
                s.push(Step::Call(0));
            }
            s.push(Step::Gap(11_000));
            for _ in 0..(global + 5) {
                s.push(Step::Call(0));
            }
            return Case { rate, global: Some(global), tenants: 1 + drainers, threads: 1, scripts: vec![s] };
        }
        let mut scripts: Vec<Vec<Step>> = vec![vec![]; threads];
        let mut budget_units: u32 = 3000; // 300 ms in 100 us units, shared across each script
        for (i, c) in raw.chunks.iter().enumerate() {
            let mut t = Tape::new(c);
            let th = i % threads;
            let step = if gap_style != 0 && t.chance(if gap_style == 1 { 50 } else { 90 }) {
                let g = match gap_style {
                    1 => 1 + t.below(20) as u16,
                    2 => 10 + t.below(50) as u16,
                    _ => {
                        if i < threads * 2 {
                            200 + t.below(500) as u16
                        } else {
                            0
                        }
                    }
                };
                let g = (g as u32).min(budget_units / threads as u32) as u16;
                budget_units = budget_units.saturating_sub(g as u32);
                Step::Gap(g)
            } else {
                Step::Call(t.below(tenants))
            };
            scripts[th].push(step);
        }
        Case { rate, global, tenants, threads, scripts }
    }

    fn run(&self, case: &Case, _env: &CaseEnv) -> Result<CaseReport, Failure> {
        let rl = Arc::new(RateLimiter::new_with_global(case.global));
        let names: Vec<String> = (0..case.tenants).map(|i| format!("tenant{}", i)).collect();
        let mut rep = CaseReport::default();
        let mut all: Vec<Obs> = vec![];
        if case.threads == 1 {
            // sequential: also the clock-free rules (refund, no false refusal)
            let mut admitted_t = vec![0u32; case.tenants];
            let mut admitted_all = 0u32;
            for (k, s) in case.scripts[0].iter().enumerate() {
                match s {
                    Step::Gap(g) => std::thread::sleep(Duration::from_micros(*g as u64 * 100)),
                    Step::Call(t) => {
                        let tokens_before = rl.available_tokens(&names[*t]);
                        let before = Instant::now();
                        let ok = rl.check_limit(&names[*t], case.rate);
                        let after = Instant::now();
                        let tokens_after = rl.available_tokens(&names[*t]);
                        // (3) no false refusal: both buckets start full and only refill
                        let room_global = case.global.map_or(true, |g| admitted_all < g);
                        if !ok && admitted_t[*t] < case.rate && room_global {
                            return Err(Failure::new(
                                "false_refusal",
                                format!("call {} for tenant {} refused although the tenant was admitted only {} < rate {} times and the global budget had room ({} admitted, global {:?})", k, t, admitted_t[*t], case.rate, admitted_all, case.global),
                            ));
                        }
                        // (2) refund: a refusal while the tenant had a token consumes nothing
                        if !ok {
                            if let (Some(b), Some(a)) = (tokens_before, tokens_after) {
                                if b >= 1.0 {
                                    rep.label("global_refusal_with_tenant_token");
                                    rep.nontrivial = true;
                                    if a < b - 1e-6 {
                                        return Err(Failure::new(
                                            "global_refusal_consumed_tenant_budget",
                                            format!("call {} for tenant {} was refused (global limit) but the tenant's tokens dropped from {} to {}", k, t, b, a),
                                        ));
                                    }
                                }
                            }
                        }
                        if ok {
                            admitted_t[*t] += 1;
                            admitted_all += 1;
                        }
                        all.push(Obs { tenant: *t, before, after, admitted: ok });
                    }
                }
            }
        } else {
            let mut handles = vec![];
            for th in 0..case.threads {
                let rl = Arc::clone(&rl);
                let script = case.scripts[th].clone();
                let names = names.clone();
                let rate = case.rate;
                handles.push(std::thread::spawn(move || {
                    let mut out = vec![];
                    for s in script {
                        match s {
                            Step::Gap(g) => std::thread::sleep(Duration::from_micros(g as u64 * 100)),
                            Step::Call(t) => {
                                let before = Instant::now();
                                let ok = rl.check_limit(&names[t], rate);
                                let after = Instant::now();
                                out.push(Obs { tenant: t, before, after, admitted: ok });
                            }
                        }
                    }
                    out
                }));
            }
            for h in handles {
                all.extend(h.join().map_err(|_| Failure::new("panic", "caller thread panicked".to_string()))?);
            }
            rep.label("concurrent");
        }
        // (1)/(4) bounds over every window
        for t in 0..case.tenants {
            check_windows(&all, case.rate as f64, &format!("tenant {}", t), |o| o.tenant == t)?;
        }
        if let Some(g) = case.global {
            check_windows(&all, g as f64, "global", |_| true)?;
        }
        let any_ok = all.iter().any(|o| o.admitted);
        let any_no = all.iter().any(|o| !o.admitted);
        if any_ok && any_no {
            rep.nontrivial = true;
        }
        rep.count("calls", all.len() as u64);
        Ok(rep)
    }
}


// ------------------------------------------------------------------------------------------
// server part: RESOURCE_EXHAUSTED counts through the real binary
// ------------------------------------------------------------------------------------------

#[derive(Clone, Debug, Serialize, Deserialize)]
pub struct SCase {
    pub max_qps: u32,
    pub global: u32,
    pub clients: usize,
    pub calls_per_client: usize,
    /// pause (ms) in the middle of each client's calls
    pub pause_ms: u64,
}

pub struct Srv;

impl Prop for Srv {
    type Case = SCase;
    fn part(&self) -> &'static str {
        "server"
    }
    fn shape(&self, _tier: Tier) -> RawShape {
        RawShape { head_len: 8, chunk_len: 1, min_chunks: 0, max_chunks: 0 }
    }
    fn max_shrink_iters(&self) -> u32 {
        8
    }
    fn rule(&self) -> String {
        "real kyrodb_server with auth and rate limiting on: tenant max_qps {1,2,5,20} x global limit {3, 100000} x 1-4 concurrent gRPC clients of ONE tenant x 10-60 Query calls each with a 0-400 ms pause in the middle; admitted = any answer other than RESOURCE_EXHAUSTED; bound per window on the callers' clocks; non-trivial = at least one admitted and one refused call; distinct = decoded case".into()
    }
    fn decode(&self, raw: &Raw, _tier: Tier) -> SCase {
        let mut t = Tape::new(&raw.head);
        SCase { max_qps: t.pick(&[1u32, 2, 5, 20]), global: t.pick(&[100_000u32, 3, 100_000]), clients: 1 + t.below(4), calls_per_client: 10 + t.below(51), pause_ms: [0u64, 0, 120, 400][t.below(4)] }
    }
    fn run(&self, case: &SCase, env: &CaseEnv) -> Result<CaseReport, Failure> {
        use crate::common::srv::{key_for, with_key, Server, SrvCfg};
        let shard = crate::props::c10::SHARD.with(|s| *s);
        let mut cfg = SrvCfg::default_for(4, "euclidean", true, 1_000_000);
        cfg.rate_limit = true;
        cfg.max_qps_global = case.global as usize;
        for t in cfg.tenants.iter_mut() {
            t.max_qps = case.max_qps;
        }
        let mut srv = Server::new(cfg, &env.dir("srv"), shard);
        srv.start().map_err(|e| Failure::new("setup_failed", e))?;
        let port = srv.port;
        let key = key_for("alpha", 0xa1);
        let mut all: Vec<Obs> = vec![];
        let results: Vec<Vec<Obs>> = std::thread::scope(|sc| {
            let hs: Vec<_> = (0..case.clients)
                .map(|_| {
                    let key = key.clone();
                    sc.spawn(move || {
                        let rt = tokio::runtime::Builder::new_current_thread().enable_all().build().unwrap();
                        rt.block_on(async move {
                            let mut out = vec![];
                            let ep = tonic::transport::Endpoint::from_shared(format!("http://127.0.0.1:{}", port)).unwrap();
                            let Ok(ch) = ep.connect().await else { return out };
                            let mut c = kyrodb_engine::proto::kyro_db_service_client::KyroDbServiceClient::new(ch);
                            for i in 0..case.calls_per_client {
                                if i == case.calls_per_client / 2 && case.pause_ms > 0 {
                                    tokio::time::sleep(Duration::from_millis(case.pause_ms)).await;
                                }
                                let before = Instant::now();
                                let r = c.query(with_key(kyrodb_engine::proto::QueryRequest { doc_id: 1, include_embedding: false, namespace: String::new() }, Some(&key))).await;
                                let after = Instant::now();
                                let admitted = match &r {
                                    Ok(_) => true,
                                    Err(s) => s.code() != tonic::Code::ResourceExhausted,
                                };
                                out.push(Obs { tenant: 0, before, after, admitted });
                            }
                            out
                        })
                    })
                })
                .collect();
            hs.into_iter().map(|h| h.join().unwrap_or_default()).collect()
        });
        srv.stop_kill();
        for r in results {
            all.extend(r);
        }
        if all.is_empty() {
            return Err(Failure::new("setup_failed", "no call reached the server".to_string()));
        }
        check_windows(&all, case.max_qps as f64, "tenant alpha (server)", |_| true)?;
        if case.global < 100_000 {
            check_windows(&all, case.global as f64, "global (server)", |_| true)?;
        }
        let mut rep = CaseReport::default();
        rep.nontrivial = all.iter().any(|o| o.admitted) && all.iter().any(|o| !o.admitted);
        rep.count("calls", all.len() as u64);
        rep.count("admitted", all.iter().filter(|o| o.admitted).count() as u64);
        Ok(rep)
    }
}

pub fn main(ctx: &Ctx) {
    ctx.assume("bounds use the caller's clock from before the first to after the last call of each window (plus 0.001 token for floating-point rounding), so elapsed time can only loosen them");
    ctx.assume("the refund and no-false-refusal rules are judged on single-threaded scripts only");
    run_committed_replays(ctx, &C19);
    run_pbt(ctx, &C19, ctx.tier.pick(2_000, 30_000));
    run_committed_replays(ctx, &Srv);
    run_pbt(ctx, &Srv, ctx.tier.pick(64, 800));
}

pub fn replay(ctx: &Ctx, v: &serde_json::Value) -> Option<i32> {
    replay_file(ctx, &C19, v).or_else(|| replay_file(ctx, &Srv, v))
}
