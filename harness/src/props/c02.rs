//! C02 — restart is lossless.
//!
//! Generated: configuration (metric x dim x snapshot interval x rotation bytes x capacity) and a
//! history of writes, manual snapshots and clean restarts against `HnswBackend` with
//! persistence.  Oracle: at every restart, dump(live) == model == dump(recovered), the
//! rebuilt metadata index agrees with a scan, and the history continues on the recovered
//! engine (so sequence numbers / snapshots after a restart are exercised by the next one).

use crate::common::eng::{diff_dumps, dir_listing, dump_backend, BackendCfg};
use crate::common::gens::{filter_to_proto, Filter, DIMS_SMALL};
use crate::common::hist::{apply_write, decode_bop, BOp};
use crate::common::model::Model;
use crate::common::runner::*;
use crate::common::tape::Tape;
use serde::{Deserialize, Serialize};
use serde_json::json;
use std::collections::BTreeSet;

#[derive(Clone, Debug, Serialize, Deserialize)]
pub struct Case {
    pub cfg: BackendCfg,
    pub pool: usize,
    pub ops: Vec<BOp>,
}

pub struct C02;

pub fn check_metadata_index(b: &kyrodb_engine::HnswBackend, model: &Model, when: &str) -> Result<(), Failure> {
    let mut pairs: BTreeSet<(String, String)> = BTreeSet::new();
    for d in model.docs.values() {
        for (k, v) in &d.meta {
            pairs.insert((k.clone(), v.clone()));
        }
    }
    for (k, v) in pairs {
        let f = Filter::Exact(k.clone(), v.clone());
        let mut got = b.ids_for_metadata_filter(&filter_to_proto(&f));
        got.sort_unstable();
        let want: Vec<u64> = model.docs.iter().filter(|(_, d)| d.meta.get(&k) == Some(&v)).map(|(id, _)| *id).collect();
        if got != want {
            return Err(Failure::new(
                "metadata_index_differs",
                format!("{}: ids_for_metadata_filter({}=={:?}) = {:?}, model says {:?}", when, k, v.chars().take(20).collect::<String>(), got, want),
            ));
        }
    }
    Ok(())
}

impl Prop for C02 {
    type Case = Case;
    fn part(&self) -> &'static str {
        "restart"
    }
    fn shape(&self, tier: Tier) -> RawShape {
        RawShape { head_len: 8, chunk_len: 20, min_chunks: 4, max_chunks: tier.pick(40, 90) }
    }
    fn rule(&self) -> String {
        "history decoded from proptest bytes (config head + one 20-byte chunk per op); non-trivial = at least one restart that follows a delete or overwrite AND a snapshot file or a second WAL segment was observed on disk; distinct = hash of the decoded case".into()
    }
    fn decode(&self, raw: &Raw, _tier: Tier) -> Case {
        let mut t = Tape::new(&raw.head);
        let cfg = BackendCfg::decode(&mut t, DIMS_SMALL);
        let pool = 3 + t.below(6);
        let ops = raw.chunks.iter().map(|c| decode_bop(c, &cfg, pool, &[10, 3, 2, 3, 1, 2])).collect();
        Case { cfg, pool, ops }
    }
    fn run(&self, case: &Case, env: &CaseEnv) -> Result<CaseReport, Failure> {
        let dir = env.dir("data");
        let cfg = &case.cfg;
        let mut b = cfg.create(&dir).map_err(|e| Failure::new("create_failed", format!("create: {:#}", e)))?;
        let mut model = Model::new();
        let mut rep = CaseReport::default();
        let mut ever_deleted = BTreeSet::new();
        let mut dirty_since_restart = false; // delete/overwrite since last restart
        let mut restarts = 0u64;
        let mut nontrivial_restart = false;
        let mut saw_snapshot_or_rotation = false;
        let mut seen_wals: BTreeSet<String> = BTreeSet::new();
        let mut slots_since_open = 0usize;

        let mut ops: Vec<BOp> = case.ops.clone();
        ops.push(BOp::Restart); // every history ends with a checked restart

        for (i, op) in ops.iter().enumerate() {
            match op {
                BOp::Snapshot => {
                    b.create_snapshot().map_err(|e| Failure::new("snapshot_failed", format!("op {} create_snapshot: {:#}", i, e)))?;
                }
                BOp::Restart => {
                    let live = dump_backend(&b);
                    if let Some(d) = diff_dumps(&model.docs, &live) {
                        return Err(Failure::new("live_differs_from_model", format!("before restart #{} (op {}): {}", restarts + 1, i, d)));
                    }
                    for (name, _) in dir_listing(&dir) {
                        if name.ends_with(".snap") {
                            saw_snapshot_or_rotation = true;
                        }
                        if name.ends_with(".wal") {
                            seen_wals.insert(name);
                        }
                    }
                    drop(b);
                    b = cfg.recover(&dir).map_err(|e| {
                        Failure::new("recover_failed", format!("restart #{} (op {}): recover failed: {:#}", restarts + 1, i, e))
                            .with_detail(json!({"listing": dir_listing(&dir)}))
                    })?;
                    let rec = dump_backend(&b);
                    if let Some(d) = diff_dumps(&live, &rec) {
                        return Err(Failure::new("restart_changed_state", format!("restart #{} (op {}): {}", restarts + 1, i, d))
                            .with_detail(json!({"listing": dir_listing(&dir)})));
                    }
                    if b.len() != model.len() {
                        return Err(Failure::new("len_differs", format!("after restart len()={} model={}", b.len(), model.len())));
                    }
                    check_metadata_index(&b, &model, "after restart")?;
                    restarts += 1;
                    if dirty_since_restart {
                        nontrivial_restart = true;
                    }
                    dirty_since_restart = false;
                    slots_since_open = 0;
                }
                w => {
                    let info = apply_write(&b, &mut model, w, cfg, &mut ever_deleted).map_err(|mut f| {
                        f.msg = format!("op {} {}: {}", i, w.short(), f.msg);
                        f
                    })?;
                    if info.overwrote || info.deleted_existing {
                        dirty_since_restart = true;
                    }
                    if info.reinserted {
                        rep.label("reinsertion");
                    }
                    if info.index_full_err {
                        rep.label("index_full_rejection");
                    }
                    if matches!(w, BOp::Insert { .. }) && !info.index_full_err {
                        if slots_since_open >= cfg.capacity {
                            rep.label("tombstone_compaction");
                        }
                        slots_since_open += 1;
                    }
                }
            }
            if seen_wals.len() > 1 {
                saw_snapshot_or_rotation = true;
            }
        }
        // WAL compaction observed = a segment seen earlier is no longer on disk
        let now: BTreeSet<String> = dir_listing(&dir).into_iter().map(|(n, _)| n).collect();
        if seen_wals.iter().any(|w| !now.contains(w)) {
            rep.label("wal_compaction");
        }
        drop(b);
        rep.nontrivial = nontrivial_restart && saw_snapshot_or_rotation;
        rep.label(match restarts {
            1 => "restarts=1",
            2 => "restarts=2",
            _ => "restarts>=3",
        });
        if saw_snapshot_or_rotation {
            rep.label("snapshot_or_rotation");
        }
        Ok(rep)
    }
}

pub fn main(ctx: &Ctx) {
    ctx.assume("clean stops only (drop of the engine at an operation boundary); crash points are C01");
    ctx.assume("fsync policy Never (irrelevant for clean stops); scratch directory on tmpfs");
    run_committed_replays(ctx, &C02);
    run_pbt(ctx, &C02, ctx.tier.pick(150_000, 3_000_000));
}

pub fn replay(ctx: &Ctx, v: &serde_json::Value) -> Option<i32> {
    replay_file(ctx, &C02, v)
}
