//! History language over `TieredEngine` with read sweeps — shared by C04 (lookups return the
//! canonical latest version whatever the caches hold) and C20 (caches and the recent-write
//! tier stay within their bounds; evicted/drained content stays readable).

use crate::common::eng::{diff_dumps, dump_backend};
use crate::common::gens::{meta_map, valid_vector, FVec};
use crate::common::model::{bits_of, meta_from_hash, meta_to_hash, stored_plausible, Meta, Model};
use crate::common::runner::*;
use crate::common::tape::Tape;
use crate::common::tiered::{Strat, Tiered, TieredCfg};
use kyrodb_engine::{CachedVector, PointQueryTier, VectorCoherenceToken};
use serde::{Deserialize, Serialize};
use serde_json::json;
use std::collections::{BTreeMap, BTreeSet};
use std::time::Instant;

#[derive(Clone, Copy, Debug, PartialEq, Eq, Serialize, Deserialize)]
pub enum Flavour {
    Query,
    DocWithMeta,
    CacheAware,
    GetMeta,
    Exists,
    BulkWithEmb,
    BulkNoEmb,
}

pub const FLAVOURS: &[Flavour] = &[
    Flavour::Query,
    Flavour::DocWithMeta,
    Flavour::CacheAware,
    Flavour::GetMeta,
    Flavour::Exists,
    Flavour::BulkWithEmb,
    Flavour::BulkNoEmb,
];

#[derive(Clone, Copy, Debug, PartialEq, Eq, Serialize, Deserialize)]
pub enum PokeKind {
    /// L1a entry with the previous vector and previous token of the id
    StaleL1a,
    /// L1a entry carrying the current canonical token but a different payload
    CorruptL1a,
    /// mirror entry with the previous vector and token
    StaleMirror,
    /// mirror entry with the current canonical token but a foreign vector and metadata
    ForeignMirror,
    /// mirror entry for an id that has no canonical record
    Orphan,
}

#[derive(Clone, Copy, Debug, PartialEq, Eq, Serialize, Deserialize)]
pub enum Sweep {
    None,
    One(Flavour),
    /// all flavours, starting at the given offset (read-repair of one flavour must not hide
    /// a stale answer of another, so the order is part of the generated input)
    All(usize),
}

#[derive(Clone, Debug, PartialEq, Serialize, Deserialize)]
pub enum TKind {
    Insert { id: u64, vec: FVec, meta: Meta },
    Delete { id: u64 },
    BatchDelete { ids: Vec<u64> },
    UpdateMeta { id: u64, meta: Meta, merge: bool },
    BulkLoad { docs: Vec<(u64, FVec, Meta)> },
    Flush { force: bool },
    Tick,
    Read { flavour: Flavour, id: u64 },
    Search { q: FVec, k: usize, scope: u64 },
    Poke { kind: PokeKind, id: u64 },
    Restart,
    /// write again exactly what was written before: the previous version of the id
    /// (prev = true) or its current version (prev = false), vector bits and metadata
    Rewrite { id: u64, prev: bool, bulk: bool },
    /// bulk read with repeated ids
    BulkDup { ids: Vec<u64>, with_embeddings: bool },
}

#[derive(Clone, Debug, PartialEq, Serialize, Deserialize)]
pub struct TOp {
    pub kind: TKind,
    pub sweep: Sweep,
}

#[derive(Clone, Debug, Serialize, Deserialize)]
pub struct TCase {
    pub cfg: TieredCfg,
    pub pool: usize,
    pub ops: Vec<TOp>,
}

#[derive(Clone, Copy, PartialEq, Eq, Debug)]
pub enum Mode {
    C04,
    C20,
}

fn pick_tid(t: &mut Tape, pool: usize) -> u64 {
    if t.chance(8) {
        [0u64, 1 << 40][t.below(2)]
    } else {
        1 + t.below(pool) as u64
    }
}

pub fn decode_case(raw: &Raw, mode: Mode) -> TCase {
    let mut t = Tape::new(&raw.head);
    let cfg = match mode {
        Mode::C04 => TieredCfg::decode(&mut t, &[2, 3, 4, 8], &[1, 3, 64], &[1, 2, 8]),
        Mode::C20 => TieredCfg::decode(&mut t, &[2, 4], &[1, 2, 5], &[1, 2, 4]),
    };
    let mut cfg = cfg;
    if mode == Mode::C20 {
        // small index capacities so that a drain repair can fail on a full index
        cfg.capacity = t.pick(&[1000usize, 4, 6, 16]);
    }
    let pool = 3 + t.below(6);
    // weights: insert, delete, batch delete, update, bulk load, flush, tick, read, search, poke, restart
    let weights: [u32; 13] = match mode {
        Mode::C04 => [20, 5, 3, 6, 5, 4, 1, 20, 4, 12, if cfg.persist { 2 } else { 0 }, 6, 4],
        Mode::C20 => [26, 4, 2, 4, 4, 3, 1, 16, 14, 4, if cfg.persist { 1 } else { 0 }, 3, 3],
    };
    let ops = raw
        .chunks
        .iter()
        .map(|c| {
            let mut t = Tape::new(c);
            let sweep = match t.weighted(&[3, 3, 4]) {
                0 => Sweep::None,
                1 => Sweep::One(t.pick(FLAVOURS)),
                _ => Sweep::All(t.below(FLAVOURS.len())),
            };
            let kind = match t.weighted(&weights) {
                0 => TKind::Insert { id: pick_tid(&mut t, pool), vec: FVec(valid_vector(&mut t, cfg.dim, cfg.metric)), meta: meta_map(&mut t, 2) },
                1 => TKind::Delete { id: pick_tid(&mut t, pool) },
                2 => {
                    let n = t.below(4);
                    let mut ids: Vec<u64> = (0..n).map(|_| pick_tid(&mut t, pool)).collect();
                    if n >= 2 && t.chance(80) {
                        ids.push(ids[0]);
                    }
                    TKind::BatchDelete { ids }
                }
                3 => TKind::UpdateMeta { id: pick_tid(&mut t, pool), meta: meta_map(&mut t, 2), merge: t.chance(128) },
                4 => {
                    let n = 1 + t.below(3);
                    TKind::BulkLoad {
                        docs: (0..n).map(|_| (pick_tid(&mut t, pool), FVec(valid_vector(&mut t, cfg.dim, cfg.metric)), meta_map(&mut t, 2))).collect(),
                    }
                }
                5 => TKind::Flush { force: t.chance(160) },
                6 => TKind::Tick,
                7 => TKind::Read { flavour: t.pick(FLAVOURS), id: pick_tid(&mut t, pool) },
                8 => TKind::Search { q: FVec(valid_vector(&mut t, cfg.dim, cfg.metric)), k: 1 + t.below(5), scope: t.below(3) as u64 },
                9 => {
                    let kinds: &[PokeKind] = match mode {
                        Mode::C04 => &[PokeKind::StaleL1a, PokeKind::CorruptL1a, PokeKind::StaleMirror, PokeKind::ForeignMirror, PokeKind::Orphan],
                        Mode::C20 => &[PokeKind::Orphan],
                    };
                    TKind::Poke { kind: t.pick(kinds), id: pick_tid(&mut t, pool) }
                }
                10 => TKind::Restart,
                11 => TKind::Rewrite { id: pick_tid(&mut t, pool), prev: t.chance(160), bulk: t.chance(64) },
                _ => {
                    let n = 2 + t.below(4);
                    let mut ids: Vec<u64> = (0..n).map(|_| pick_tid(&mut t, pool)).collect();
                    let d = ids[t.below(ids.len())];
                    ids.push(d);
                    if t.chance(128) {
                        ids.insert(0, d);
                    }
                    TKind::BulkDup { ids, with_embeddings: t.chance(160) }
                }
            };
            TOp { kind, sweep }
        })
        .collect();
    TCase { cfg, pool, ops }
}

struct Prev {
    vec: Vec<f32>,
    token: VectorCoherenceToken,
    meta: Meta,
}

pub struct Interp<'a> {
    pub case: &'a TCase,
    pub mode: Mode,
    pub te: Tiered,
    pub model: Model,
    pub rep: CaseReport,
    ids: Vec<u64>,
    prev: BTreeMap<u64, Prev>,
    /// ids with a planted hot-only orphan whose repair outcome is tolerated
    orphans: BTreeSet<u64>,
    /// ids overwritten / deleted / bulk-loaded / poked since their last judged cache-served read
    hot_ids: BTreeSet<u64>,
    after_emergency: bool,
    dir: Option<std::path::PathBuf>,
    step: usize,
}

fn fail(kind: &str, step: usize, what: &str, msg: String) -> Failure {
    Failure::new(kind, format!("op {} {}: {}", step, what, msg))
}

impl<'a> Interp<'a> {
    pub fn new(case: &'a TCase, mode: Mode, env: &CaseEnv) -> Result<Self, Failure> {
        let mut ids: Vec<u64> = (1..=case.pool as u64).collect();
        ids.push(0);
        ids.push(1 << 40);
        let dir = if case.cfg.persist { Some(env.dir("data")) } else { None };
        let te = Tiered::build(&case.cfg, dir.as_deref(), &ids).map_err(|e| Failure::new("setup_failed", format!("{:#}", e)))?;
        Ok(Interp {
            case,
            mode,
            te,
            model: Model::new(),
            rep: CaseReport::default(),
            ids,
            prev: BTreeMap::new(),
            orphans: BTreeSet::new(),
            hot_ids: BTreeSet::new(),
            after_emergency: false,
            dir,
            step: 0,
        })
    }

    fn remember_prev(&mut self, id: u64) {
        let cold = self.te.engine.cold_tier();
        if let Some((v, tok)) = cold.fetch_document_with_coherence(id) {
            let meta = cold.fetch_metadata(id).map(|m| meta_from_hash(&m)).unwrap_or_default();
            self.prev.insert(id, Prev { vec: v, token: tok, meta });
        }
    }

    /// After an acknowledged write: read the canonical stored bits back into the model.
    fn adopt(&mut self, id: u64, input: &[f32], meta: &Meta, what: &str) -> Result<(), Failure> {
        let cold = self.te.engine.cold_tier();
        let stored = cold
            .fetch_document(id)
            .ok_or_else(|| fail("ack_not_visible", self.step, what, format!("write of {} acknowledged but canonical store has no record", id)))?;
        if !stored_plausible(self.case.cfg.metric.to_engine(), input, &stored) {
            return Err(fail("stored_vector_implausible", self.step, what, format!("id {} stored {:?} for input {:?}", id, &stored[..stored.len().min(6)], &input[..input.len().min(6)])));
        }
        self.model.put(id, bits_of(&stored), meta.clone());
        Ok(())
    }

    fn full_ok(&self, msg: &str) -> bool {
        msg.contains("HNSW index full") && self.model.len() + self.orphans.len() >= self.case.cfg.capacity
    }

    pub fn apply(&mut self, op: &TOp) -> Result<(), Failure> {
        let what = short(&op.kind);
        let e = std::sync::Arc::clone(&self.te.engine);
        match &op.kind {
            TKind::Insert { id, vec, meta } => {
                self.remember_prev(*id);
                let hot_before = e.hot_tier().len();
                let existed = self.model.contains(*id);
                match e.insert(*id, vec.0.clone(), meta_to_hash(meta)) {
                    Ok(()) => {
                        if hot_before >= self.case.cfg.hot_hard {
                            self.after_emergency = true;
                            self.rep.label("emergency_drain");
                            self.adopt_repaired_orphans();
                        }
                        self.adopt(*id, &vec.0, meta, &what)?;
                        self.orphans.remove(id);
                        if existed {
                            self.hot_ids.insert(*id);
                        }
                        // C20: the recent-write tier never exceeds its hard limit when an insert returns
                        let hl = self.te.engine.hot_tier().len();
                        if hl > self.case.cfg.hot_hard {
                            return Err(fail("hot_tier_over_hard_limit", self.step, &what, format!("hot tier holds {} > hard limit {} after insert returned", hl, self.case.cfg.hot_hard))
                                .with_sig(json!({"kind": "hot_tier_over_hard_limit", "c20": true})));
                        }
                    }
                    Err(err) => {
                        let msg = format!("{:#}", err);
                        let emergency_fail = msg.contains("emergency flush failed");
                        if !(self.full_ok(&msg) || (emergency_fail && !self.orphans.is_empty())) {
                            return Err(fail("valid_insert_rejected", self.step, &what, msg));
                        }
                        self.rep.label("insert_refused_full");
                        self.adopt_repaired_orphans();
                    }
                }
            }
            TKind::Delete { id } => {
                self.remember_prev(*id);
                let expect = self.model.contains(*id);
                let got = e.delete(*id).map_err(|err| fail("valid_delete_rejected", self.step, &what, format!("{:#}", err)))?;
                if got != expect && !self.orphans.contains(id) {
                    return Err(fail("delete_return", self.step, &what, format!("returned {} but model says {}", got, expect)));
                }
                if self.model.delete(*id) {
                    self.hot_ids.insert(*id);
                }
                self.orphans.remove(id);
            }
            TKind::BatchDelete { ids } => {
                for id in ids {
                    self.remember_prev(*id);
                }
                let mut m2 = self.model.clone();
                let expect = m2.batch_delete(ids);
                let got = e.batch_delete(ids).map_err(|err| fail("valid_delete_rejected", self.step, &what, format!("{:#}", err)))?;
                let orphan_involved = ids.iter().any(|i| self.orphans.contains(i));
                if got != expect && !orphan_involved {
                    return Err(fail("batch_delete_return", self.step, &what, format!("returned {} but model says {}", got, expect)));
                }
                for id in ids {
                    if self.model.contains(*id) {
                        self.hot_ids.insert(*id);
                    }
                    self.orphans.remove(id);
                }
                self.model = m2;
            }
            TKind::UpdateMeta { id, meta, merge } => {
                let expect = self.model.contains(*id);
                let got = e.update_metadata(*id, meta_to_hash(meta), *merge).map_err(|err| fail("valid_update_rejected", self.step, &what, format!("{:#}", err)))?;
                if got != expect {
                    return Err(fail("update_return", self.step, &what, format!("returned {} but model says {}", got, expect)));
                }
                self.model.update_meta(*id, meta, *merge);
            }
            TKind::BulkLoad { docs } => {
                for (id, _, _) in docs {
                    self.remember_prev(*id);
                }
                let batch: Vec<_> = docs.iter().map(|(id, v, m)| (*id, v.0.clone(), meta_to_hash(m))).collect();
                let (loaded, failed, _, _) = e.bulk_load_cold_tier(batch).map_err(|err| fail("valid_insert_rejected", self.step, &what, format!("{:#}", err)))?;
                if failed > 0 {
                    // only a full index can refuse a valid item; resynchronise item by item
                    if self.model.len() + self.orphans.len() + docs.len() < self.case.cfg.capacity {
                        return Err(fail("valid_insert_rejected", self.step, &what, format!("bulk load refused {} valid items below capacity", failed)));
                    }
                    self.rep.label("bulk_refused_full");
                    let ids: Vec<u64> = docs.iter().map(|d| d.0).collect();
                    self.resync_ids(&ids, docs);
                } else {
                    if loaded != docs.len() as u64 {
                        return Err(fail("bulk_count", self.step, &what, format!("loaded {} of {}", loaded, docs.len())));
                    }
                    for (j, (id, v, m)) in docs.iter().enumerate() {
                        if self.model.contains(*id) {
                            self.hot_ids.insert(*id);
                        }
                        // per-item upsert in order: only the last item for an id is observable
                        if docs[j + 1..].iter().any(|d| d.0 == *id) {
                            continue;
                        }
                        self.adopt(*id, &v.0, m, &what)?;
                        self.orphans.remove(id);
                    }
                }
                self.rep.label("bulk_load");
            }
            TKind::Flush { force } => {
                let r = e.flush_hot_tier(*force);
                if let Err(err) = r {
                    if self.orphans.is_empty() {
                        return Err(fail("flush_failed", self.step, &what, format!("{:#}", err)));
                    }
                    self.rep.label("drain_repair_failed");
                }
                self.adopt_repaired_orphans();
                self.rep.label("drain");
            }
            TKind::Tick => {
                let rt = tokio::runtime::Builder::new_current_thread().enable_time().build().map_err(|e| Failure::new("setup_failed", format!("tokio: {}", e)))?;
                let eng = std::sync::Arc::clone(&self.te.engine);
                rt.block_on(async move {
                    let (tx, rx) = tokio::sync::broadcast::channel::<()>(1);
                    let h = eng.spawn_flush_task(rx);
                    tokio::time::sleep(std::time::Duration::from_millis(4)).await;
                    let _ = tx.send(());
                    let _ = h.await;
                });
                self.adopt_repaired_orphans();
                self.rep.label("background_tick");
            }
            TKind::Read { flavour, id } => {
                self.read_check(*flavour, &[*id], &what)?;
            }
            TKind::Search { q, k, scope } => {
                // results are C06/C07's subject; here the search only populates the query cache
                let _ = e.knn_search_with_ef_detailed_scoped(&q.0, *k, None, *scope);
            }
            TKind::Poke { kind, id } => {
                self.poke(*kind, *id);
            }
            TKind::Restart => {
                if let Some(dir) = self.dir.clone() {
                    let live = dump_backend(self.te.engine.cold_tier());
                    let pool = self.ids.clone();
                    // a server restart drains first (shutdown path); model both orders
                    self.te = Tiered::recover(&self.case.cfg, &dir, &pool).map_err(|e| fail("recover_failed", self.step, &what, format!("{:#}", e)))?;
                    let rec = dump_backend(self.te.engine.cold_tier());
                    if let Some(d) = diff_dumps(&live, &rec) {
                        return Err(fail("restart_changed_state", self.step, &what, d));
                    }
                    self.orphans.clear();
                    self.prev.clear();
                    self.rep.label("restart");
                }
            }
            TKind::Rewrite { id, prev, bulk } => {
                // the exact (vector bits, metadata) of an earlier write to this id
                let again: Option<(Vec<f32>, Meta)> = if *prev {
                    self.prev.get(id).map(|p| (p.vec.clone(), p.meta.clone()))
                } else {
                    self.model.get(*id).map(|d| (d.vec_f32(), d.meta.clone()))
                };
                if let Some((v, m)) = again {
                    self.remember_prev(*id);
                    let existed = self.model.contains(*id);
                    let hot_before = e.hot_tier().len();
                    let r: Result<(), String> = if *bulk {
                        match e.bulk_load_cold_tier(vec![(*id, v.clone(), meta_to_hash(&m))]) {
                            Ok((1, 0, _, _)) => Ok(()),
                            Ok((l, f, _, _)) => Err(format!("HNSW index full? loaded={} failed={}", l, f)),
                            Err(err) => Err(format!("{:#}", err)),
                        }
                    } else {
                        e.insert(*id, v.clone(), meta_to_hash(&m)).map_err(|err| format!("{:#}", err))
                    };
                    match r {
                        Ok(()) => {
                            if !*bulk && hot_before >= self.case.cfg.hot_hard {
                                self.after_emergency = true;
                                self.adopt_repaired_orphans();
                            }
                            self.adopt(*id, &v, &m, &what)?;
                            self.orphans.remove(id);
                            if existed {
                                self.hot_ids.insert(*id);
                            }
                            self.rep.label(if *prev { "rewrite_previous_version" } else { "rewrite_same_version" });
                        }
                        Err(msg) => {
                            let cap_ok = self.model.len() + self.orphans.len() >= self.case.cfg.capacity;
                            if !(cap_ok && (msg.contains("HNSW index full") || msg.contains("emergency flush failed"))) {
                                return Err(fail("valid_insert_rejected", self.step, &what, msg));
                            }
                            self.adopt_repaired_orphans();
                        }
                    }
                }
            }
            TKind::BulkDup { ids, with_embeddings } => {
                let ids = ids.clone();
                self.read_check(if *with_embeddings { Flavour::BulkWithEmb } else { Flavour::BulkNoEmb }, &ids, &what)?;
                self.rep.label("bulk_read_with_repeated_ids");
            }
        }
        // bounds (C20) after every operation
        self.check_bounds(&what)?;
        // read sweep
        match op.sweep {
            Sweep::None => {}
            Sweep::One(f) => {
                let ids = self.ids.clone();
                self.read_check(f, &ids, &what)?;
            }
            Sweep::All(off) => {
                let ids = self.ids.clone();
                for i in 0..FLAVOURS.len() {
                    self.read_check(FLAVOURS[(i + off) % FLAVOURS.len()], &ids, &what)?;
                }
                self.check_bounds(&what)?;
            }
        }
        // drains / ticks never change what is durable
        if matches!(op.kind, TKind::Flush { .. } | TKind::Tick) && self.orphans.is_empty() {
            let live = dump_backend(self.te.engine.cold_tier());
            if let Some(d) = diff_dumps(&self.model.docs, &live) {
                return Err(fail("drain_changed_canonical_state", self.step, &what, d));
            }
        }
        self.step += 1;
        Ok(())
    }

    fn check_bounds(&mut self, what: &str) -> Result<(), Failure> {
        let cfg = &self.case.cfg;
        let l1a = self.te.engine.cache_size();
        let l1a_bound = if cfg.strat == Strat::AbTest { 2 * cfg.l1a_cap } else { cfg.l1a_cap };
        if l1a > l1a_bound {
            return Err(fail("l1a_over_capacity", self.step, what, format!("document cache holds {} entries > capacity {}", l1a, l1a_bound))
                .with_sig(json!({"kind": "l1a_over_capacity", "c20": true})));
        }
        let q = self.te.qcache.len();
        if q > cfg.qcache_cap {
            return Err(fail("qcache_over_capacity", self.step, what, format!("query cache holds {} entries > capacity {}", q, cfg.qcache_cap))
                .with_sig(json!({"kind": "qcache_over_capacity", "c20": true})));
        }
        if l1a == l1a_bound {
            self.rep.label("l1a_at_capacity");
        }
        if q == cfg.qcache_cap {
            self.rep.label("qcache_at_capacity");
        }
        Ok(())
    }

    fn resync_ids(&mut self, ids: &[u64], docs: &[(u64, FVec, Meta)]) {
        let cold = self.te.engine.cold_tier();
        for id in ids {
            match (cold.fetch_document(*id), cold.fetch_metadata(*id)) {
                (Some(v), Some(m)) => {
                    // accept the canonical state only if it equals the previous model state or one of the batch items
                    let meta = meta_from_hash(&m);
                    let from_batch = docs.iter().any(|(i, _, dm)| i == id && *dm == meta);
                    if from_batch {
                        self.model.put(*id, bits_of(&v), meta);
                        self.hot_ids.insert(*id);
                    }
                }
                _ => {}
            }
        }
    }

    /// A drain may repair a planted orphan into the canonical store (documented); adopt it.
    fn adopt_repaired_orphans(&mut self) {
        let cold = self.te.engine.cold_tier();
        let ids: Vec<u64> = self.orphans.iter().copied().collect();
        for id in ids {
            if self.model.contains(id) {
                self.orphans.remove(&id);
                continue;
            }
            if let (Some(v), Some(m)) = (cold.fetch_document(id), cold.fetch_metadata(id)) {
                self.model.put(id, bits_of(&v), meta_from_hash(&m));
                self.orphans.remove(&id);
                self.rep.label("orphan_repaired_into_canonical");
                self.rep.excluded.push("orphan_repair_outcome_adopted".into());
            } else if !self.te.engine.hot_tier().exists(id) {
                self.orphans.remove(&id);
            }
        }
    }

    fn poke(&mut self, kind: PokeKind, id: u64) {
        let e = std::sync::Arc::clone(&self.te.engine);
        let cold = e.cold_tier();
        let cur = cold.fetch_document_with_coherence(id);
        let dim = self.case.cfg.dim;
        let foreign: Vec<f32> = {
            let mut v = vec![0.0f32; dim];
            v[0] = 0.6;
            v[dim - 1] = if dim > 1 { 0.8 } else { 0.6 };
            v
        };
        let mut foreign_meta = std::collections::HashMap::new();
        foreign_meta.insert("a".to_string(), "poked".to_string());
        match kind {
            PokeKind::StaleL1a => {
                if let Some(p) = self.prev.get(&id) {
                    self.te.strategy.insert_cached(CachedVector { doc_id: id, embedding: p.vec.clone(), coherence: p.token, distance: 0.0, cached_at: Instant::now() });
                    self.rep.label("poke_stale_l1a");
                    self.hot_ids.insert(id);
                }
            }
            PokeKind::CorruptL1a => {
                if let Some((_, tok)) = cur {
                    self.te.strategy.insert_cached(CachedVector { doc_id: id, embedding: foreign, coherence: tok, distance: 0.0, cached_at: Instant::now() });
                    self.rep.label("poke_corrupt_l1a");
                    self.hot_ids.insert(id);
                }
            }
            PokeKind::StaleMirror => {
                if let Some(p) = self.prev.get(&id) {
                    if cur.is_some() {
                        e.hot_tier().insert_with_coherence(id, p.vec.clone(), foreign_meta, p.token);
                        self.rep.label("poke_stale_mirror");
                        self.hot_ids.insert(id);
                    }
                }
            }
            PokeKind::ForeignMirror => {
                if let Some((_, tok)) = cur {
                    e.hot_tier().insert_with_coherence(id, foreign, foreign_meta, tok);
                    self.rep.label("poke_foreign_mirror");
                    self.hot_ids.insert(id);
                }
            }
            PokeKind::Orphan => {
                if cur.is_none() && !self.model.contains(id) {
                    let mut v = vec![0.0f32; dim];
                    v[0] = 1.0;
                    e.hot_tier().insert_with_coherence(id, v.clone(), foreign_meta, VectorCoherenceToken::for_embedding(1, &v));
                    self.orphans.insert(id);
                    self.rep.label("poke_orphan");
                }
            }
        }
    }

    fn expect_for(&self, id: u64) -> Option<&crate::common::model::Doc> {
        self.model.get(id)
    }

    fn read_check(&mut self, f: Flavour, ids: &[u64], what: &str) -> Result<(), Failure> {
        let step = self.step;
        let mismatch = |fl: Flavour, id: u64, detail: String| {
            Failure::new("read_mismatch", format!("op {} {}: read {:?} of id {}: {}", step, what, fl, id, detail))
                .with_sig(json!({"kind": "read_mismatch", "flavour": format!("{:?}", fl)}))
        };
        let e = std::sync::Arc::clone(&self.te.engine);
        match f {
            Flavour::Query => {
                for id in ids {
                    let got = e.query_with_source(*id, None);
                    let want = self.expect_for(*id);
                    match (got, want) {
                        (None, None) => {}
                        (Some((v, tier)), Some(d)) => {
                            if bits_of(&v) != d.bits {
                                return Err(mismatch(f, *id, format!("returned {:?} from {:?}, latest write stored {:?}", &v[..v.len().min(6)], tier, crate::common::eng::short_vec(&d.bits))));
                            }
                            let served_fast = matches!(tier, PointQueryTier::Cache | PointQueryTier::HotTier);
                            self.rep.count(&format!("served_{:?}", tier), 1);
                            if served_fast && (self.hot_ids.contains(id) || self.after_emergency) {
                                self.rep.nontrivial = true;
                            }
                        }
                        (Some((v, tier)), None) => {
                            return Err(mismatch(f, *id, format!("returned {:?} from {:?} but the id does not exist", &v[..v.len().min(6)], tier)));
                        }
                        (None, Some(_)) => return Err(mismatch(f, *id, "returned not-found but the id exists".into())),
                    }
                }
            }
            Flavour::DocWithMeta => {
                for id in ids {
                    let got = e.get_document_with_metadata(*id);
                    let want = self.expect_for(*id);
                    match (got, want) {
                        (None, None) => {}
                        (Some((v, m)), Some(d)) => {
                            if bits_of(&v) != d.bits || meta_from_hash(&m) != d.meta {
                                return Err(mismatch(f, *id, format!("returned ({:?}, {:?}), latest write is ({:?}, {:?})", &v[..v.len().min(6)], m, crate::common::eng::short_vec(&d.bits), d.meta)));
                            }
                        }
                        (g, w) => return Err(mismatch(f, *id, format!("found={} but model found={}", g.is_some(), w.is_some()))),
                    }
                }
            }
            Flavour::CacheAware => {
                for id in ids {
                    let got = e.get_embedding_cache_aware(*id);
                    let want = self.expect_for(*id);
                    match (got, want) {
                        (None, None) => {}
                        (Some(v), Some(d)) => {
                            if bits_of(&v) != d.bits {
                                return Err(mismatch(f, *id, format!("returned {:?}, latest write stored {:?}", &v[..v.len().min(6)], crate::common::eng::short_vec(&d.bits))));
                            }
                        }
                        (g, w) => return Err(mismatch(f, *id, format!("found={} but model found={}", g.is_some(), w.is_some()))),
                    }
                }
            }
            Flavour::GetMeta => {
                for id in ids {
                    let got = e.get_metadata(*id).map(|m| meta_from_hash(&m));
                    let want = self.expect_for(*id).map(|d| d.meta.clone());
                    if got != want {
                        return Err(mismatch(f, *id, format!("returned {:?}, model says {:?}", got, want)));
                    }
                }
            }
            Flavour::Exists => {
                for id in ids {
                    let got = e.exists(*id);
                    if got != self.model.contains(*id) {
                        return Err(mismatch(f, *id, format!("exists={} model={}", got, self.model.contains(*id))));
                    }
                }
            }
            Flavour::BulkWithEmb | Flavour::BulkNoEmb => {
                let with = f == Flavour::BulkWithEmb;
                let got = e.bulk_query_with_source(ids, with);
                if got.len() != ids.len() {
                    return Err(mismatch(f, 0, format!("{} answers for {} ids", got.len(), ids.len())));
                }
                for (id, g) in ids.iter().zip(got.into_iter()) {
                    let want = self.expect_for(*id);
                    match (g, want) {
                        (None, None) => {}
                        (Some((v, m, tier)), Some(d)) => {
                            let vec_ok = if with { bits_of(&v) == d.bits } else { v.is_empty() };
                            if !vec_ok || meta_from_hash(&m) != d.meta {
                                return Err(mismatch(f, *id, format!("returned ({:?}, {:?}) from {:?}, latest write is ({:?}, {:?})", &v[..v.len().min(6)], m, tier, crate::common::eng::short_vec(&d.bits), d.meta)));
                            }
                            if with && tier == PointQueryTier::HotTier && (self.hot_ids.contains(id) || self.after_emergency) {
                                self.rep.nontrivial = true;
                            }
                        }
                        (g, w) => return Err(mismatch(f, *id, format!("found={} but model found={}", g.is_some(), w.is_some()))),
                    }
                }
            }
        }
        Ok(())
    }

    pub fn finish(mut self) -> Result<CaseReport, Failure> {
        // final full sweep: whatever was evicted or drained stays readable from the canonical store
        let ids = self.ids.clone();
        for f in FLAVOURS {
            self.read_check(*f, &ids, "final sweep")?;
        }
        if let Some(dir) = self.dir.clone() {
            if self.orphans.is_empty() {
                let pool = self.ids.clone();
                let te2 = {
                    // recover a copy so the live engine's files are not touched
                    let copy = dir.parent().unwrap().join("copy");
                    crate::common::eng::copy_dir(&dir, &copy).map_err(|e| Failure::new("setup_failed", format!("copy: {}", e)))?;
                    Tiered::recover(&self.case.cfg, &copy, &pool).map_err(|e| Failure::new("recover_failed", format!("final recover of a copy: {:#}", e)))?
                };
                let rec = dump_backend(te2.engine.cold_tier());
                if let Some(d) = diff_dumps(&self.model.docs, &rec) {
                    return Err(Failure::new("durable_state_differs", format!("recovered copy differs from model: {}", d)));
                }
            }
        }
        if self.mode == Mode::C20 {
            // non-trivial for C20: a structure was at capacity, or an emergency drain happened
            let at_cap = self.rep.labels.iter().any(|l| l == "l1a_at_capacity" || l == "qcache_at_capacity" || l == "emergency_drain");
            self.rep.nontrivial = at_cap;
        }
        let strat = format!("strategy={:?}", self.case.cfg.strat);
        self.rep.label(&strat);
        Ok(self.rep)
    }
}

pub fn short(k: &TKind) -> String {
    match k {
        TKind::Insert { id, .. } => format!("insert({})", id),
        TKind::Delete { id } => format!("delete({})", id),
        TKind::BatchDelete { ids } => format!("batch_delete({:?})", ids),
        TKind::UpdateMeta { id, merge, .. } => format!("update_meta({}, merge={})", id, merge),
        TKind::BulkLoad { docs } => format!("bulk_load({:?})", docs.iter().map(|d| d.0).collect::<Vec<_>>()),
        TKind::Flush { force } => format!("flush(force={})", force),
        TKind::Tick => "background_tick".into(),
        TKind::Read { flavour, id } => format!("read({:?}, {})", flavour, id),
        TKind::Search { k, scope, .. } => format!("search(k={}, scope={})", k, scope),
        TKind::Poke { kind, id } => format!("poke({:?}, {})", kind, id),
        TKind::Restart => "restart".into(),
        TKind::Rewrite { id, prev, bulk } => format!("rewrite({}, prev={}, bulk={})", id, prev, bulk),
        TKind::BulkDup { ids, with_embeddings } => format!("bulk_read_dup({:?}, emb={})", ids, with_embeddings),
    }
}

pub fn run_case(case: &TCase, mode: Mode, env: &CaseEnv) -> Result<CaseReport, Failure> {
    let mut it = Interp::new(case, mode, env)?;
    for op in &case.ops {
        it.apply(op)?;
    }
    it.finish()
}
