//! C15 — every request gets an answer and invalid input is refused without effect
//! (real server binary over gRPC).
//!
//! Generated structurally: RPC x field x boundary / pathological value, singly and in streams
//! mixing valid and invalid items.  Every write carries a unique stamp (metadata "v"), so the
//! census (BulkQuery over every id the case can touch) shows exactly which item was applied.
//!
//! Classes:  MUST-REFUSE (empty / wrong-dimension / >4096 / NaN / +-Inf vectors, id 0, ids beyond
//! the tenant-local range under auth, k = 0, k > 1000, ef_search > 10000, oversized batches, no
//! delete criteria), VALID (must be accepted) and EITHER (zero, -0.0, overflowing-norm, denormal
//! vectors, odd metadata, malformed / deep / wide filters, non-finite min_score): the server may
//! accept or refuse those, but the answer and the effect must agree.
//!
//! Oracle per RPC: an answer arrives (no transport error / deadline); MUST-REFUSE is answered by
//! a status or counted as a failed item; VALID is accepted; census == model where the model
//! applies exactly the accepted items; Health and a canary Search still answer OK afterwards;
//! after SIGTERM / SIGKILL restart the server starts and the census is unchanged.

use crate::common::runner::*;
use crate::common::srv::{key_for, with_key, Server, SrvCfg};
use crate::common::tape::Tape;
use kyrodb_engine::proto as pb;
use serde::{Deserialize, Serialize};
use serde_json::json;
use std::collections::{BTreeMap, BTreeSet};

const DIM: usize = 4;

#[derive(Clone, Copy, Debug, PartialEq, Eq, Serialize, Deserialize)]
pub enum VClass {
    Valid(u8),
    Empty,
    Short,
    Long,
    Huge,
    NaN,
    PosInf,
    NegInf,
    Zero,
    NegZero,
    Overflow,
    Tiny,
}

#[derive(Clone, Copy, Debug, PartialEq, Eq, Serialize, Deserialize)]
pub enum IdClass {
    Ok(u8),
    Zero,
    U32Max,
    OverU32,
    U64Max,
}

#[derive(Clone, Copy, Debug, PartialEq, Eq, Serialize, Deserialize)]
pub enum MetaClass {
    Plain,
    EmptyKey,
    Reserved,
    BigValue,
    ManyKeys,
}

#[derive(Clone, Copy, Debug, PartialEq, Eq, Serialize, Deserialize)]
pub enum FClass {
    None,
    Valid(u8),
    EmptyOneof,
    RangeNoBound,
    InEmpty,
    AndEmpty,
    OrEmpty,
    NotNone,
    /// composite nodes whose children carry no predicate: OR[{}], AND[{}], NOT({}), OR[{}, g=0]
    OrOfUntyped,
    AndOfUntyped,
    NotOfUntyped,
    OrMixedUntyped,
    Deep(u16),
    Wide(u16),
    BigString,
}

#[derive(Clone, Copy, Debug, PartialEq, Eq, Serialize, Deserialize)]
pub struct WItem {
    pub id: IdClass,
    pub v: VClass,
    pub meta: MetaClass,
}

#[derive(Clone, Copy, Debug, PartialEq, Eq, Serialize, Deserialize)]
pub struct SReq {
    pub q: VClass,
    pub k: u32,
    pub ef: u32,
    /// 0 = 0.0, 1 = NaN, 2 = +inf, 3 = -inf, 4 = 2.0
    pub score: u8,
    pub filter: FClass,
    pub ns: u8,
    pub legacy: bool,
}

#[derive(Clone, Debug, Serialize, Deserialize)]
pub enum Op {
    Insert(WItem),
    BulkInsert(Vec<WItem>),
    BulkLoad(Vec<WItem>),
    /// 10,001 valid items for one id through BulkInsert
    BulkInsertOversize,
    UpdateMeta { id: IdClass, meta: MetaClass, merge: bool },
    Delete { id: IdClass },
    BatchDeleteIds { ids: Vec<IdClass>, oversize: bool },
    /// a long (but allowed) id list: `pad` copies of ids that are NOT live padding the front, so
    /// that a bad id among `ids` sits far behind the start of the list
    BatchDeleteLong { pad: u16, ids: Vec<IdClass> },
    BatchDeleteFilter(FClass),
    BatchDeleteNone,
    Query { id: IdClass },
    BulkQuery { ids: Vec<IdClass>, oversize: bool },
    Search(SReq),
    BulkSearch(Vec<SReq>),
    /// the same search n times back to back (no other request in between)
    SearchBurst { req: SReq, n: u8 },
    Flush,
    Restart { kill: bool },
}

#[derive(Clone, Debug, Serialize, Deserialize)]
pub struct Case {
    pub auth: bool,
    pub cosine: bool,
    pub ops: Vec<Op>,
}

#[derive(Clone, Copy, PartialEq, Eq, Debug)]
enum Cls {
    Valid,
    Either,
    Refuse,
}

fn worst(a: Cls, b: Cls) -> Cls {
    if a == Cls::Refuse || b == Cls::Refuse {
        Cls::Refuse
    } else if a == Cls::Either || b == Cls::Either {
        Cls::Either
    } else {
        Cls::Valid
    }
}

fn vec_of(v: VClass) -> Vec<f32> {
    match v {
        VClass::Valid(i) => {
            let t: [[f32; 4]; 5] = [[1.0, 0.0, 0.0, 0.0], [0.6, 0.8, 0.0, 0.0], [0.0, 0.0, 1.0, 0.0], [0.5, 0.5, 0.5, 0.5], [0.0, 0.6, 0.0, 0.8]];
            t[i as usize % 5].to_vec()
        }
        VClass::Empty => vec![],
        VClass::Short => vec![1.0, 0.0, 0.0],
        VClass::Long => vec![1.0, 0.0, 0.0, 0.0, 0.0],
        VClass::Huge => vec![0.5; 4097],
        VClass::NaN => vec![1.0, f32::NAN, 0.0, 0.0],
        VClass::PosInf => vec![0.0, 0.0, f32::INFINITY, 0.0],
        VClass::NegInf => vec![f32::NEG_INFINITY, 0.0, 0.0, 1.0],
        VClass::Zero => vec![0.0; 4],
        VClass::NegZero => vec![-0.0; 4],
        VClass::Overflow => vec![f32::MAX, f32::MAX, -f32::MAX, f32::MAX],
        VClass::Tiny => vec![1e-40, 0.0, 0.0, 0.0],
    }
}

fn vec_cls(v: VClass) -> Cls {
    match v {
        VClass::Valid(_) => Cls::Valid,
        VClass::Empty | VClass::Short | VClass::Long | VClass::Huge | VClass::NaN | VClass::PosInf | VClass::NegInf => Cls::Refuse,
        VClass::Zero | VClass::NegZero | VClass::Overflow | VClass::Tiny => Cls::Either,
    }
}

fn id_of(i: IdClass) -> u64 {
    match i {
        IdClass::Ok(n) => 1 + (n as u64 % 6),
        IdClass::Zero => 0,
        IdClass::U32Max => u32::MAX as u64,
        IdClass::OverU32 => (1u64 << 32) | 3,
        IdClass::U64Max => u64::MAX,
    }
}

fn id_cls(i: IdClass, auth: bool) -> Cls {
    match i {
        IdClass::Ok(_) | IdClass::U32Max => Cls::Valid,
        IdClass::Zero => Cls::Refuse,
        IdClass::OverU32 | IdClass::U64Max => {
            if auth {
                Cls::Refuse
            } else {
                Cls::Either
            }
        }
    }
}

fn meta_of(m: MetaClass, id: u64, stamp: &str) -> std::collections::HashMap<String, String> {
    let mut h = std::collections::HashMap::new();
    h.insert("v".to_string(), stamp.to_string());
    h.insert("g".to_string(), (id % 2).to_string());
    match m {
        MetaClass::Plain => {}
        MetaClass::EmptyKey => {
            h.insert(String::new(), "x".into());
        }
        MetaClass::Reserved => {
            h.insert("__tenant_idx__".into(), "1".into());
            h.insert("__tenant_id__".into(), "beta".into());
            h.insert("__namespace__".into(), "zz".into());
        }
        MetaClass::BigValue => {
            h.insert("big".into(), "x".repeat(100_000));
        }
        MetaClass::ManyKeys => {
            for i in 0..2000 {
                h.insert(format!("k{}", i), i.to_string());
            }
        }
    }
    h
}

fn meta_cls(m: MetaClass) -> Cls {
    match m {
        MetaClass::Plain => Cls::Valid,
        // the reserved keys are documented to be stripped, not refused
        MetaClass::Reserved => Cls::Either,
        _ => Cls::Either,
    }
}

fn item_cls(it: &WItem, auth: bool) -> Cls {
    worst(worst(id_cls(it.id, auth), vec_cls(it.v)), meta_cls(it.meta))
}

fn filter_of(f: FClass) -> Option<pb::MetadataFilter> {
    use pb::metadata_filter::FilterType as FT;
    let exact = |k: &str, v: &str| pb::MetadataFilter { filter_type: Some(FT::Exact(pb::ExactMatch { key: k.into(), value: v.into() })) };
    Some(match f {
        FClass::None => return None,
        FClass::Valid(g) => exact("g", &(g % 2).to_string()),
        FClass::EmptyOneof => pb::MetadataFilter { filter_type: None },
        FClass::RangeNoBound => pb::MetadataFilter { filter_type: Some(FT::Range(pb::RangeMatch { key: "g".into(), bound: None })) },
        FClass::InEmpty => pb::MetadataFilter { filter_type: Some(FT::InMatch(pb::InMatch { key: "g".into(), values: vec![] })) },
        FClass::AndEmpty => pb::MetadataFilter { filter_type: Some(FT::AndFilter(pb::AndFilter { filters: vec![] })) },
        FClass::OrEmpty => pb::MetadataFilter { filter_type: Some(FT::OrFilter(pb::OrFilter { filters: vec![] })) },
        FClass::NotNone => pb::MetadataFilter { filter_type: Some(FT::NotFilter(Box::new(pb::NotFilter { filter: None }))) },
        FClass::OrOfUntyped => pb::MetadataFilter { filter_type: Some(FT::OrFilter(pb::OrFilter { filters: vec![pb::MetadataFilter { filter_type: None }] })) },
        FClass::AndOfUntyped => pb::MetadataFilter { filter_type: Some(FT::AndFilter(pb::AndFilter { filters: vec![pb::MetadataFilter { filter_type: None }, pb::MetadataFilter { filter_type: None }] })) },
        FClass::NotOfUntyped => pb::MetadataFilter { filter_type: Some(FT::NotFilter(Box::new(pb::NotFilter { filter: Some(Box::new(pb::MetadataFilter { filter_type: None })) }))) },
        FClass::OrMixedUntyped => pb::MetadataFilter { filter_type: Some(FT::OrFilter(pb::OrFilter { filters: vec![pb::MetadataFilter { filter_type: None }, exact("g", "0")] })) },
        FClass::Deep(n) => {
            let mut cur = exact("g", "0");
            for _ in 0..n {
                cur = pb::MetadataFilter { filter_type: Some(FT::NotFilter(Box::new(pb::NotFilter { filter: Some(Box::new(cur)) }))) };
            }
            cur
        }
        FClass::Wide(n) => pb::MetadataFilter { filter_type: Some(FT::OrFilter(pb::OrFilter { filters: (0..n).map(|i| exact("g", &i.to_string())).collect() })) },
        FClass::BigString => exact(&"k".repeat(100_000), &"v".repeat(100_000)),
    })
}

fn filter_cls(f: FClass) -> Cls {
    match f {
        FClass::None | FClass::Valid(_) => Cls::Valid,
        _ => Cls::Either,
    }
}

fn sreq_cls(s: &SReq) -> Cls {
    let mut c = vec_cls(s.q);
    if s.k == 0 || s.k > 1000 || s.ef > 10_000 {
        c = Cls::Refuse;
    }
    if s.score != 0 && s.score != 4 {
        c = worst(c, Cls::Either);
    }
    worst(c, filter_cls(s.filter))
}

fn sreq_of(s: &SReq) -> pb::SearchRequest {
    let mut r = pb::SearchRequest {
        query_embedding: vec_of(s.q),
        k: s.k,
        min_score: match s.score {
            1 => f32::NAN,
            2 => f32::INFINITY,
            3 => f32::NEG_INFINITY,
            4 => 2.0,
            _ => 0.0,
        },
        namespace: match s.ns {
            1 => "n1".into(),
            2 => "x".repeat(10_000),
            _ => String::new(),
        },
        include_embeddings: false,
        ef_search: s.ef,
        filter: filter_of(s.filter),
        ..Default::default()
    };
    if s.legacy {
        #[allow(deprecated)]
        {
            r.metadata_filters.insert("g".into(), "1".into());
        }
    }
    r
}

pub struct C15;

fn gen_v(t: &mut Tape) -> VClass {
    match t.weighted(&[14, 1, 1, 1, 1, 2, 1, 1, 1, 1, 1, 1]) {
        0 => VClass::Valid(t.below(5) as u8),
        1 => VClass::Empty,
        2 => VClass::Short,
        3 => VClass::Long,
        4 => VClass::Huge,
        5 => VClass::NaN,
        6 => VClass::PosInf,
        7 => VClass::NegInf,
        8 => VClass::Zero,
        9 => VClass::NegZero,
        10 => VClass::Overflow,
        _ => VClass::Tiny,
    }
}

fn gen_id(t: &mut Tape) -> IdClass {
    match t.weighted(&[20, 2, 1, 2, 1]) {
        0 => IdClass::Ok(t.below(6) as u8),
        1 => IdClass::Zero,
        2 => IdClass::U32Max,
        3 => IdClass::OverU32,
        _ => IdClass::U64Max,
    }
}

fn gen_meta(t: &mut Tape) -> MetaClass {
    match t.weighted(&[24, 1, 2, 1, 1]) {
        0 => MetaClass::Plain,
        1 => MetaClass::EmptyKey,
        2 => MetaClass::Reserved,
        3 => MetaClass::BigValue,
        _ => MetaClass::ManyKeys,
    }
}

fn gen_f(t: &mut Tape) -> FClass {
    match t.weighted(&[10, 6, 1, 1, 1, 1, 1, 1, 3, 1, 1, 1, 1, 1, 1]) {
        0 => FClass::None,
        1 => FClass::Valid(t.below(2) as u8),
        2 => FClass::EmptyOneof,
        3 => FClass::RangeNoBound,
        4 => FClass::InEmpty,
        5 => FClass::AndEmpty,
        6 => FClass::OrEmpty,
        7 => FClass::NotNone,
        8 => FClass::Deep(t.pick(&[8u16, 31, 32, 33, 64, 99, 100, 101, 500, 3000])),
        9 => FClass::Wide(t.pick(&[100u16, 5000, 40_000])),
        10 => FClass::BigString,
        11 => FClass::OrOfUntyped,
        12 => FClass::AndOfUntyped,
        13 => FClass::NotOfUntyped,
        _ => FClass::OrMixedUntyped,
    }
}

fn gen_item(t: &mut Tape) -> WItem {
    WItem { id: gen_id(t), v: gen_v(t), meta: gen_meta(t) }
}

fn gen_sreq(t: &mut Tape) -> SReq {
    SReq {
        q: gen_v(t),
        k: if t.chance(200) { t.pick(&[1u32, 3, 10]) } else { t.pick(&[0u32, 1000, 1001, u32::MAX]) },
        ef: if t.chance(215) { t.pick(&[0u32, 16, 200]) } else { t.pick(&[1u32, 10_000, 10_001, u32::MAX]) },
        score: if t.chance(220) { 0 } else { 1 + t.below(4) as u8 },
        filter: gen_f(t),
        ns: if t.chance(220) { 0 } else { 1 + t.below(2) as u8 },
        legacy: t.chance(16),
    }
}

type Stamp = String;

struct Sess {
    srv: Server,
    key: Option<String>,
    auth: bool,
}

fn no_answer(code: tonic::Code) -> bool {
    matches!(code, tonic::Code::DeadlineExceeded | tonic::Code::Unavailable | tonic::Code::Cancelled | tonic::Code::Unknown)
}

impl Sess {
    fn call<F, Fut, T>(&self, f: F) -> Result<T, Failure>
    where
        F: FnOnce(crate::common::srv::Client, Option<String>) -> Fut,
        Fut: std::future::Future<Output = T>,
    {
        let rt = tokio::runtime::Builder::new_current_thread().enable_all().build().map_err(|e| Failure::new("setup_failed", e.to_string()))?;
        let out = rt.block_on(async {
            let c = self.srv.client().await.map_err(|e| Failure::new("server_unreachable", format!("cannot connect: {}", e)).with_sig(json!({"kind": "server_stopped_serving"})))?;
            Ok::<T, Failure>(f(c, self.key.clone()).await)
        });
        drop(rt);
        out
    }

    fn candidate_ids(&self) -> Vec<u64> {
        let mut v: Vec<u64> = (1..=6).collect();
        v.push(u32::MAX as u64);
        if !self.auth {
            v.push((1u64 << 32) | 3);
            v.push(u64::MAX);
        }
        v
    }

    fn census(&self) -> Result<BTreeMap<u64, Stamp>, Failure> {
        let ids = self.candidate_ids();
        let r = self.call(|mut c, k| async move { c.bulk_query(with_key(pb::BulkQueryRequest { doc_ids: ids, include_embeddings: false, namespace: String::new() }, k.as_deref())).await })?;
        match r {
            Ok(resp) => Ok(resp.get_ref().results.iter().filter(|q| q.found).map(|q| (q.doc_id, q.metadata.get("v").cloned().unwrap_or_else(|| "<no stamp>".into()))).collect()),
            Err(s) => Err(Failure::new("census_failed", format!("a valid BulkQuery census was refused: {:?} {}", s.code(), s.message())).with_sig(json!({"kind": "server_stopped_serving"}))),
        }
    }

    /// Health + a valid canary search must still be answered OK.
    fn still_serving(&mut self, what: &str) -> Result<Vec<(u64, f32)>, Failure> {
        if !self.srv.is_alive() {
            return Err(Failure::new("server_died", format!("{}: the server process is gone; log tail: {}", what, self.srv.log_tail())).with_sig(json!({"kind": "server_stopped_serving"})));
        }
        let h = self.call(|mut c, k| async move { c.health(with_key(pb::HealthRequest { component: String::new() }, k.as_deref())).await })?;
        if let Err(s) = h {
            return Err(Failure::new("health_failed", format!("{}: Health answered {:?} {}", what, s.code(), s.message())).with_sig(json!({"kind": "server_stopped_serving"})));
        }
        let q = pb::SearchRequest { query_embedding: vec_of(VClass::Valid(1)), k: 3, ..Default::default() };
        let r = self.call(|mut c, k| async move { c.search(with_key(q, k.as_deref())).await })?;
        match r {
            Err(s) => Err(Failure::new("canary_search_failed", format!("{}: a valid Search afterwards answered {:?} {}", what, s.code(), s.message())).with_sig(json!({"kind": "server_stopped_serving", "rpc": "Search"}))),
            Ok(resp) => Ok(resp.get_ref().results.iter().map(|x| (x.doc_id, x.score)).collect()),
        }
    }
}

fn answered<T>(what: &str, r: &Result<tonic::Response<T>, tonic::Status>) -> Result<(), Failure> {
    if let Err(s) = r {
        if no_answer(s.code()) {
            return Err(Failure::new("no_answer", format!("{}: the request was not answered: {:?} {}", what, s.code(), s.message())).with_sig(json!({"kind": "no_answer"})));
        }
    }
    Ok(())
}

impl Prop for C15 {
    type Case = Case;
    fn part(&self) -> &'static str {
        "requests"
    }
    fn shape(&self, tier: Tier) -> RawShape {
        RawShape { head_len: 2, chunk_len: 40, min_chunks: 8, max_chunks: tier.pick(36, 60) }
    }
    fn max_shrink_iters(&self) -> u32 {
        80
    }
    fn rule(&self) -> String {
        "generated RPC sequences (auth on/off x cosine/euclidean) over 15 request kinds with per-field boundary and pathological values and mixed valid/invalid streams; non-trivial = at least one MUST-REFUSE write item or request was sent while the collection was non-empty and at least one valid write was accepted after it; distinct = hash of decoded case".into()
    }
    fn decode(&self, raw: &Raw, _tier: Tier) -> Case {
        let mut t = Tape::new(&raw.head);
        let auth = t.chance(128);
        let cosine = t.chance(128);
        let mut oversize_used = false;
        let ops = raw
            .chunks
            .iter()
            .map(|c| {
                let mut t = Tape::new(c);
                match t.weighted(&[16, 6, 5, 1, 4, 4, 3, 3, 1, 3, 3, 8, 3, 1, 2, 2, 2]) {
                    0 => Op::Insert(gen_item(&mut t)),
                    1 => Op::BulkInsert((0..1 + t.below(5)).map(|_| gen_item(&mut t)).collect()),
                    2 => Op::BulkLoad((0..1 + t.below(5)).map(|_| gen_item(&mut t)).collect()),
                    3 => {
                        if oversize_used {
                            Op::Insert(gen_item(&mut t))
                        } else {
                            oversize_used = true;
                            Op::BulkInsertOversize
                        }
                    }
                    4 => Op::UpdateMeta { id: gen_id(&mut t), meta: gen_meta(&mut t), merge: t.chance(128) },
                    5 => Op::Delete { id: gen_id(&mut t) },
                    6 => Op::BatchDeleteIds { ids: (0..t.below(5)).map(|_| gen_id(&mut t)).collect(), oversize: t.chance(24) },
                    7 => Op::BatchDeleteFilter(gen_f(&mut t)),
                    8 => Op::BatchDeleteNone,
                    9 => Op::Query { id: gen_id(&mut t) },
                    10 => Op::BulkQuery { ids: (0..t.below(5)).map(|_| gen_id(&mut t)).collect(), oversize: t.chance(24) },
                    11 => Op::Search(gen_sreq(&mut t)),
                    12 => Op::BulkSearch((0..1 + t.below(4)).map(|_| gen_sreq(&mut t)).collect()),
                    13 => Op::Flush,
                    14 => Op::Restart { kill: t.chance(128) },
                    15 => {
                        let mut req = gen_sreq(&mut t);
                        let n = 3 + t.below(6) as u8;
                        // one burst in three at the largest valid k (filter oversampling then
                        // reaches the engine's own limits)
                        if t.chance(85) {
                            req.k = 1000;
                        }
                        Op::SearchBurst { req, n }
                    }
                    _ => Op::BatchDeleteLong { pad: t.pick(&[511u16, 512, 513, 600, 1024, 3000, 9990]), ids: (0..1 + t.below(4)).map(|_| gen_id(&mut t)).collect() },
                }
            })
            .collect();
        Case { auth, cosine, ops }
    }

    fn run(&self, case: &Case, env: &CaseEnv) -> Result<CaseReport, Failure> {
        let shard = super::c10::SHARD.with(|s| *s);
        let mut cfg = SrvCfg::default_for(DIM, if case.cosine { "cosine" } else { "euclidean" }, case.auth, 1_000_000);
        cfg.max_elements = 60_000;
        let mut srv = Server::new(cfg, &env.dir("srv"), shard);
        srv.start().map_err(|e| Failure::new("setup_failed", e))?;
        let mut s = Sess { srv, key: if case.auth { Some(key_for("alpha", 0xa1)) } else { None }, auth: case.auth };
        let auth = case.auth;
        let mut model: BTreeMap<u64, Stamp> = BTreeMap::new();
        let mut rep = CaseReport::default();
        let mut refused_seen_nonempty = false;
        let mut prev_canary: Option<Vec<(u64, f32)>> = None;
        for (i, op) in case.ops.iter().enumerate() {
            let what = format!("op {} {:?}", i, op);
            let what = if what.len() > 300 { format!("{}…", &what[..300]) } else { what };
            let stamp = |j: usize| format!("s{}_{}", i, j);
            let sigk = |kind: &str, rpc: &str| json!({"kind": kind, "rpc": rpc});
            // possible stamps per id after a stream; None = absent
            let mut possible: BTreeMap<u64, BTreeSet<Option<Stamp>>> = BTreeMap::new();
            let mut writes = false;
            match op {
                Op::Insert(it) => {
                    let cls = item_cls(it, auth);
                    let id = id_of(it.id);
                    let r = pb::InsertRequest { doc_id: id, embedding: vec_of(it.v), metadata: meta_of(it.meta, id, &stamp(0)), namespace: String::new() };
                    let resp = s.call(|mut c, k| async move { c.insert(with_key(r, k.as_deref())).await })?;
                    answered(&what, &resp)?;
                    let accepted = matches!(&resp, Ok(x) if x.get_ref().success);
                    match (cls, accepted) {
                        (Cls::Refuse, true) => return Err(Failure::new("invalid_write_accepted", format!("{}: accepted", what)).with_sig(sigk("invalid_write_accepted", "Insert"))),
                        (Cls::Valid, false) => return Err(Failure::new("valid_write_refused", format!("{}: answered {:?}", what, resp.as_ref().err().map(|e| (e.code(), e.message().to_string())))).with_sig(sigk("valid_write_refused", "Insert"))),
                        _ => {}
                    }
                    if cls == Cls::Refuse && !model.is_empty() {
                        refused_seen_nonempty = true;
                    }
                    if accepted {
                        model.insert(id, stamp(0));
                        if refused_seen_nonempty && cls == Cls::Valid {
                            rep.nontrivial = true;
                        }
                    }
                    writes = true;
                }
                Op::BulkInsert(items) | Op::BulkLoad(items) => {
                    let is_load = matches!(op, Op::BulkLoad(_));
                    let rpc = if is_load { "BulkLoadHnsw" } else { "BulkInsert" };
                    let reqs: Vec<pb::InsertRequest> = items.iter().enumerate().map(|(j, it)| pb::InsertRequest { doc_id: id_of(it.id), embedding: vec_of(it.v), metadata: meta_of(it.meta, id_of(it.id), &stamp(j)), namespace: String::new() }).collect();
                    let (ins, failed) = if is_load {
                        let resp = s.call(|mut c, k| async move { c.bulk_load_hnsw(with_key(tokio_stream::iter(reqs), k.as_deref())).await })?;
                        answered(&what, &resp)?;
                        match resp {
                            Ok(x) => (x.get_ref().total_loaded, x.get_ref().total_failed),
                            Err(st) => return Err(Failure::new("stream_refused", format!("{}: whole stream answered {:?} {}", what, st.code(), st.message())).with_sig(sigk("stream_refused", rpc))),
                        }
                    } else {
                        let resp = s.call(|mut c, k| async move { c.bulk_insert(with_key(tokio_stream::iter(reqs), k.as_deref())).await })?;
                        answered(&what, &resp)?;
                        match resp {
                            Ok(x) => (x.get_ref().total_inserted, x.get_ref().total_failed),
                            Err(st) => return Err(Failure::new("stream_refused", format!("{}: whole stream answered {:?} {}", what, st.code(), st.message())).with_sig(sigk("stream_refused", rpc))),
                        }
                    };
                    let n_ref = items.iter().filter(|it| item_cls(it, auth) == Cls::Refuse).count() as u64;
                    let n_val = items.iter().filter(|it| item_cls(it, auth) == Cls::Valid).count() as u64;
                    if ins + failed != items.len() as u64 || failed < n_ref || ins < n_val {
                        return Err(Failure::new("stream_accounting", format!("{}: {} items ({} must be refused, {} must be accepted) but the server reports accepted={} failed={}", what, items.len(), n_ref, n_val, ins, failed)).with_sig(sigk("stream_accounting", rpc)));
                    }
                    for (j, it) in items.iter().enumerate() {
                        let cls = item_cls(it, auth);
                        let id = id_of(it.id);
                        if it.id == IdClass::Zero {
                            continue;
                        }
                        let e = possible.entry(id).or_insert_with(|| [model.get(&id).cloned()].into_iter().collect());
                        match cls {
                            Cls::Valid => {
                                e.clear();
                                e.insert(Some(stamp(j)));
                            }
                            Cls::Either => {
                                e.insert(Some(stamp(j)));
                            }
                            Cls::Refuse => {}
                        }
                    }
                    if n_ref > 0 && !model.is_empty() {
                        refused_seen_nonempty = true;
                    }
                    if n_val > 0 && refused_seen_nonempty {
                        rep.nontrivial = true;
                    }
                    if n_ref > 0 && n_val > 0 {
                        rep.label("mixed_stream");
                    }
                    writes = true;
                }
                Op::BulkInsertOversize => {
                    let reqs: Vec<pb::InsertRequest> = (0..10_001usize).map(|j| pb::InsertRequest { doc_id: 5, embedding: vec_of(VClass::Valid((j % 5) as u8)), metadata: meta_of(MetaClass::Plain, 5, &stamp(j)), namespace: String::new() }).collect();
                    let resp = s.call(|mut c, k| async move { c.bulk_insert(with_key(tokio_stream::iter(reqs), k.as_deref())).await })?;
                    answered(&what, &resp)?;
                    if let Ok(x) = &resp {
                        let x = x.get_ref();
                        if x.total_inserted > 10_000 || x.total_failed == 0 {
                            return Err(Failure::new("oversized_batch_accepted", format!("{}: 10,001 items answered inserted={} failed={}", what, x.total_inserted, x.total_failed)).with_sig(sigk("oversized_batch_accepted", "BulkInsert")));
                        }
                    }
                    let e = possible.entry(5).or_insert_with(|| [model.get(&5).cloned()].into_iter().collect());
                    for j in 0..10_000 {
                        e.insert(Some(stamp(j)));
                    }
                    rep.label("oversize_stream");
                    writes = true;
                }
                Op::UpdateMeta { id, meta, merge } => {
                    let idv = id_of(*id);
                    let cls = worst(id_cls(*id, auth), meta_cls(*meta));
                    let r = pb::UpdateMetadataRequest { doc_id: idv, metadata: meta_of(*meta, idv, &stamp(0)), merge: *merge, namespace: String::new() };
                    let resp = s.call(|mut c, k| async move { c.update_metadata(with_key(r, k.as_deref())).await })?;
                    answered(&what, &resp)?;
                    match &resp {
                        Ok(x) => {
                            let x = x.get_ref();
                            if id_cls(*id, auth) == Cls::Refuse {
                                return Err(Failure::new("invalid_request_accepted", format!("{}: answered OK", what)).with_sig(sigk("invalid_request_accepted", "UpdateMetadata")));
                            }
                            if x.existed != model.contains_key(&idv) {
                                return Err(Failure::new("update_existed_flag", format!("{}: existed={} but the model says {}", what, x.existed, model.contains_key(&idv))));
                            }
                            if x.existed && x.success {
                                model.insert(idv, stamp(0));
                            }
                        }
                        Err(st) => {
                            if cls == Cls::Valid {
                                return Err(Failure::new("valid_write_refused", format!("{}: answered {:?} {}", what, st.code(), st.message())).with_sig(sigk("valid_write_refused", "UpdateMetadata")));
                            }
                        }
                    }
                    writes = true;
                }
                Op::Delete { id } => {
                    let idv = id_of(*id);
                    let resp = s.call(|mut c, k| async move { c.delete(with_key(pb::DeleteRequest { doc_id: idv, namespace: String::new() }, k.as_deref())).await })?;
                    answered(&what, &resp)?;
                    match &resp {
                        Ok(x) => {
                            if id_cls(*id, auth) == Cls::Refuse {
                                return Err(Failure::new("invalid_request_accepted", format!("{}: answered OK", what)).with_sig(sigk("invalid_request_accepted", "Delete")));
                            }
                            if x.get_ref().existed != model.contains_key(&idv) {
                                return Err(Failure::new("delete_existed_flag", format!("{}: existed={} but the model says {}", what, x.get_ref().existed, model.contains_key(&idv))));
                            }
                            model.remove(&idv);
                        }
                        Err(st) => {
                            if id_cls(*id, auth) == Cls::Valid {
                                return Err(Failure::new("valid_write_refused", format!("{}: answered {:?} {}", what, st.code(), st.message())).with_sig(sigk("valid_write_refused", "Delete")));
                            }
                        }
                    }
                    writes = true;
                }
                Op::BatchDeleteIds { ids, oversize } => {
                    let mut idv: Vec<u64> = ids.iter().map(|i| id_of(*i)).collect();
                    if *oversize {
                        idv.extend((0..10_001u64).map(|j| 1 + j % 6));
                    }
                    let cls = if *oversize { Cls::Refuse } else { ids.iter().fold(Cls::Valid, |a, i| worst(a, if *i == IdClass::Zero { Cls::Either } else { id_cls(*i, auth) })) };
                    let list = idv.clone();
                    let resp = s.call(|mut c, k| async move {
                        c.batch_delete(with_key(pb::BatchDeleteRequest { delete_criteria: Some(pb::batch_delete_request::DeleteCriteria::Ids(pb::IdList { doc_ids: list })), namespace: String::new() }, k.as_deref())).await
                    })?;
                    answered(&what, &resp)?;
                    match &resp {
                        Ok(x) => {
                            if cls == Cls::Refuse {
                                return Err(Failure::new("invalid_request_accepted", format!("{}: answered OK deleted={}", what, x.get_ref().deleted_count)).with_sig(sigk("invalid_request_accepted", "BatchDelete")));
                            }
                            let victims: BTreeSet<u64> = idv.iter().filter(|i| model.contains_key(i)).copied().collect();
                            if x.get_ref().deleted_count != victims.len() as u64 {
                                return Err(Failure::new("batch_delete_count", format!("{}: deleted_count={} but {} listed ids are live", what, x.get_ref().deleted_count, victims.len())));
                            }
                            for v in victims {
                                model.remove(&v);
                            }
                        }
                        Err(st) => {
                            if cls == Cls::Valid {
                                return Err(Failure::new("valid_write_refused", format!("{}: answered {:?} {}", what, st.code(), st.message())).with_sig(sigk("valid_write_refused", "BatchDelete")));
                            }
                        }
                    }
                    writes = true;
                }
                Op::BatchDeleteLong { pad, ids } => {
                    // padding: live ids first (they are real victims if the request is accepted)
                    let live: Vec<u64> = model.keys().copied().filter(|i| *i <= 6).collect();
                    let mut idv: Vec<u64> = vec![];
                    for j in 0..*pad as usize {
                        idv.push(if live.is_empty() { 7 + (j as u64 % 50) } else { live[j % live.len()] });
                    }
                    idv.extend(ids.iter().map(|i| id_of(*i)));
                    let cls = ids.iter().fold(Cls::Valid, |a, i| worst(a, if *i == IdClass::Zero { Cls::Either } else { id_cls(*i, auth) }));
                    let list = idv.clone();
                    let resp = s.call(|mut c, k| async move {
                        c.batch_delete(with_key(pb::BatchDeleteRequest { delete_criteria: Some(pb::batch_delete_request::DeleteCriteria::Ids(pb::IdList { doc_ids: list })), namespace: String::new() }, k.as_deref())).await
                    })?;
                    answered(&what, &resp)?;
                    match &resp {
                        Ok(x) => {
                            if cls == Cls::Refuse {
                                return Err(Failure::new("invalid_request_accepted", format!("{}: answered OK deleted={}", what, x.get_ref().deleted_count)).with_sig(sigk("invalid_request_accepted", "BatchDelete")));
                            }
                            let victims: BTreeSet<u64> = idv.iter().filter(|i| model.contains_key(i)).copied().collect();
                            if x.get_ref().deleted_count != victims.len() as u64 {
                                return Err(Failure::new("batch_delete_count", format!("{}: deleted_count={} but {} listed ids are live", what, x.get_ref().deleted_count, victims.len())));
                            }
                            for v in victims {
                                model.remove(&v);
                            }
                        }
                        Err(st) => {
                            if cls == Cls::Valid {
                                return Err(Failure::new("valid_write_refused", format!("{}: answered {:?} {}", what, st.code(), st.message())).with_sig(sigk("valid_write_refused", "BatchDelete")));
                            }
                            if cls == Cls::Refuse && !model.is_empty() {
                                refused_seen_nonempty = true;
                            }
                        }
                    }
                    rep.label("long_id_list");
                    writes = true;
                }
                Op::BatchDeleteFilter(f) => {
                    let filter = filter_of(*f).unwrap_or(pb::MetadataFilter { filter_type: None });
                    let resp = s.call(|mut c, k| async move { c.batch_delete(with_key(pb::BatchDeleteRequest { delete_criteria: Some(pb::batch_delete_request::DeleteCriteria::Filter(filter)), namespace: String::new() }, k.as_deref())).await })?;
                    answered(&what, &resp)?;
                    let before = model.clone();
                    match &resp {
                        Ok(x) => {
                            let after = s.census()?;
                            // nothing may appear or change; what vanished must be counted
                            for (id, st) in &after {
                                if before.get(id) != Some(st) {
                                    return Err(Failure::new("census_differs", format!("{}: id {} is {:?} after a filtered delete, was {:?}", what, id, st, before.get(id))));
                                }
                            }
                            let gone: Vec<u64> = before.keys().filter(|i| !after.contains_key(i)).copied().collect();
                            if gone.len() as u64 != x.get_ref().deleted_count {
                                return Err(Failure::new("batch_delete_count", format!("{}: deleted_count={} but {:?} vanished", what, x.get_ref().deleted_count, gone)));
                            }
                            if let FClass::Valid(g) = f {
                                let want: Vec<u64> = before.keys().filter(|i| (**i % 2) as u8 == g % 2).copied().collect();
                                if want != gone {
                                    return Err(Failure::new("batch_delete_wrong_set", format!("{}: removed {:?}, the filter selects {:?}", what, gone, want)));
                                }
                            }
                            model = after;
                        }
                        Err(st) => {
                            if filter_cls(*f) == Cls::Valid && *f != FClass::None {
                                return Err(Failure::new("valid_write_refused", format!("{}: answered {:?} {}", what, st.code(), st.message())).with_sig(sigk("valid_write_refused", "BatchDelete")));
                            }
                        }
                    }
                    writes = true;
                }
                Op::BatchDeleteNone => {
                    let resp = s.call(|mut c, k| async move { c.batch_delete(with_key(pb::BatchDeleteRequest { delete_criteria: None, namespace: String::new() }, k.as_deref())).await })?;
                    answered(&what, &resp)?;
                    if resp.is_ok() {
                        return Err(Failure::new("invalid_request_accepted", format!("{}: no criteria, answered OK", what)).with_sig(sigk("invalid_request_accepted", "BatchDelete")));
                    }
                    writes = true;
                }
                Op::Query { id } => {
                    let idv = id_of(*id);
                    let resp = s.call(|mut c, k| async move { c.query(with_key(pb::QueryRequest { doc_id: idv, include_embedding: true, namespace: String::new() }, k.as_deref())).await })?;
                    answered(&what, &resp)?;
                    match &resp {
                        Ok(x) => {
                            let x = x.get_ref();
                            if id_cls(*id, auth) == Cls::Refuse {
                                return Err(Failure::new("invalid_request_accepted", format!("{}: answered OK found={}", what, x.found)).with_sig(sigk("invalid_request_accepted", "Query")));
                            }
                            let want = model.get(&idv);
                            if x.found != want.is_some() || (x.found && x.metadata.get("v") != want) {
                                return Err(Failure::new("query_differs", format!("{}: found={} stamp {:?}; the model has {:?}", what, x.found, x.metadata.get("v"), want)));
                            }
                        }
                        Err(st) => {
                            if id_cls(*id, auth) == Cls::Valid {
                                return Err(Failure::new("valid_read_refused", format!("{}: answered {:?} {}", what, st.code(), st.message())).with_sig(sigk("valid_read_refused", "Query")));
                            }
                        }
                    }
                }
                Op::BulkQuery { ids, oversize } => {
                    let mut idv: Vec<u64> = ids.iter().map(|i| id_of(*i)).collect();
                    if *oversize {
                        idv.extend((0..10_001u64).map(|j| 1 + j % 6));
                    }
                    let cls = if *oversize { Cls::Refuse } else { ids.iter().fold(Cls::Valid, |a, i| worst(a, if *i == IdClass::Zero { Cls::Either } else { id_cls(*i, auth) })) };
                    let list = idv.clone();
                    let resp = s.call(|mut c, k| async move { c.bulk_query(with_key(pb::BulkQueryRequest { doc_ids: list, include_embeddings: false, namespace: String::new() }, k.as_deref())).await })?;
                    answered(&what, &resp)?;
                    match &resp {
                        Ok(x) => {
                            if cls == Cls::Refuse {
                                return Err(Failure::new("invalid_request_accepted", format!("{}: answered OK", what)).with_sig(sigk("invalid_request_accepted", "BulkQuery")));
                            }
                            for q in &x.get_ref().results {
                                let want = model.get(&q.doc_id);
                                if q.found != want.is_some() || (q.found && q.metadata.get("v") != want) {
                                    return Err(Failure::new("query_differs", format!("{}: id {} found={} stamp {:?}; the model has {:?}", what, q.doc_id, q.found, q.metadata.get("v"), want)));
                                }
                            }
                        }
                        Err(st) => {
                            if cls == Cls::Valid {
                                return Err(Failure::new("valid_read_refused", format!("{}: answered {:?} {}", what, st.code(), st.message())).with_sig(sigk("valid_read_refused", "BulkQuery")));
                            }
                        }
                    }
                }
                Op::Search(sr) => {
                    let cls = sreq_cls(sr);
                    let r = sreq_of(sr);
                    let resp = s.call(|mut c, k| async move { c.search(with_key(r, k.as_deref())).await })?;
                    answered(&what, &resp)?;
                    match &resp {
                        Ok(x) => {
                            if cls == Cls::Refuse {
                                return Err(Failure::new("invalid_request_accepted", format!("{}: answered OK with {} results", what, x.get_ref().results.len())).with_sig(sigk("invalid_request_accepted", "Search")));
                            }
                            judge_results(&what, &x.get_ref().results, sr, &model)?;
                        }
                        Err(st) => {
                            if cls == Cls::Valid {
                                return Err(Failure::new("valid_read_refused", format!("{}: answered {:?} {}", what, st.code(), st.message())).with_sig(sigk("valid_read_refused", "Search")));
                            }
                        }
                    }
                    if cls == Cls::Refuse && !model.is_empty() {
                        refused_seen_nonempty = true;
                    }
                }
                Op::SearchBurst { req, n } => {
                    let cls = sreq_cls(req);
                    for j in 0..*n {
                        let r = sreq_of(req);
                        let resp = s.call(|mut c, k| async move { c.search(with_key(r, k.as_deref())).await })?;
                        answered(&what, &resp)?;
                        match &resp {
                            Ok(x) => {
                                if cls == Cls::Refuse {
                                    return Err(Failure::new("invalid_request_accepted", format!("{} [{}]: answered OK with {} results", what, j, x.get_ref().results.len())).with_sig(sigk("invalid_request_accepted", "Search")));
                                }
                                judge_results(&what, &x.get_ref().results, req, &model)?;
                            }
                            Err(st) => {
                                if cls == Cls::Valid {
                                    return Err(Failure::new("valid_read_refused", format!("{} [{}]: answered {:?} {}", what, j, st.code(), st.message())).with_sig(sigk("valid_read_refused", "Search")));
                                }
                            }
                        }
                    }
                    rep.label("search_burst");
                    // point lookups take a different path from the BulkQuery census (cache ->
                    // recent-write tier -> cold tier, each behind a circuit breaker): after a
                    // burst every live document must still be found by Query
                    for (idv, want) in model.clone() {
                        let resp = s.call(|mut c, k| async move { c.query(with_key(pb::QueryRequest { doc_id: idv, include_embedding: false, namespace: String::new() }, k.as_deref())).await })?;
                        answered(&what, &resp)?;
                        match &resp {
                            Ok(x) => {
                                let x = x.get_ref();
                                if !x.found || x.metadata.get("v") != Some(&want) {
                                    return Err(Failure::new("query_differs", format!("{}: after the burst Query({}) answers found={} stamp {:?}; the model has {:?}", what, idv, x.found, x.metadata.get("v"), want)));
                                }
                            }
                            Err(st) => return Err(Failure::new("valid_read_refused", format!("{}: after the burst Query({}) answered {:?} {}", what, idv, st.code(), st.message())).with_sig(sigk("valid_read_refused", "Query"))),
                        }
                        rep.count("point_lookups_after_bursts", 1);
                    }
                }
                Op::BulkSearch(list) => {
                    let reqs: Vec<pb::SearchRequest> = list.iter().map(sreq_of).collect();
                    let n = reqs.len();
                    let out = s.call(|mut c, k| async move {
                        match c.bulk_search(with_key(tokio_stream::iter(reqs), k.as_deref())).await {
                            Err(st) => (vec![], Some(st)),
                            Ok(resp) => {
                                let mut st = resp.into_inner();
                                let mut oks = vec![];
                                loop {
                                    match st.message().await {
                                        Ok(Some(r)) => oks.push(r),
                                        Ok(None) => return (oks, None),
                                        Err(e) => return (oks, Some(e)),
                                    }
                                    if oks.len() > n + 2 {
                                        return (oks, None);
                                    }
                                }
                            }
                        }
                    })?;
                    let (oks, end) = out;
                    if let Some(st) = &end {
                        if no_answer(st.code()) {
                            return Err(Failure::new("no_answer", format!("{}: the stream was not answered: {:?} {}", what, st.code(), st.message())).with_sig(json!({"kind": "no_answer"})));
                        }
                    }
                    let first_refuse = list.iter().position(|x| sreq_cls(x) == Cls::Refuse);
                    let first_not_valid = list.iter().position(|x| sreq_cls(x) != Cls::Valid);
                    if end.is_none() && oks.len() < n {
                        return Err(Failure::new("no_answer", format!("{}: the response stream ended with OK status after {} of {} responses: {} requests received neither a result nor a status", what, oks.len(), n, n - oks.len())).with_sig(json!({"kind": "no_answer", "rpc": "BulkSearch"})));
                    }
                    if oks.len() > n {
                        return Err(Failure::new("stream_accounting", format!("{}: {} requests, {} responses", what, n, oks.len())).with_sig(sigk("stream_accounting", "BulkSearch")));
                    }
                    if let Some(p) = first_refuse {
                        if oks.len() > p && oks[p].error.is_empty() {
                            return Err(Failure::new("invalid_request_accepted", format!("{}: request {} must be refused but {} result responses arrived (end: {:?})", what, p, oks.len(), end.as_ref().map(|e| e.code()))).with_sig(sigk("invalid_request_accepted", "BulkSearch")));
                        }
                    }
                    let must_ok = first_not_valid.unwrap_or(n);
                    if oks.len() < must_ok && first_not_valid.is_none() {
                        return Err(Failure::new("valid_read_refused", format!("{}: all {} requests are valid but only {} were answered (end: {:?})", what, n, oks.len(), end.as_ref().map(|e| (e.code(), e.message().to_string())))).with_sig(sigk("valid_read_refused", "BulkSearch")));
                    }
                    for (j, r) in oks.iter().enumerate() {
                        if r.error.is_empty() {
                            judge_results(&format!("{} [{}]", what, j), &r.results, &list[j], &model)?;
                        }
                    }
                }
                Op::Flush => {
                    let resp = s.call(|mut c, k| async move { c.flush_hot_tier(with_key(pb::FlushRequest { force: true }, k.as_deref())).await })?;
                    answered(&what, &resp)?;
                    writes = true;
                }
                Op::Restart { kill } => {
                    if *kill {
                        s.srv.stop_kill();
                    } else {
                        s.srv.stop_term();
                    }
                    s.srv.start().map_err(|e| crate::common::srv::start_failure("restart_failed", format!("{}: the server does not start again: {}", what, e), &e))?;
                    rep.label("restart");
                    writes = true;
                }
            }
            if writes {
                let got = s.census()?;
                // resolve stream ambiguity: observed stamp must be one of the possible ones
                let mut expect = model.clone();
                for (id, poss) in &possible {
                    let obs = got.get(id).cloned();
                    if poss.contains(&obs) {
                        match obs {
                            Some(st) => {
                                expect.insert(*id, st);
                            }
                            None => {
                                expect.remove(id);
                            }
                        }
                    } else {
                        return Err(Failure::new("refused_item_had_effect", format!("{}: id {} is now {:?}; the accepted items allow only {:?}", what, id, obs, poss.iter().take(6).collect::<Vec<_>>())).with_sig(json!({"kind": "refused_item_had_effect"})));
                    }
                }
                if got != expect {
                    let diff: Vec<String> = got.keys().chain(expect.keys()).collect::<BTreeSet<_>>().into_iter().filter(|i| got.get(i) != expect.get(i)).map(|i| format!("id {}: server {:?} model {:?}", i, got.get(i), expect.get(i))).collect();
                    return Err(Failure::new("census_differs", format!("{}: collection differs from 'exactly the accepted items applied': {}", what, diff.join("; "))).with_sig(json!({"kind": "refused_item_had_effect"})));
                }
                model = expect;
            }
            let canary = s.still_serving(&what)?;
            // a READ request (valid or not) changes nothing: the canary search must answer exactly
            // as it did before it ("keeps serving later requests"; e.g. invalid queries must not
            // trip a circuit breaker that degrades later valid searches)
            let is_read = matches!(op, Op::Query { .. } | Op::BulkQuery { .. } | Op::Search(_) | Op::BulkSearch(_) | Op::SearchBurst { .. });
            if is_read {
                if let Some(prev) = &prev_canary {
                    // equal scores come back in an unspecified order (and a k-cut inside a tie
                    // group may keep different members): compare the score sequences, and the
                    // ids only where a score is unique within the answer
                    let same = prev.len() == canary.len()
                        && prev.iter().zip(canary.iter()).all(|(a, b)| a.1.to_bits() == b.1.to_bits())
                        && prev.iter().zip(canary.iter()).all(|(a, b)| a.0 == b.0 || prev.iter().filter(|x| x.1.to_bits() == a.1.to_bits()).count() > 1 || prev.last().map_or(false, |l| l.1.to_bits() == a.1.to_bits()));
                    if !same {
                        return Err(Failure::new("read_request_changed_later_answers", format!("{}: the canary search answered ids {:?} before this read request and {:?} after it", what, prev, canary)).with_sig(json!({"kind": "read_request_changed_later_answers"})));
                    }
                    rep.count("canary_compared_across_reads", 1);
                }
            }
            prev_canary = Some(canary);
            rep.count("evaluations_judged", 1);
        }
        // final restart: the collection after restart equals the accepted items
        s.srv.stop_term();
        s.srv.start().map_err(|e| crate::common::srv::start_failure("restart_failed", format!("after the sequence the server does not start again: {}", e), &e))?;
        let got = s.census()?;
        if got != model {
            return Err(Failure::new("census_differs_after_restart", format!("after restart the collection is {:?}, the accepted items give {:?}", got, model)).with_sig(json!({"kind": "refused_item_had_effect", "after_restart": true})));
        }
        let _ = s.still_serving("after the final restart")?;
        Ok(rep)
    }
}

fn judge_results(what: &str, results: &[pb::SearchResult], sr: &SReq, model: &BTreeMap<u64, Stamp>) -> Result<(), Failure> {
    if results.len() > sr.k as usize {
        return Err(Failure::new("search_too_many", format!("{}: {} results for k={}", what, results.len(), sr.k)));
    }
    for r in results {
        if !model.contains_key(&r.doc_id) {
            return Err(Failure::new("search_returns_absent", format!("{}: result id {} is not a live document ({:?})", what, r.doc_id, model.keys().collect::<Vec<_>>())));
        }
        if !r.score.is_finite() && vec_cls(sr.q) == Cls::Valid {
            // scores of valid queries against accepted documents should be numbers; an accepted
            // overflowing vector may legitimately produce an infinite distance, so only NaN counts
            if r.score.is_nan() {
                return Err(Failure::new("search_nan_score", format!("{}: result id {} has a NaN score", what, r.doc_id)).with_sig(json!({"kind": "search_nan_score"})));
            }
        }
    }
    Ok(())
}

pub fn main(ctx: &Ctx) {
    ctx.assume("EITHER-class inputs (zero / -0.0 / overflowing-norm / denormal vectors, odd metadata, malformed, deep or wide filters, non-finite min_score, id 0 inside an id list, ids above u32::MAX without auth) may be accepted or refused; only the agreement between answer and effect is judged for them");
    ctx.assume("a request counts as unanswered when the client sees DEADLINE_EXCEEDED (20 s), UNAVAILABLE, CANCELLED or UNKNOWN");
    run_committed_replays(ctx, &C15);
    run_pbt(ctx, &C15, ctx.tier.pick(320, 5_000));
}

pub fn replay(ctx: &Ctx, v: &serde_json::Value) -> Option<i32> {
    replay_file(ctx, &C15, v)
}
