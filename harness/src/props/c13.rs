//! C13 — strict recovery never silently returns damaged state.
//!
//! Generated: a data directory from a random history (snapshots, rotation, compaction,
//! restarts; closed cleanly) and a list of single faults, each applied to a fresh copy:
//! bit flips at structural offsets (magic, frame length, CRC, header fields, snapshot size /
//! version / last_wal_seq, every MANIFEST byte) and at random offsets, truncations at frame
//! boundaries +-1 and random lengths, deletions.
//! Oracle: strict `recover` returns Err, or the dump equals the pre-damage dump exactly.
//! Exclusion (as in the property): for a fault on the newest listed log segment the dump may
//! also equal the collection obtained from a frame-prefix of that segment.

use crate::common::eng::{copy_dir, diff_dumps, dump_backend, BackendCfg, Dump};
use crate::common::gens::DIMS_SMALL;
use crate::common::hist::{apply_write, decode_bop, BOp};
use crate::common::model::Model;
use crate::common::runner::*;
use crate::common::tape::Tape;
use serde::{Deserialize, Serialize};
use serde_json::json;
use std::collections::BTreeSet;
use std::path::{Path, PathBuf};

#[derive(Clone, Debug, Serialize, Deserialize)]
pub enum OffSel {
    Structural(u16),
    Random(u32),
}

#[derive(Clone, Debug, Serialize, Deserialize)]
pub enum LenSel {
    /// truncate to the n-th frame boundary plus delta (-1, 0, +1)
    Boundary(u16, i8),
    Random(u32),
}

#[derive(Clone, Debug, Serialize, Deserialize)]
pub enum FaultKind {
    Flip { sel: OffSel, bit: u8 },
    Trunc { sel: LenSel },
    Delete,
    /// MANIFEST only: the i-th listed segment name is replaced by the j-th listed name — what a
    /// single flipped bit does when two time-based segment names are neighbours (observed:
    /// ...237704.wal / ...237784.wal); generated directly because the names change per run
    ListedNameCollision { i: u8, j: u8 },
}

#[derive(Clone, Debug, Serialize, Deserialize)]
pub struct Fault {
    pub file: u16,
    pub kind: FaultKind,
}

#[derive(Clone, Debug, Serialize, Deserialize)]
pub struct Case {
    pub cfg: BackendCfg,
    pub pool: usize,
    pub ops: Vec<BOp>,
    pub faults: Vec<Fault>,
}

pub struct C13;

#[derive(Clone, Debug)]
pub(super) struct Region {
    pub off: usize,
    pub name: &'static str,
}

#[derive(Clone, Debug, PartialEq, Eq)]
enum FileClass {
    Manifest,
    WalFinal,
    WalNonFinal,
    WalUnlisted,
    SnapshotPrimary,
    SnapshotStale,
    Other,
}

impl FileClass {
    fn name(&self) -> &'static str {
        match self {
            FileClass::Manifest => "manifest",
            FileClass::WalFinal => "wal_newest_listed",
            FileClass::WalNonFinal => "wal_non_final",
            FileClass::WalUnlisted => "wal_unlisted",
            FileClass::SnapshotPrimary => "snapshot_primary",
            FileClass::SnapshotStale => "snapshot_stale",
            FileClass::Other => "other",
        }
    }
}

/// Frame boundaries of a WAL file (offsets where a frame starts, plus the end of the last
/// complete frame) and the structural offsets inside it.
pub(super) fn parse_wal(bytes: &[u8]) -> (Vec<usize>, Vec<Region>) {
    let mut bounds = vec![];
    let mut regions = vec![];
    for i in 0..4.min(bytes.len()) {
        regions.push(Region { off: i, name: "wal_magic" });
    }
    let mut pos = 4usize;
    while pos + 4 <= bytes.len() {
        bounds.push(pos);
        let len = u32::from_le_bytes([bytes[pos], bytes[pos + 1], bytes[pos + 2], bytes[pos + 3]]) as usize;
        if len == 0 || pos + 4 + len + 4 > bytes.len() {
            break;
        }
        for i in 0..4 {
            regions.push(Region { off: pos + i, name: "frame_len" });
        }
        let p = pos + 4;
        // bincode WalEntry: op u32 | doc_id u64 | emb_len u64 | floats | meta_len u64 | ... | seq_no u64 | timestamp u64
        for i in 0..4 {
            regions.push(Region { off: p + i, name: "entry_op" });
        }
        for i in 4..12 {
            regions.push(Region { off: p + i, name: "entry_doc_id" });
        }
        for i in 12..20.min(len) {
            regions.push(Region { off: p + i, name: "entry_emb_len" });
        }
        if len >= 36 {
            for i in (len - 16)..(len - 8) {
                regions.push(Region { off: p + i, name: "entry_seq_no" });
            }
            regions.push(Region { off: p + len / 2, name: "entry_body" });
        }
        for i in 0..4 {
            regions.push(Region { off: p + len + i, name: "frame_crc" });
        }
        pos = p + len + 4;
    }
    bounds.push(pos.min(bytes.len()));
    (bounds, regions)
}

fn parse_snapshot(bytes: &[u8]) -> Vec<Region> {
    let mut r = vec![];
    let n = bytes.len();
    for i in 0..4.min(n) {
        r.push(Region { off: i, name: "snap_magic" });
    }
    for i in 4..12.min(n) {
        r.push(Region { off: i, name: "snap_size" });
    }
    for i in 12..16.min(n) {
        r.push(Region { off: i, name: "snap_version" });
    }
    for i in 16..48.min(n) {
        r.push(Region { off: i, name: "snap_header" });
    }
    if n > 64 {
        for i in (n - 16)..(n - 12) {
            r.push(Region { off: i, name: "snap_distance" });
        }
        for i in (n - 12)..(n - 4) {
            r.push(Region { off: i, name: "snap_last_wal_seq" });
        }
        for i in (n - 4)..n {
            r.push(Region { off: i, name: "snap_crc" });
        }
        r.push(Region { off: n / 2, name: "snap_body" });
    }
    r
}

struct DirInfo {
    files: Vec<String>,
    manifest_wals: Vec<String>,
    manifest_snapshot: Option<String>,
}

fn dir_info(dir: &Path) -> DirInfo {
    let mut files: Vec<String> = std::fs::read_dir(dir).map(|rd| rd.flatten().map(|e| e.file_name().to_string_lossy().to_string()).collect()).unwrap_or_default();
    files.sort();
    let mut manifest_wals = vec![];
    let mut manifest_snapshot = None;
    if let Ok(text) = std::fs::read_to_string(dir.join("MANIFEST")) {
        if let Ok(v) = serde_json::from_str::<serde_json::Value>(&text) {
            if let Some(a) = v["wal_segments"].as_array() {
                manifest_wals = a.iter().filter_map(|x| x.as_str().map(|s| s.to_string())).collect();
            }
            manifest_snapshot = v["latest_snapshot"].as_str().map(|s| s.to_string());
        }
    }
    DirInfo { files, manifest_wals, manifest_snapshot }
}

fn classify(info: &DirInfo, name: &str) -> FileClass {
    if name == "MANIFEST" {
        FileClass::Manifest
    } else if name.ends_with(".wal") {
        match info.manifest_wals.iter().position(|w| w == name) {
            Some(i) if i + 1 == info.manifest_wals.len() => FileClass::WalFinal,
            Some(_) => FileClass::WalNonFinal,
            None => FileClass::WalUnlisted,
        }
    } else if name.ends_with(".snap") {
        if info.manifest_snapshot.as_deref() == Some(name) {
            FileClass::SnapshotPrimary
        } else {
            FileClass::SnapshotStale
        }
    } else {
        FileClass::Other
    }
}

/// Recover in a child process (for faults that can make the engine allocate without bound,
/// e.g. a flipped high bit of the snapshot size field, which aborts the process).
fn probe_in_child(cfg: &BackendCfg, dir: &Path) -> Result<Option<Dump>, String> {
    let exe = std::env::current_exe().map_err(|e| e.to_string())?;
    let out = std::process::Command::new(exe)
        .arg("probe-recover")
        .arg(serde_json::to_string(cfg).unwrap())
        .arg(dir)
        .output()
        .map_err(|e| e.to_string())?;
    match out.status.code() {
        Some(0) => {
            let d: Dump = serde_json::from_slice(&out.stdout).map_err(|e| format!("child output: {}", e))?;
            Ok(Some(d))
        }
        Some(3) => Ok(None),
        _ => Err(format!("child crashed: {:?}", out.status)),
    }
}

/// Entry point of the child process.
pub fn probe_main(cfg_json: &str, dir: &str) -> i32 {
    let cfg: BackendCfg = match serde_json::from_str(cfg_json) {
        Ok(c) => c,
        Err(_) => return 2,
    };
    match cfg.recover(Path::new(dir)) {
        Ok(b) => {
            let d = dump_backend(&b);
            println!("{}", serde_json::to_string(&d).unwrap());
            0
        }
        Err(_) => 3,
    }
}

impl Prop for C13 {
    type Case = Case;
    fn part(&self) -> &'static str {
        "damage"
    }
    fn shape(&self, tier: Tier) -> RawShape {
        // one chunk = one history operation or one fault (first byte decides), so that the
        // library's chunk removal shrinks faults and operations independently
        RawShape { head_len: 8, chunk_len: 20, min_chunks: 12, max_chunks: tier.pick(90, 160) }
    }
    fn max_shrink_iters(&self) -> u32 {
        600
    }
    fn rule(&self) -> String {
        "data directory from a generated history x generated single faults (file x flip at structural/random offset | truncation at frame boundary +-1 / random length | deletion); each (directory, fault) is one evaluation; non-trivial = the fault hits a file that recovery reads (listed in MANIFEST, MANIFEST itself, or a snapshot reachable by fallback) and changes at least one byte; distinct = hash of decoded case (directory + fault list)".into()
    }
    fn decode(&self, raw: &Raw, _tier: Tier) -> Case {
        let mut t = Tape::new(&raw.head);
        let mut cfg = BackendCfg::decode(&mut t, DIMS_SMALL);
        // bias towards configurations that produce several segments and snapshots
        cfg.rotate_bytes = t.pick(&[300u64, 64, 1 << 20]);
        cfg.snapshot_interval = t.pick(&[3usize, 0, 1, 7, 1000]);
        let pool = 3 + t.below(6);
        let mut faults = vec![];
        let mut ops = vec![];
        for c in &raw.chunks {
            if c[0] < 112 {
                ops.push(decode_bop(&c[1..], &cfg, pool, &[10, 3, 2, 3, 2, 2]));
                continue;
            }
            let mut t = Tape::new(&c[1..]);
            let file = t.u16();
            let kind = match t.weighted(&[10, 5, 1, 1]) {
                0 => {
                    let sel = if t.chance(176) { OffSel::Structural(t.u16()) } else { OffSel::Random(t.u32()) };
                    FaultKind::Flip { sel, bit: t.below(8) as u8 }
                }
                1 => {
                    let sel = if t.chance(176) { LenSel::Boundary(t.u16(), t.pick(&[0i8, -1, 1])) } else { LenSel::Random(t.u32()) };
                    FaultKind::Trunc { sel }
                }
                2 => FaultKind::Delete,
                _ => FaultKind::ListedNameCollision { i: t.u8(), j: t.u8() },
            };
            faults.push(Fault { file, kind });
        }
        Case { cfg, pool, ops, faults }
    }

    fn run(&self, case: &Case, env: &CaseEnv) -> Result<CaseReport, Failure> {
        let cfg = &case.cfg;
        let dir = env.dir("data");
        let mut rep = CaseReport::default();
        // ---- build the directory -------------------------------------------------------
        let mut b = cfg.create(&dir).map_err(|e| Failure::new("setup_failed", format!("{:#}", e)))?;
        let mut model = Model::new();
        let mut ever = BTreeSet::new();
        for (i, op) in case.ops.iter().enumerate() {
            match op {
                BOp::Snapshot => b.create_snapshot().map_err(|e| Failure::new("setup_failed", format!("op {} snapshot: {:#}", i, e)))?,
                BOp::Restart => {
                    drop(b);
                    b = cfg.recover(&dir).map_err(|e| Failure::new("setup_failed", format!("op {} restart: {:#}", i, e)))?;
                }
                w => {
                    apply_write(&b, &mut model, w, cfg, &mut ever).map_err(|f| Failure::new("setup_failed", format!("op {}: {}", i, f.msg)))?;
                }
            }
        }
        drop(b);
        let info = dir_info(&dir);
        // ---- pre-damage collection -----------------------------------------------------
        let pre: Dump = {
            let c = env.dir("pre");
            copy_dir(&dir, &c).map_err(|e| Failure::new("setup_failed", e.to_string()))?;
            let b = cfg.recover(&c).map_err(|e| Failure::new("setup_failed", format!("pre-damage recover: {:#}", e)))?;
            dump_backend(&b)
        };
        if let Some(d) = diff_dumps(&model.docs, &pre) {
            return Err(Failure::new("setup_failed", format!("pre-damage recovery differs from model (C02 territory): {}", d)));
        }
        // acceptable tail-loss outcomes for the newest listed segment (computed lazily)
        let mut tail_prefix_dumps: Option<Vec<Dump>> = None;

        let mut done: BTreeSet<String> = BTreeSet::new();
        for (fi, fault) in case.faults.iter().enumerate() {
            if info.files.is_empty() {
                break;
            }
            let name = if matches!(fault.kind, FaultKind::ListedNameCollision { .. }) { "MANIFEST".to_string() } else { info.files[fault.file as usize % info.files.len()].clone() };
            let class = classify(&info, &name);
            let orig = std::fs::read(dir.join(&name)).map_err(|e| Failure::new("setup_failed", e.to_string()))?;
            // ---- materialise the fault --------------------------------------------------
            let (damaged, region, desc): (Option<Vec<u8>>, String, String) = match &fault.kind {
                FaultKind::Delete => (None, "delete".into(), "delete".into()),
                FaultKind::ListedNameCollision { i, j } => {
                    let n = info.manifest_wals.len();
                    if n < 2 {
                        continue;
                    }
                    let (a, b) = (&info.manifest_wals[*i as usize % n], &info.manifest_wals[*j as usize % n]);
                    if a == b {
                        continue;
                    }
                    let text = String::from_utf8_lossy(&orig).to_string();
                    let d = text.replacen(a.as_str(), b.as_str(), 1);
                    (Some(d.into_bytes()), "segment_name".into(), format!("listed segment name {} replaced by listed name {}", a, b))
                }
                FaultKind::Flip { sel, bit } => {
                    if orig.is_empty() {
                        continue;
                    }
                    let regions: Vec<Region> = if name.ends_with(".wal") {
                        parse_wal(&orig).1
                    } else if name.ends_with(".snap") {
                        parse_snapshot(&orig)
                    } else {
                        (0..orig.len()).map(|i| Region { off: i, name: "manifest_byte" }).collect()
                    };
                    let (off, rname) = match sel {
                        OffSel::Structural(i) if !regions.is_empty() => {
                            let r = &regions[*i as usize % regions.len()];
                            (r.off.min(orig.len() - 1), r.name)
                        }
                        OffSel::Structural(i) => (*i as usize % orig.len(), "random"),
                        OffSel::Random(x) => {
                            let off = *x as usize % orig.len();
                            (off, regions.iter().find(|r| r.off == off).map(|r| r.name).unwrap_or("random"))
                        }
                    };
                    let mut d = orig.clone();
                    d[off] ^= 1 << bit;
                    (Some(d), rname.to_string(), format!("flip bit {} of byte {} ({})", bit, off, rname))
                }
                FaultKind::Trunc { sel } => {
                    let len = match sel {
                        LenSel::Boundary(i, delta) if name.ends_with(".wal") => {
                            let b = parse_wal(&orig).0;
                            let base = b[*i as usize % b.len()] as i64;
                            (base + *delta as i64).clamp(0, orig.len() as i64) as usize
                        }
                        LenSel::Boundary(i, delta) => ((*i as usize % (orig.len() + 1)) as i64 + *delta as i64).clamp(0, orig.len() as i64) as usize,
                        LenSel::Random(x) => *x as usize % (orig.len() + 1),
                    };
                    if len == orig.len() {
                        continue;
                    }
                    (Some(orig[..len].to_vec()), "truncate".into(), format!("truncate from {} to {} bytes", orig.len(), len))
                }
            };
            let key = format!("{}|{}", name, desc);
            if !done.insert(key) {
                continue;
            }
            let work = env.dir(&format!("f{}", fi));
            copy_dir(&dir, &work).map_err(|e| Failure::new("setup_failed", e.to_string()))?;
            match &damaged {
                None => std::fs::remove_file(work.join(&name)).map_err(|e| Failure::new("setup_failed", e.to_string()))?,
                Some(d) => std::fs::write(work.join(&name), d).map_err(|e| Failure::new("setup_failed", e.to_string()))?,
            }
            // ---- strict recovery --------------------------------------------------------
            let outcome: Option<Dump> = if region == "snap_size" {
                match probe_in_child(cfg, &work) {
                    Ok(o) => o,
                    Err(_) => {
                        rep.label("startup_crashed_instead_of_error");
                        rep.count("evaluations_judged", 1);
                        let _ = std::fs::remove_dir_all(&work);
                        continue;
                    }
                }
            } else {
                match cfg.recover(&work) {
                    Ok(b) => Some(dump_backend(&b)),
                    Err(_) => None,
                }
            };
            let _ = std::fs::remove_dir_all(&work);
            rep.count("evaluations_judged", 1);
            let reads_it = !matches!(class, FileClass::WalUnlisted | FileClass::Other);
            if reads_it {
                rep.count("nontrivial_faults", 1);
                rep.nontrivial = true;
            }
            rep.label(&format!("file={}", class.name()));
            match outcome {
                None => {
                    rep.count("refused", 1);
                }
                Some(got) => {
                    if diff_dumps(&pre, &got).is_none() {
                        rep.count("recovered_identical", 1);
                        continue;
                    }
                    if class == FileClass::WalFinal {
                        // loss confined to the tail of the newest listed segment: C01's crash case
                        if tail_prefix_dumps.is_none() {
                            tail_prefix_dumps = Some(self.tail_prefixes(cfg, &dir, &name, env)?);
                        }
                        if tail_prefix_dumps.as_ref().unwrap().iter().any(|d| diff_dumps(d, &got).is_none()) {
                            rep.excluded.push("tail_loss_of_newest_segment".into());
                            continue;
                        }
                    }
                    let d = diff_dumps(&pre, &got).unwrap();
                    let lost = pre.keys().filter(|k| !got.contains_key(k)).count();
                    let resurrected = got.keys().filter(|k| !pre.contains_key(k)).count();
                    let effect = if lost > 0 && resurrected == 0 {
                        "documents_missing"
                    } else if resurrected > 0 && lost == 0 {
                        "documents_resurrected"
                    } else {
                        "documents_altered"
                    };
                    let fault_name = match &fault.kind {
                        FaultKind::ListedNameCollision { .. } => "name_collision",
                        FaultKind::Delete => "delete",
                        FaultKind::Flip { .. } => "flip",
                        FaultKind::Trunc { .. } => "truncate",
                    };
                    let sig = json!({"kind": "silent_damage", "file_class": class.name(), "fault": fault_name, "region": region, "effect": effect});
                    if env.ctx.is_known(&sig) {
                        // listed finding: count it and keep judging the remaining faults
                        rep.known_sigs.push(sig);
                        continue;
                    }
                    return Err(Failure::new(
                        "silent_damage",
                        format!(
                            "strict recovery succeeded after damage to {} ({}): {} — but the collection changed: {} (pre-damage {} docs, recovered {} docs)",
                            name,
                            class.name(),
                            desc,
                            d,
                            pre.len(),
                            got.len()
                        ),
                    )
                    .with_sig(json!({"kind": "silent_damage", "file_class": class.name(), "fault": fault_name, "region": region, "effect": effect}))
                    .with_detail(json!({"files": info.files, "manifest_wals": info.manifest_wals, "manifest_snapshot": info.manifest_snapshot})));
                }
            }
        }
        Ok(rep)
    }
}

impl C13 {
    /// Dumps obtained by truncating the newest listed segment at each of its frame boundaries.
    fn tail_prefixes(&self, cfg: &BackendCfg, dir: &Path, name: &str, env: &CaseEnv) -> Result<Vec<Dump>, Failure> {
        let orig = std::fs::read(dir.join(name)).map_err(|e| Failure::new("setup_failed", e.to_string()))?;
        let (bounds, _) = parse_wal(&orig);
        let mut out = vec![];
        for (i, b) in bounds.iter().enumerate() {
            let work: PathBuf = env.dir(&format!("tail{}", i));
            copy_dir(dir, &work).map_err(|e| Failure::new("setup_failed", e.to_string()))?;
            std::fs::write(work.join(name), &orig[..*b]).map_err(|e| Failure::new("setup_failed", e.to_string()))?;
            if let Ok(bk) = cfg.recover(&work) {
                out.push(dump_backend(&bk));
            }
            let _ = std::fs::remove_dir_all(&work);
        }
        Ok(out)
    }
}

pub fn main(ctx: &Ctx) {
    ctx.assume("part damage: engine-level strict recovery (HnswBackend::recover) with structure-aware faults; part server: the same oracle through the real server binary's start-up (strict mode, fresh start disabled) with byte-level faults");
    ctx.assume("faults on the newest listed log segment whose outcome equals a frame-prefix replay of that segment are excluded (C01's crash case), as the property states");
    ctx.assume("snapshot size-field faults are recovered in a child process because the engine may abort on an unbounded allocation; an abort counts as 'refused to start'");
    run_committed_replays(ctx, &C13);
    run_pbt(ctx, &C13, ctx.tier.pick(12_000, 200_000));
    run_committed_replays(ctx, &super::c13srv::C13Srv);
    run_pbt(ctx, &super::c13srv::C13Srv, ctx.tier.pick(160, 3_000));
}

pub fn replay(ctx: &Ctx, v: &serde_json::Value) -> Option<i32> {
    replay_file(ctx, &C13, v).or_else(|| replay_file(ctx, &super::c13srv::C13Srv, v))
}
