pub mod c02;
