pub mod c01;
pub mod c01srv;
pub mod c05srv;
pub mod c02;
pub mod c03;
pub mod c03b;
pub mod c04;
pub mod c05;
pub mod c06;
pub mod c07;
pub mod c07s;
pub mod c08;
pub mod c09;
pub mod c10;
pub mod c11;
pub mod c12;
pub mod c13;
pub mod c13srv;
pub mod c14;
pub mod c15;
pub mod c16;
pub mod c18;
pub mod c19;
pub mod c20;
pub mod tiered_hist;

use crate::common::runner::Ctx;
use serde_json::Value;

pub struct Entry {
    pub id: &'static str,
    pub level: &'static str,
    pub main: fn(&Ctx),
    pub replay: fn(&Ctx, &Value) -> Option<i32>,
}

pub const REGISTRY: &[Entry] = &[
    Entry { id: "C01", level: "fault_enumeration", main: c01::main, replay: c01::replay },
    Entry { id: "C02", level: "exploration", main: c02::main, replay: c02::replay },
    Entry { id: "C03", level: "fault_enumeration", main: c03::main, replay: c03::replay },
    Entry { id: "C04", level: "exploration", main: c04::main, replay: c04::replay },
    Entry { id: "C06", level: "exploration", main: c06::main, replay: c06::replay },
    Entry { id: "C07", level: "exploration", main: c07::main, replay: c07::replay },
    Entry { id: "C12", level: "exploration", main: c12::main, replay: c12::replay },
    Entry { id: "C13", level: "fault_enumeration", main: c13::main, replay: c13::replay },
    Entry { id: "C16", level: "exploration", main: c16::main, replay: c16::replay },
    Entry { id: "C18", level: "exploration", main: c18::main, replay: c18::replay },
    Entry { id: "C19", level: "exploration", main: c19::main, replay: c19::replay },
    Entry { id: "C20", level: "exploration", main: c20::main, replay: c20::replay },
    Entry { id: "C10", level: "exploration", main: c10::main, replay: c10::replay },
    Entry { id: "C14", level: "exploration", main: c14::main, replay: c14::replay },
    Entry { id: "C15", level: "exploration", main: c15::main, replay: c15::replay },
    Entry { id: "C08", level: "exploration", main: c08::main, replay: c08::replay },
    Entry { id: "C05", level: "exploration", main: c05::main, replay: c05::replay },
    Entry { id: "C09", level: "exploration", main: c09::main, replay: c09::replay },
    Entry { id: "C11", level: "exploration", main: c11::main, replay: c11::replay },
];
