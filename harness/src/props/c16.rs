//! C16 — approximate search keeps a recall floor and is deterministic.
//!
//! Generated: seeded datasets (family x metric x dimension x size) at the default index
//! parameters; the same live set is reached by four routes (online inserts, bulk constructor,
//! 3x insert + delete two thirds + forced tombstone compaction, snapshot/WAL recovery).
//! Oracle: brute force in f64 gives the true 10 nearest live neighbours; mean recall@10 over
//! 200 held-out queries >= 0.80 for every route, |recall(route) - recall(online)| <= 0.10;
//! repeating each query returns identical distances and identical ids outside exact ties.

use crate::common::eng::{BackendCfg, Fsync};
use crate::common::gens::Metric;
use crate::common::runner::*;
use crate::common::tape::{Mix, Tape};
use kyrodb_engine::HnswBackend;
use serde::{Deserialize, Serialize};
use serde_json::json;

#[derive(Clone, Copy, Debug, PartialEq, Eq, Serialize, Deserialize)]
pub enum Family {
    Sphere,
    Clusters,
    Manifold,
}

#[derive(Clone, Debug, Serialize, Deserialize)]
pub struct Case {
    pub family: Family,
    pub metric: Metric,
    pub dim: usize,
    pub n: usize,
    pub seed: u64,
}

pub struct C16;

const QUERIES: usize = 200;
const K: usize = 10;

fn gen_points(case: &Case, count: usize, stream: u64) -> Vec<Vec<f32>> {
    let mut m = Mix(case.seed ^ 0xDA7A);
    let d = case.dim;
    // structure shared by data and queries (centres / embedding), then an independent stream
    let centres: Vec<Vec<f64>> = (0..(8 + m.below(25))).map(|_| (0..d).map(|_| m.gauss()).collect()).collect();
    let intrinsic = 3usize;
    let embed: Vec<Vec<f64>> = (0..intrinsic).map(|_| (0..d).map(|_| m.gauss()).collect()).collect();
    let mut r = Mix(case.seed ^ stream.wrapping_mul(0x9E37_79B9_7F4A_7C15));
    (0..count)
        .map(|_| {
            let v: Vec<f64> = match case.family {
                Family::Sphere => (0..d).map(|_| r.gauss()).collect(),
                Family::Clusters => {
                    let c = &centres[r.below(centres.len() as u64) as usize];
                    c.iter().map(|x| x + 0.25 * r.gauss()).collect()
                }
                Family::Manifold => {
                    let z: Vec<f64> = (0..intrinsic).map(|_| r.gauss()).collect();
                    (0..d).map(|j| (0..intrinsic).map(|i| z[i] * embed[i][j]).sum::<f64>() + 0.02 * r.gauss()).collect()
                }
            };
            let n = v.iter().map(|x| x * x).sum::<f64>().sqrt().max(1e-9);
            // unit length for the sphere family; clusters / manifold keep their scale under Euclidean
            let scale = if case.family == Family::Sphere || case.metric != Metric::Euclidean { 1.0 / n } else { 1.0 };
            v.iter().map(|x| (x * scale) as f32).collect()
        })
        .collect()
}

fn ref_dist(metric: Metric, q: &[f32], v: &[f32]) -> f64 {
    match metric {
        Metric::Euclidean => q.iter().zip(v).map(|(a, b)| (*a as f64 - *b as f64).powi(2)).sum::<f64>(),
        _ => {
            let dot: f64 = q.iter().zip(v).map(|(a, b)| *a as f64 * *b as f64).sum();
            let nq: f64 = q.iter().map(|a| (*a as f64).powi(2)).sum::<f64>().sqrt();
            let nv: f64 = v.iter().map(|a| (*a as f64).powi(2)).sum::<f64>().sqrt();
            1.0 - dot / (nq * nv)
        }
    }
}

struct Measured {
    recall: f64,
    nondeterministic: Option<String>,
}

fn measure(b: &HnswBackend, case: &Case, data: &[Vec<f32>], queries: &[Vec<f32>]) -> Result<Measured, Failure> {
    let mut total = 0.0;
    let mut nondet = None;
    for (qi, q) in queries.iter().enumerate() {
        let mut d: Vec<f64> = data.iter().map(|v| ref_dist(case.metric, q, v)).collect();
        let mut sorted = d.clone();
        sorted.sort_by(|a, b| a.partial_cmp(b).unwrap());
        let kth = sorted[K.min(sorted.len()) - 1];
        let r1 = b.knn_search(q, K).map_err(|e| Failure::new("valid_search_rejected", format!("{:#}", e)))?;
        // every 4th query: between the two identical searches, the same thread runs an expensive
        // search that a helper thread cancels after a swept delay (as the timed tiered search
        // does on time-out); its own result is ignored, the collection is unchanged
        if qi % 4 == 1 {
            let flag = std::sync::atomic::AtomicBool::new(false);
            let go = std::sync::atomic::AtomicBool::new(false);
            let delay_us = [0u64, 2, 5, 10, 20, 40, 80, 160, 320, 640][(qi / 4) % 10];
            let other = &queries[(qi + 7) % queries.len()];
            std::thread::scope(|sc| {
                sc.spawn(|| {
                    while !go.load(std::sync::atomic::Ordering::Acquire) {
                        std::hint::spin_loop();
                    }
                    let t0 = std::time::Instant::now();
                    while (t0.elapsed().as_micros() as u64) < delay_us {
                        std::hint::spin_loop();
                    }
                    flag.store(true, std::sync::atomic::Ordering::Release);
                });
                go.store(true, std::sync::atomic::Ordering::Release);
                let _ = b.knn_search_with_ef_cancel(other, K, Some(4000), Some(&flag));
            });
        }
        let r2 = b.knn_search(q, K).map_err(|e| Failure::new("valid_search_rejected", format!("{:#}", e)))?;
        let hits = r1.iter().filter(|r| (r.doc_id as usize) < d.len() && d[r.doc_id as usize] <= kth + 1e-9 * (1.0 + kth.abs())).count();
        total += hits as f64 / K.min(data.len()) as f64;
        // determinism: same distances; same ids except inside groups of exactly equal distance
        if nondet.is_none() {
            let d1: Vec<u32> = r1.iter().map(|r| r.distance.to_bits()).collect();
            let d2: Vec<u32> = r2.iter().map(|r| r.distance.to_bits()).collect();
            if d1 != d2 {
                nondet = Some(format!("query {}: distances differ between two identical searches: {:?} vs {:?}", qi, r1.iter().map(|r| r.distance).collect::<Vec<_>>(), r2.iter().map(|r| r.distance).collect::<Vec<_>>()));
            } else {
                let group = |rs: &Vec<kyrodb_engine::SearchResult>| {
                    let mut g: Vec<(u32, Vec<u64>)> = vec![];
                    for r in rs {
                        let bits = r.distance.to_bits();
                        match g.last_mut() {
                            Some((b, ids)) if *b == bits => ids.push(r.doc_id),
                            _ => g.push((bits, vec![r.doc_id])),
                        }
                    }
                    for (_, ids) in g.iter_mut() {
                        ids.sort_unstable();
                    }
                    g
                };
                let (g1, g2) = (group(&r1), group(&r2));
                // the last tie group may be cut differently by the k limit
                let n = g1.len().min(g2.len()).saturating_sub(1);
                if g1[..n] != g2[..n] {
                    nondet = Some(format!("query {}: documents differ between two identical searches outside exact ties", qi));
                }
            }
        }
        d.clear();
    }
    Ok(Measured { recall: total / queries.len() as f64, nondeterministic: nondet })
}

impl Prop for C16 {
    type Case = Case;
    fn part(&self) -> &'static str {
        "recall"
    }
    fn shape(&self, _tier: Tier) -> RawShape {
        RawShape { head_len: 12, chunk_len: 1, min_chunks: 0, max_chunks: 0 }
    }
    fn max_shrink_iters(&self) -> u32 {
        8
    }
    fn rule(&self) -> String {
        "seeded dataset (family x metric x dim x size) x 4 build routes x 200 held-out queries; every case is non-trivial (each (dataset, route) is measured over 200 queries); distinct = hash of decoded case".into()
    }
    fn decode(&self, raw: &Raw, tier: Tier) -> Case {
        let mut t = Tape::new(&raw.head);
        let family = t.pick(&[Family::Sphere, Family::Clusters, Family::Manifold]);
        let metric = Metric::pick(&mut t);
        let dim = t.pick(&[8usize, 16, 32, 64]);
        let n = match tier {
            // one case in eight crosses the batch builder's internal block sizes (> 2048, not a
            // multiple of it); the thorough tier spans the whole 500-5,000 range
            Tier::Quick => t.pick(&[500usize, 800, 1200, 500, 800, 1200, 1000, 2600]),
            Tier::Thorough => t.pick(&[500usize, 1000, 2000, 5000, 2600, 3100, 4097, 700]),
        };
        Case { family, metric, dim, n, seed: t.u32() as u64 }
    }
    fn run(&self, case: &Case, env: &CaseEnv) -> Result<CaseReport, Failure> {
        let data = gen_points(case, case.n, 1);
        let extra = gen_points(case, 2 * case.n, 2);
        let queries = gen_points(case, QUERIES, 3);
        let metric = case.metric.to_engine();
        let none = || std::collections::HashMap::new();
        let cap = case.n + 16;
        let setup = |e: anyhow::Error| Failure::new("setup_failed", format!("{:#}", e));
        let mut rep = CaseReport::default();
        let mut results: Vec<(&'static str, f64)> = vec![];

        // route 1: online inserts
        let online = HnswBackend::new(case.dim, metric, vec![], vec![], cap).map_err(setup)?;
        for (i, v) in data.iter().enumerate() {
            online.insert(i as u64, v.clone(), none()).map_err(setup)?;
        }
        // the reference uses what the engine stored (normalised under Cosine / InnerProduct)
        let stored: Vec<Vec<f32>> = (0..case.n).map(|i| online.fetch_document(i as u64).unwrap()).collect();
        let m = measure(&online, case, &stored, &queries)?;
        if let Some(nd) = &m.nondeterministic {
            return Err(Failure::new("nondeterministic_search", format!("route online: {}", nd)).with_sig(json!({"kind": "nondeterministic_search", "route": "online"})));
        }
        results.push(("online", m.recall));
        drop(online);

        // route 2: bulk constructor
        let bulk = HnswBackend::new(case.dim, metric, data.clone(), vec![none(); case.n], cap).map_err(setup)?;
        let m = measure(&bulk, case, &stored, &queries)?;
        if let Some(nd) = &m.nondeterministic {
            return Err(Failure::new("nondeterministic_search", format!("route bulk: {}", nd)).with_sig(json!({"kind": "nondeterministic_search", "route": "bulk"})));
        }
        results.push(("bulk", m.recall));
        drop(bulk);

        // route 3: insert 3x, delete two thirds, force tombstone compaction (index exactly full)
        let churn = HnswBackend::new(case.dim, metric, vec![], vec![], 3 * case.n).map_err(setup)?;
        for (i, v) in data.iter().enumerate() {
            churn.insert(i as u64, v.clone(), none()).map_err(setup)?;
            churn.insert((case.n + 2 * i) as u64, extra[2 * i].clone(), none()).map_err(setup)?;
            churn.insert((case.n + 2 * i + 1) as u64, extra[2 * i + 1].clone(), none()).map_err(setup)?;
        }
        let victims: Vec<u64> = (case.n as u64..3 * case.n as u64).collect();
        churn.batch_delete(&victims).map_err(setup)?;
        // the index is full of tombstones: this overwrite (same vector) triggers the compaction
        churn.insert(0, data[0].clone(), none()).map_err(setup)?;
        if churn.len() != case.n {
            return Err(Failure::new("setup_failed", format!("churn route holds {} documents, expected {}", churn.len(), case.n)));
        }
        let m = measure(&churn, case, &stored, &queries)?;
        if let Some(nd) = &m.nondeterministic {
            return Err(Failure::new("nondeterministic_search", format!("route churn: {}", nd)).with_sig(json!({"kind": "nondeterministic_search", "route": "churn"})));
        }
        results.push(("churn_compaction", m.recall));
        drop(churn);

        // route 4: recovery rebuild
        let dir = env.dir("data");
        let cfg = BackendCfg { metric: case.metric, dim: case.dim, snapshot_interval: case.n / 2, rotate_bytes: 1 << 30, capacity: cap, fsync: Fsync::Never };
        {
            let p = cfg.create(&dir).map_err(setup)?;
            for (i, v) in data.iter().enumerate() {
                p.insert(i as u64, v.clone(), none()).map_err(setup)?;
            }
        }
        let rec = cfg.recover(&dir).map_err(setup)?;
        let m = measure(&rec, case, &stored, &queries)?;
        if let Some(nd) = &m.nondeterministic {
            return Err(Failure::new("nondeterministic_search", format!("route recovery: {}", nd)).with_sig(json!({"kind": "nondeterministic_search", "route": "recovery"})));
        }
        results.push(("recovery", m.recall));
        drop(rec);

        let base = results[0].1;
        for (route, r) in &results {
            rep.count("evaluations_judged", 1);
            if *r < 0.80 {
                return Err(Failure::new("recall_below_floor", format!("{:?}: mean recall@10 of route {} is {:.3} < 0.80 (all routes: {:?})", case, route, r, results))
                    .with_sig(json!({"kind": "recall_below_floor", "route": route})));
            }
            if (r - base).abs() > 0.10 {
                return Err(Failure::new("recall_route_delta", format!("{:?}: recall of route {} is {:.3}, online is {:.3} (delta > 0.10)", case, route, r, base))
                    .with_sig(json!({"kind": "recall_route_delta", "route": route})));
            }
        }
        let minr = results.iter().map(|x| x.1).fold(1.0, f64::min);
        rep.label(if minr >= 0.99 { "min_recall>=0.99" } else if minr >= 0.95 { "min_recall>=0.95" } else if minr >= 0.90 { "min_recall>=0.90" } else { "min_recall<0.90" });
        rep.label(&format!("{:?}/{:?}", case.family, case.metric));
        rep.nontrivial = true;
        Ok(rep)
    }
}

pub fn main(ctx: &Ctx) {
    ctx.assume("recall is measured ann-benchmarks style: a returned document counts if its f64 reference distance is within the true 10th distance (ties count)");
    ctx.assume("default M / ef_construction and adaptive ef_search; the engine dependency is built with optimisation and debug assertions");
    run_committed_replays(ctx, &C16);
    run_pbt(ctx, &C16, ctx.tier.pick(64, 800));
}

pub fn replay(ctx: &Ctx, v: &serde_json::Value) -> Option<i32> {
    replay_file(ctx, &C16, v)
}
