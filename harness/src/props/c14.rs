//! C14 — tenant vector quotas are exact (real server binary).
//!
//! Part `sequence`: one tenant with limit L in 3..6; generated write RPCs hovering at the limit
//! (Insert new/existing, BulkInsert / BulkLoadHnsw with duplicates, existing and new ids mixed
//! and invalid items, Delete of absent ids, BatchDelete by ids with duplicates and foreign ids,
//! BatchDelete by filter, FlushHotTier, SIGTERM / SIGKILL restarts).  Oracle: admission at the
//! boundary per the model's live count, census by BulkQuery, /usage vector_count, and a final
//! probe (fill to the limit, one more must be RESOURCE_EXHAUSTED) that exposes a drifted counter
//! through admission behaviour alone.
//! Part `race`: two real clients race insert || delete (and overwrite || batch delete) on the
//! same id, then the same final probe.  A clean pass of the race part is weak evidence (the OS
//! owns the schedule) and is labelled so; a failure is a real counter drift.

use crate::common::runner::*;
use crate::common::srv::{key_for, with_key, Server, SrvCfg};
use crate::common::tape::Tape;
use kyrodb_engine::proto as pb;
use serde::{Deserialize, Serialize};
use serde_json::{json, Value};
use std::collections::BTreeSet;

const DIM: usize = 4;
const WINDOW: u64 = 8;

#[derive(Clone, Copy, Debug, PartialEq, Eq, Serialize, Deserialize)]
pub enum Bad {
    No,
    IdZero,
    WrongDim,
    NaN,
}

#[derive(Clone, Debug, Serialize, Deserialize)]
pub enum QOp {
    Insert { id: u64, bad: Bad },
    BulkInsert { items: Vec<(u64, Bad)> },
    BulkLoad { items: Vec<(u64, Bad)> },
    Delete { id: u64 },
    BatchDeleteIds { ids: Vec<u64> },
    BatchDeleteFilter { tag: u8 },
    Flush,
    RestartTerm,
    RestartKill,
}

#[derive(Clone, Debug, Serialize, Deserialize)]
pub struct Case {
    pub limit: usize,
    pub ops: Vec<QOp>,
}

pub struct C14;

fn emb(id: u64, bad: Bad) -> Vec<f32> {
    let mut v = vec![1.0 + id as f32, 0.5, 0.25, 0.0];
    match bad {
        Bad::WrongDim => {
            v.pop();
        }
        Bad::NaN => v[1] = f32::NAN,
        _ => {}
    }
    v
}

fn req(id: u64, bad: Bad) -> pb::InsertRequest {
    let real_id = if bad == Bad::IdZero { 0 } else { id };
    let mut metadata = std::collections::HashMap::new();
    metadata.insert("tag".to_string(), (id % 3).to_string());
    pb::InsertRequest { doc_id: real_id, embedding: emb(id, bad), metadata, namespace: String::new() }
}

pub struct Session {
    pub srv: Server,
    pub key: String,
}

impl Session {
    pub fn start(limit: usize, root: &std::path::Path, shard: usize) -> Result<Session, Failure> {
        let mut cfg = SrvCfg::default_for(DIM, "euclidean", true, limit);
        cfg.snapshot_interval = 0;
        let mut srv = Server::new(cfg, root, shard);
        srv.start().map_err(|e| Failure::new("setup_failed", e))?;
        Ok(Session { srv, key: key_for("alpha", 0xa1) })
    }

    pub fn call<F, Fut, T>(&self, f: F) -> Result<T, Failure>
    where
        F: FnOnce(crate::common::srv::Client, String) -> Fut,
        Fut: std::future::Future<Output = T>,
    {
        let rt = tokio::runtime::Builder::new_current_thread().enable_all().build().map_err(|e| Failure::new("setup_failed", e.to_string()))?;
        let out = rt.block_on(async {
            let c = self.srv.client().await.map_err(|e| Failure::new("setup_failed", format!("connect: {}", e)))?;
            Ok::<T, Failure>(f(c, self.key.clone()).await)
        });
        drop(rt);
        out
    }

    /// ids of the window that the server reports as found
    pub fn census(&self, ids: Vec<u64>) -> Result<BTreeSet<u64>, Failure> {
        let r = self.call(|mut c, k| async move { c.bulk_query(with_key(pb::BulkQueryRequest { doc_ids: ids, include_embeddings: false, namespace: String::new() }, Some(&k))).await })?;
        match r {
            Ok(resp) => Ok(resp.get_ref().results.iter().filter(|q| q.found).map(|q| q.doc_id).collect()),
            Err(s) => Err(Failure::new("census_failed", format!("BulkQuery census refused: {:?}", s.code()))),
        }
    }

    pub fn insert(&self, r: pb::InsertRequest) -> Result<Result<bool, tonic::Code>, Failure> {
        let out = self.call(|mut c, k| async move { c.insert(with_key(r, Some(&k))).await })?;
        Ok(out.map(|x| x.get_ref().success).map_err(|s| s.code()))
    }

    pub fn usage_vectors(&self) -> Result<Option<u64>, Failure> {
        let (code, body) = self.srv.http_get("/usage", Some(&self.key)).map_err(|e| Failure::new("setup_failed", e))?;
        if code != 200 {
            return Err(Failure::new("usage_unavailable", format!("/usage answered {}", code)));
        }
        let v: Value = serde_json::from_str(&body).unwrap_or(Value::Null);
        Ok(v["tenants"].as_array().and_then(|a| a.first()).and_then(|t| t["vector_count"].as_u64()).or(Some(0)))
    }

    /// Fill with fresh ids up to the limit (each must be admitted), then one more must be refused.
    pub fn final_probe(&self, live: usize, limit: usize, what: &str) -> Result<(), Failure> {
        let mut c = live;
        let mut next = 1000u64;
        while c < limit {
            match self.insert(req(next, Bad::No))? {
                Ok(true) => {}
                other => {
                    return Err(Failure::new(
                        "refused_below_limit",
                        format!("{}: the tenant holds {} live documents (limit {}) but a new insert was answered {:?}: the quota counter is too HIGH", what, c, limit, other),
                    )
                    .with_sig(json!({"kind": "quota_counter_drift", "direction": "too_high"})));
                }
            }
            c += 1;
            next += 1;
        }
        match self.insert(req(next, Bad::No))? {
            Err(tonic::Code::ResourceExhausted) => Ok(()),
            other => Err(Failure::new(
                "admitted_above_limit",
                format!("{}: the tenant already holds {} live documents (limit {}) but one more new insert was answered {:?}: the quota counter is too LOW", what, c, limit, other),
            )
            .with_sig(json!({"kind": "quota_counter_drift", "direction": "too_low"}))),
        }
    }
}

impl Prop for C14 {
    type Case = Case;
    fn part(&self) -> &'static str {
        "sequence"
    }
    fn shape(&self, tier: Tier) -> RawShape {
        RawShape { head_len: 2, chunk_len: 14, min_chunks: 10, max_chunks: tier.pick(40, 60) }
    }
    fn max_shrink_iters(&self) -> u32 {
        80
    }
    fn rule(&self) -> String {
        "generated write-RPC sequence for one tenant with limit 3..6 against the real server; non-trivial = the live count reached the limit at least once and later dropped below it, or an item was rejected at count == limit-1 .. limit, or a restart happened with documents present; distinct = hash of decoded case".into()
    }
    fn decode(&self, raw: &Raw, _tier: Tier) -> Case {
        let mut t = Tape::new(&raw.head);
        let limit = 3 + t.below(4);
        let ops = raw
            .chunks
            .iter()
            .map(|c| {
                let mut t = Tape::new(c);
                let id = |t: &mut Tape| 1 + t.below(WINDOW as usize) as u64;
                let bad = |t: &mut Tape| match t.weighted(&[12, 1, 1, 1]) {
                    0 => Bad::No,
                    1 => Bad::IdZero,
                    2 => Bad::WrongDim,
                    _ => Bad::NaN,
                };
                match t.weighted(&[16, 4, 3, 6, 3, 2, 1, 1, 1]) {
                    0 => QOp::Insert { id: id(&mut t), bad: bad(&mut t) },
                    1 => QOp::BulkInsert { items: (0..1 + t.below(5)).map(|_| (id(&mut t), bad(&mut t))).collect() },
                    2 => QOp::BulkLoad { items: (0..1 + t.below(5)).map(|_| (id(&mut t), bad(&mut t))).collect() },
                    3 => QOp::Delete { id: id(&mut t) },
                    4 => {
                        let mut ids: Vec<u64> = (0..1 + t.below(4)).map(|_| id(&mut t)).collect();
                        if t.chance(128) {
                            ids.push(ids[0]);
                        }
                        if t.chance(64) {
                            ids.push(4000); // an id the tenant never wrote
                        }
                        QOp::BatchDeleteIds { ids }
                    }
                    5 => QOp::BatchDeleteFilter { tag: t.below(3) as u8 },
                    6 => QOp::Flush,
                    7 => QOp::RestartTerm,
                    _ => QOp::RestartKill,
                }
            })
            .collect();
        Case { limit, ops }
    }

    fn run(&self, case: &Case, env: &CaseEnv) -> Result<CaseReport, Failure> {
        let shard = super::c10::SHARD.with(|s| *s);
        let mut s = Session::start(case.limit, &env.dir("srv"), shard)?;
        let l = case.limit;
        let mut live: BTreeSet<u64> = BTreeSet::new();
        let mut rep = CaseReport::default();
        let mut reached = false;
        let mut usage_trusted = true;
        let window: Vec<u64> = (1..=WINDOW).collect();
        for (i, op) in case.ops.iter().enumerate() {
            let what = format!("op {} {:?} (limit {}, live {:?})", i, op, l, live);
            match op {
                QOp::Insert { id, bad } => {
                    let r = s.insert(req(*id, *bad))?;
                    let new = !live.contains(id);
                    match bad {
                        Bad::IdZero | Bad::NaN => {
                            if r != Err(tonic::Code::InvalidArgument) {
                                return Err(Failure::new("invalid_item_not_refused", format!("{}: answered {:?}", what, r)));
                            }
                        }
                        Bad::WrongDim => {
                            if r.is_ok() {
                                return Err(Failure::new("invalid_item_not_refused", format!("{}: wrong dimension accepted", what)));
                            }
                        }
                        Bad::No => {
                            if new && live.len() >= l {
                                if r != Err(tonic::Code::ResourceExhausted) {
                                    return Err(Failure::new("admitted_above_limit", format!("{}: new id at the limit answered {:?}", what, r)).with_sig(json!({"kind": "quota_counter_drift", "direction": "too_low"})));
                                }
                                rep.nontrivial = true;
                            } else {
                                if r != Ok(true) {
                                    return Err(Failure::new("refused_below_limit", format!("{}: answered {:?} although {}", what, r, if new { "the tenant is below its limit" } else { "this is an overwrite" }))
                                        .with_sig(json!({"kind": "quota_counter_drift", "direction": "too_high"})));
                                }
                                live.insert(*id);
                            }
                        }
                    }
                }
                QOp::BulkInsert { items } => {
                    let reqs: Vec<pb::InsertRequest> = items.iter().map(|(id, b)| req(*id, *b)).collect();
                    let r = s.call(|mut c, k| async move { c.bulk_insert(with_key(tokio_stream::iter(reqs), Some(&k))).await })?;
                    let (mut ins, mut fail) = (0u64, 0u64);
                    let mut m = live.clone();
                    for (id, b) in items {
                        if *b != Bad::No {
                            fail += 1;
                        } else if m.contains(id) || m.len() < l {
                            m.insert(*id);
                            ins += 1;
                        } else {
                            fail += 1;
                            rep.nontrivial = true;
                        }
                    }
                    match r {
                        Ok(resp) => {
                            let x = resp.get_ref();
                            if x.total_inserted != ins || x.total_failed != fail {
                                return Err(Failure::new("bulk_quota_accounting", format!("{}: expected inserted={} failed={} (per-item admission), server says inserted={} failed={}", what, ins, fail, x.total_inserted, x.total_failed))
                                    .with_sig(json!({"kind": "quota_counter_drift", "path": "BulkInsert"})));
                            }
                            live = m;
                        }
                        Err(st) => return Err(Failure::new("bulk_refused", format!("{}: stream refused: {:?}", what, st.code()))),
                    }
                }
                QOp::BulkLoad { items } => {
                    let reqs: Vec<pb::InsertRequest> = items.iter().map(|(id, b)| req(*id, *b)).collect();
                    let r = s.call(|mut c, k| async move { c.bulk_load_hnsw(with_key(tokio_stream::iter(reqs), Some(&k))).await })?;
                    // ids the server reserves for: everything that passes request validation
                    let reserved: BTreeSet<u64> = items.iter().filter(|(_, b)| *b != Bad::IdZero).map(|(id, _)| *id).filter(|id| !live.contains(id)).collect();
                    let valid_new: BTreeSet<u64> = items.iter().filter(|(_, b)| *b == Bad::No).map(|(id, _)| *id).filter(|id| !live.contains(id)).collect();
                    let valid_all: BTreeSet<u64> = items.iter().filter(|(_, b)| *b == Bad::No).map(|(id, _)| *id).collect();
                    match r {
                        Ok(resp) => {
                            if live.len() + valid_new.len() > l {
                                return Err(Failure::new("admitted_above_limit", format!("{}: bulk load accepted although {} + {} new ids exceed the limit: {:?}", what, live.len(), valid_new.len(), resp.get_ref().total_loaded))
                                    .with_sig(json!({"kind": "quota_counter_drift", "direction": "too_low", "path": "BulkLoadHnsw"})));
                            }
                            // an invalid item that shares its id with a later valid item: last valid write wins; census decides
                            for id in valid_all {
                                live.insert(id);
                            }
                        }
                        Err(st) => {
                            if st.code() != tonic::Code::ResourceExhausted {
                                return Err(Failure::new("bulk_refused", format!("{}: answered {:?}", what, st.code())));
                            }
                            if live.len() + reserved.len() <= l {
                                return Err(Failure::new("refused_below_limit", format!("{}: RESOURCE_EXHAUSTED although {} live + {} new ids fit the limit", what, live.len(), reserved.len()))
                                    .with_sig(json!({"kind": "quota_counter_drift", "direction": "too_high", "path": "BulkLoadHnsw"})));
                            }
                            if live.len() + valid_new.len() <= l {
                                // refused only because invalid items were counted in the reservation: not judged
                                rep.excluded.push("bulk_load_refused_counting_invalid_items".into());
                            }
                            rep.nontrivial = true;
                        }
                    }
                }
                QOp::Delete { id } => {
                    let idc = *id;
                    let r = s.call(|mut c, k| async move { c.delete(with_key(pb::DeleteRequest { doc_id: idc, namespace: String::new() }, Some(&k))).await })?;
                    match r {
                        Ok(resp) => {
                            if resp.get_ref().existed != live.contains(id) {
                                return Err(Failure::new("delete_existed_flag", format!("{}: existed={}", what, resp.get_ref().existed)));
                            }
                            live.remove(id);
                        }
                        Err(st) => return Err(Failure::new("delete_refused", format!("{}: {:?}", what, st.code()))),
                    }
                }
                QOp::BatchDeleteIds { ids } => {
                    let idsc = ids.clone();
                    let r = s.call(|mut c, k| async move {
                        c.batch_delete(with_key(pb::BatchDeleteRequest { delete_criteria: Some(pb::batch_delete_request::DeleteCriteria::Ids(pb::IdList { doc_ids: idsc })), namespace: String::new() }, Some(&k))).await
                    })?;
                    let victims: BTreeSet<u64> = ids.iter().filter(|i| live.contains(i)).copied().collect();
                    match r {
                        Ok(resp) => {
                            if resp.get_ref().deleted_count != victims.len() as u64 {
                                return Err(Failure::new("batch_delete_count", format!("{}: deleted_count={} expected {}", what, resp.get_ref().deleted_count, victims.len())));
                            }
                            for v in victims {
                                live.remove(&v);
                            }
                        }
                        Err(st) => return Err(Failure::new("delete_refused", format!("{}: {:?}", what, st.code()))),
                    }
                }
                QOp::BatchDeleteFilter { tag } => {
                    let f = pb::MetadataFilter { filter_type: Some(pb::metadata_filter::FilterType::Exact(pb::ExactMatch { key: "tag".into(), value: tag.to_string() })) };
                    let r = s.call(|mut c, k| async move { c.batch_delete(with_key(pb::BatchDeleteRequest { delete_criteria: Some(pb::batch_delete_request::DeleteCriteria::Filter(f)), namespace: String::new() }, Some(&k))).await })?;
                    let victims: BTreeSet<u64> = live.iter().filter(|i| (**i % 3) as u8 == *tag).copied().collect();
                    match r {
                        Ok(resp) => {
                            if resp.get_ref().deleted_count != victims.len() as u64 {
                                return Err(Failure::new("batch_delete_count", format!("{}: deleted_count={} expected {}", what, resp.get_ref().deleted_count, victims.len())));
                            }
                            for v in victims {
                                live.remove(&v);
                            }
                        }
                        Err(st) => return Err(Failure::new("delete_refused", format!("{}: {:?}", what, st.code()))),
                    }
                }
                QOp::Flush => {
                    let _ = s.call(|mut c, k| async move { c.flush_hot_tier(with_key(pb::FlushRequest { force: true }, Some(&k))).await })?;
                }
                QOp::RestartTerm | QOp::RestartKill => {
                    if matches!(op, QOp::RestartTerm) {
                        s.srv.stop_term();
                    } else {
                        s.srv.stop_kill();
                        usage_trusted = false; // the usage report is persisted only periodically
                    }
                    s.srv.start().map_err(|e| crate::common::srv::start_failure("restart_failed", format!("{}: server does not come back: {}", what, e), &e))?;
                    if !live.is_empty() {
                        rep.nontrivial = true;
                    }
                    rep.label("restart");
                }
            }
            if live.len() >= l {
                reached = true;
            } else if reached {
                rep.nontrivial = true;
            }
            // census and usage after every operation
            let got = s.census(window.clone())?;
            if got != live {
                return Err(Failure::new("census_differs", format!("{}: BulkQuery census {:?} differs from the model {:?}", what, got, live)));
            }
            if live.len() > l {
                return Err(Failure::new("admitted_above_limit", format!("{}: tenant holds {} > limit {}", what, live.len(), l)).with_sig(json!({"kind": "quota_counter_drift", "direction": "too_low"})));
            }
            if usage_trusted {
                let u = s.usage_vectors()?;
                if u != Some(live.len() as u64) {
                    return Err(Failure::new("usage_vector_count", format!("{}: /usage vector_count {:?} but the tenant has {} live documents", what, u, live.len())).with_sig(json!({"kind": "usage_vector_count_drift"})));
                }
            }
            rep.count("evaluations_judged", 1);
        }
        s.final_probe(live.len(), l, "after the sequence")?;
        Ok(rep)
    }
}

// --------------------------------------------------------------------------------------------
// race part
// --------------------------------------------------------------------------------------------

#[derive(Clone, Debug, Serialize, Deserialize)]
pub struct RaceCase {
    pub limit: usize,
    /// 0: insert || delete, 1: overwrite || batch delete (ids), 2: bulk insert || delete,
    /// 3: overwrite || batch delete by filter
    pub flavour: u8,
    pub rounds: u32,
}

pub struct Race;

impl Prop for Race {
    type Case = RaceCase;
    fn part(&self) -> &'static str {
        "race"
    }
    fn shape(&self, _tier: Tier) -> RawShape {
        RawShape { head_len: 3, chunk_len: 1, min_chunks: 0, max_chunks: 0 }
    }
    fn max_shrink_iters(&self) -> u32 {
        0
    }
    fn rule(&self) -> String {
        "two (flavour 3: four) real clients race write || delete on the same id for N rounds (OS schedule), then census + final admission probe; every case is non-trivial; distinct = (limit, flavour, rounds); a clean pass is weak evidence".into()
    }
    fn decode(&self, raw: &Raw, tier: Tier) -> RaceCase {
        let mut t = Tape::new(&raw.head);
        RaceCase { limit: 3 + t.below(3), flavour: t.pick(&[0u8, 1, 2, 3, 3]), rounds: tier.pick(150, 600) + t.below(50) as u32 }
    }
    fn run(&self, case: &RaceCase, env: &CaseEnv) -> Result<CaseReport, Failure> {
        let shard = super::c10::SHARD.with(|s| *s);
        let s = Session::start(case.limit, &env.dir("srv"), shard)?;
        let port = s.srv.port;
        let key = s.key.clone();
        let rounds = case.rounds;
        let flavour = case.flavour;
        let worker = |writer: bool| {
            let key = key.clone();
            std::thread::spawn(move || {
                let rt = tokio::runtime::Builder::new_current_thread().enable_all().build().unwrap();
                rt.block_on(async move {
                    let ep = tonic::transport::Endpoint::from_shared(format!("http://127.0.0.1:{}", port)).unwrap();
                    let Ok(ch) = ep.connect().await else { return };
                    let mut c = kyrodb_engine::proto::kyro_db_service_client::KyroDbServiceClient::new(ch);
                    for _ in 0..rounds {
                        if writer {
                            if flavour == 2 {
                                let _ = c.bulk_insert(with_key(tokio_stream::iter(vec![req(1, Bad::No), req(2, Bad::No)]), Some(&key))).await;
                            } else {
                                let _ = c.insert(with_key(req(1, Bad::No), Some(&key))).await;
                            }
                        } else if flavour == 3 {
                            // req(1, ..) carries metadata tag = "1"
                            let f = pb::MetadataFilter { filter_type: Some(pb::metadata_filter::FilterType::Exact(pb::ExactMatch { key: "tag".into(), value: "1".into() })) };
                            let _ = c.batch_delete(with_key(pb::BatchDeleteRequest { delete_criteria: Some(pb::batch_delete_request::DeleteCriteria::Filter(f)), namespace: String::new() }, Some(&key))).await;
                        } else if flavour == 1 {
                            let _ = c.batch_delete(with_key(pb::BatchDeleteRequest { delete_criteria: Some(pb::batch_delete_request::DeleteCriteria::Ids(pb::IdList { doc_ids: vec![1, 2] })), namespace: String::new() }, Some(&key))).await;
                        } else {
                            let _ = c.delete(with_key(pb::DeleteRequest { doc_id: 1, namespace: String::new() }, Some(&key))).await;
                        }
                    }
                });
            })
        };
        // flavour 3 (overwrite || filter delete) runs two clients of each kind: its window is the
        // narrowest and one pair of clients overlapped too rarely on a loaded machine
        let mut workers = vec![worker(true), worker(false)];
        if flavour == 3 {
            workers.push(worker(true));
            workers.push(worker(false));
        }
        for w in workers {
            let _ = w.join();
        }
        let live = s.census(vec![1, 2])?;
        s.final_probe(live.len(), case.limit, &format!("after {} rounds of racing write || delete (flavour {})", rounds, flavour)).map_err(|mut f| {
            if let Some(o) = f.sig.as_object_mut() {
                o.insert("race".into(), json!(true));
            }
            f
        })?;
        let mut rep = CaseReport::default();
        rep.nontrivial = true;
        rep.label("race_pass_is_weak_evidence");
        Ok(rep)
    }
}

pub fn main(ctx: &Ctx) {
    ctx.assume("after SIGKILL only admission and census are judged (the usage report is persisted periodically); after SIGTERM /usage must still equal the live count");
    ctx.assume("a BulkLoadHnsw refused with RESOURCE_EXHAUSTED only because invalid items were counted in the reservation is excluded, not judged");
    ctx.assume("race part: the OS owns the schedule; passing it is weak evidence");
    run_committed_replays(ctx, &C14);
    run_committed_replays(ctx, &Race);
    run_pbt(ctx, &C14, ctx.tier.pick(640, 6_000));
    run_pbt(ctx, &Race, ctx.tier.pick(96, 600));
}

pub fn replay(ctx: &Ctx, v: &serde_json::Value) -> Option<i32> {
    replay_file(ctx, &C14, v).or_else(|| replay_file(ctx, &Race, v))
}
