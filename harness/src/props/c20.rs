//! C20 — caches and the recent-write tier stay within their configured bounds; evicted and
//! drained content stays readable.  History part shares `tiered_hist.rs` (bounds checked after
//! every operation, hard limit after every insert, read sweeps against the model); the
//! `direct` part drives VectorCache / QueryHashCache / SemanticAdapter on their own.

use super::tiered_hist::*;
use crate::common::runner::*;
use crate::common::tape::Tape;
use kyrodb_engine::semantic_adapter::{SemanticAdapter, SemanticConfig};
use kyrodb_engine::{CachedVector, QueryHashCache, SearchResult, VectorCache, VectorCoherenceToken};
use serde::{Deserialize, Serialize};
use serde_json::json;

pub struct C20;

impl Prop for C20 {
    type Case = TCase;
    fn part(&self) -> &'static str {
        "history"
    }
    fn shape(&self, tier: Tier) -> RawShape {
        RawShape { head_len: 16, chunk_len: 36, min_chunks: 4, max_chunks: tier.pick(60, 120) }
    }
    fn rule(&self) -> String {
        "tiered history with capacities {1,2,5}, hard limits {1,2,4}, every strategy; sizes checked after every operation and sweep; non-trivial = a cache was at capacity at some point or an emergency drain happened; distinct = hash of decoded case".into()
    }
    fn decode(&self, raw: &Raw, _tier: Tier) -> TCase {
        decode_case(raw, Mode::C20)
    }
    fn run(&self, case: &TCase, env: &CaseEnv) -> Result<CaseReport, Failure> {
        run_case(case, Mode::C20, env)
    }
}

#[derive(Clone, Debug, Serialize, Deserialize)]
pub enum DOp {
    VInsert(u64),
    VGet(u64),
    VPeek(u64),
    VRemove(u64),
    VClear,
    QInsert { q: u8, scope: u64, k: usize, docs: Vec<u64> },
    QGet { q: u8, scope: u64, k: usize },
    QInvalidateDoc(u64),
    QInvalidateInsert(u8),
    QClear,
    SCache(u64),
    SClear,
}

#[derive(Clone, Debug, Serialize, Deserialize)]
pub struct DCase {
    pub vcap: usize,
    pub qcap: usize,
    pub scap: usize,
    pub ops: Vec<DOp>,
}

pub struct Direct;

fn qvec(q: u8) -> Vec<f32> {
    let a = (q as f32) * 0.37 + 0.1;
    vec![a.cos(), a.sin(), 0.0, 0.0]
}

impl Prop for Direct {
    type Case = DCase;
    fn part(&self) -> &'static str {
        "direct"
    }
    fn shape(&self, tier: Tier) -> RawShape {
        RawShape { head_len: 4, chunk_len: 10, min_chunks: 5, max_chunks: tier.pick(80, 200) }
    }
    fn rule(&self) -> String {
        "operation sequences directly on VectorCache / QueryHashCache / SemanticAdapter with capacities 1..4; non-trivial = an insert or in-place update happened while the structure was at capacity; distinct = hash of decoded case".into()
    }
    fn decode(&self, raw: &Raw, _tier: Tier) -> DCase {
        let mut t = Tape::new(&raw.head);
        let vcap = 1 + t.below(4);
        let qcap = 1 + t.below(4);
        let scap = 1 + t.below(4);
        let ops = raw
            .chunks
            .iter()
            .map(|c| {
                let mut t = Tape::new(c);
                match t.weighted(&[8, 4, 2, 2, 1, 8, 4, 2, 2, 1, 6, 1]) {
                    0 => DOp::VInsert(t.below(8) as u64),
                    1 => DOp::VGet(t.below(8) as u64),
                    2 => DOp::VPeek(t.below(8) as u64),
                    3 => DOp::VRemove(t.below(8) as u64),
                    4 => DOp::VClear,
                    5 => {
                        let n = 1 + t.below(3);
                        DOp::QInsert { q: t.below(10) as u8, scope: t.below(2) as u64, k: 1 + t.below(4), docs: (0..n).map(|_| t.below(6) as u64).collect() }
                    }
                    6 => DOp::QGet { q: t.below(10) as u8, scope: t.below(2) as u64, k: 1 + t.below(4) },
                    7 => DOp::QInvalidateDoc(t.below(6) as u64),
                    8 => DOp::QInvalidateInsert(t.below(10) as u8),
                    9 => DOp::QClear,
                    10 => DOp::SCache(t.below(12) as u64),
                    _ => DOp::SClear,
                }
            })
            .collect();
        DCase { vcap, qcap, scap, ops }
    }
    fn run(&self, case: &DCase, _env: &CaseEnv) -> Result<CaseReport, Failure> {
        let vc = VectorCache::new(case.vcap);
        let qc = QueryHashCache::new(case.qcap, 1.0);
        let sa = SemanticAdapter::with_config(SemanticConfig { max_cached_embeddings: case.scap, ..SemanticConfig::default() });
        let mut rep = CaseReport::default();
        for (i, op) in case.ops.iter().enumerate() {
            match op {
                DOp::VInsert(id) => {
                    if vc.len() == case.vcap {
                        rep.nontrivial = true;
                    }
                    let v = vec![*id as f32 + 1.0, 0.0];
                    vc.insert(CachedVector { doc_id: *id, coherence: VectorCoherenceToken::for_embedding(1, &v), embedding: v, distance: 0.0, cached_at: std::time::Instant::now() });
                    if vc.peek(*id).is_none() {
                        return Err(Failure::new("inserted_entry_missing", format!("op {}: VectorCache lost the entry it just inserted ({})", i, id)));
                    }
                }
                DOp::VGet(id) => {
                    if let Some(c) = vc.get(*id) {
                        if c.doc_id != *id || c.embedding[0] != *id as f32 + 1.0 {
                            return Err(Failure::new("cache_returned_foreign_entry", format!("op {}: VectorCache.get({}) returned entry of {}", i, id, c.doc_id)));
                        }
                    }
                }
                DOp::VPeek(id) => {
                    let _ = vc.peek(*id);
                }
                DOp::VRemove(id) => {
                    vc.remove(*id);
                }
                DOp::VClear => vc.clear(),
                DOp::QInsert { q, scope, k, docs } => {
                    if qc.len() == case.qcap {
                        rep.nontrivial = true;
                    }
                    let res: Vec<SearchResult> = docs.iter().enumerate().map(|(j, d)| SearchResult { doc_id: *d, distance: j as f32 * 0.1 }).collect();
                    qc.insert_with_k_scoped(*scope, qvec(*q), res, *k);
                }
                DOp::QGet { q, scope, k } => {
                    let _ = qc.get_scoped(*scope, &qvec(*q), *k);
                }
                DOp::QInvalidateDoc(d) => {
                    qc.invalidate_doc(*d);
                }
                DOp::QInvalidateInsert(q) => {
                    qc.invalidate_for_insert(&qvec(*q), kyrodb_engine::DistanceMetric::Cosine);
                }
                DOp::QClear => qc.clear(),
                DOp::SCache(id) => {
                    if sa.cache_size() == case.scap {
                        rep.nontrivial = true;
                    }
                    let a = *id as f32 * 0.5;
                    let _ = sa.cache_embedding(*id, vec![a.cos(), a.sin()]);
                }
                DOp::SClear => sa.clear_cache(),
            }
            if vc.len() > case.vcap {
                return Err(Failure::new("l1a_over_capacity", format!("op {} {:?}: VectorCache holds {} > capacity {}", i, op, vc.len(), case.vcap)).with_sig(json!({"kind":"l1a_over_capacity","direct":true})));
            }
            if qc.len() > case.qcap {
                return Err(Failure::new("qcache_over_capacity", format!("op {} {:?}: QueryHashCache holds {} > capacity {}", i, op, qc.len(), case.qcap)).with_sig(json!({"kind":"qcache_over_capacity","direct":true})));
            }
            if sa.cache_size() > case.scap {
                return Err(Failure::new("semantic_over_capacity", format!("op {} {:?}: SemanticAdapter holds {} > max {}", i, op, sa.cache_size(), case.scap)).with_sig(json!({"kind":"semantic_over_capacity","direct":true})));
            }
        }
        Ok(rep)
    }
}

pub fn main(ctx: &Ctx) {
    ctx.assume("AbTestSplitter owns two caches of the configured capacity each, so its size bound is 2 x capacity");
    run_committed_replays(ctx, &C20);
    run_committed_replays(ctx, &Direct);
    run_pbt(ctx, &C20, ctx.tier.pick(100_000, 2_000_000));
    run_pbt(ctx, &Direct, ctx.tier.pick(150_000, 3_000_000));
}

pub fn replay(ctx: &Ctx, v: &serde_json::Value) -> Option<i32> {
    replay_file(ctx, &C20, v).or_else(|| replay_file(ctx, &Direct, v))
}
