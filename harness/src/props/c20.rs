//! C20 — caches and the recent-write tier stay within their configured bounds; evicted and
//! drained content stays readable.  History part shares `tiered_hist.rs` (bounds checked after
//! every operation, hard limit after every insert, read sweeps against the model); the
//! `direct` part drives VectorCache / QueryHashCache / SemanticAdapter on their own.

use super::tiered_hist::*;
use crate::common::runner::*;
use crate::common::tape::Tape;
use kyrodb_engine::semantic_adapter::{SemanticAdapter, SemanticConfig};
use kyrodb_engine::{CachedVector, QueryHashCache, SearchResult, VectorCache, VectorCoherenceToken};
use serde::{Deserialize, Serialize};
use serde_json::json;

pub struct C20;

impl Prop for C20 {
    type Case = TCase;
    fn part(&self) -> &'static str {
        "history"
    }
    fn shape(&self, tier: Tier) -> RawShape {
        RawShape { head_len: 16, chunk_len: 36, min_chunks: 4, max_chunks: tier.pick(60, 120) }
    }
    fn rule(&self) -> String {
        "tiered history with capacities {1,2,5}, hard limits {1,2,4}, every strategy; sizes checked after every operation and sweep; non-trivial = a cache was at capacity at some point or an emergency drain happened; distinct = hash of decoded case".into()
    }
    fn decode(&self, raw: &Raw, _tier: Tier) -> TCase {
        decode_case(raw, Mode::C20)
    }
    fn run(&self, case: &TCase, env: &CaseEnv) -> Result<CaseReport, Failure> {
        run_case(case, Mode::C20, env)
    }
}

#[derive(Clone, Debug, Serialize, Deserialize)]
pub enum DOp {
    VInsert(u64),
    VGet(u64),
    VPeek(u64),
    VRemove(u64),
    VClear,
    QInsert { q: u8, scope: u64, k: usize, docs: Vec<u64> },
    QGet { q: u8, scope: u64, k: usize },
    QInvalidateDoc(u64),
    QInvalidateInsert(u8),
    QClear,
    SCache(u64),
    SClear,
}

#[derive(Clone, Debug, Serialize, Deserialize)]
pub struct DCase {
    pub vcap: usize,
    pub qcap: usize,
    pub scap: usize,
    pub ops: Vec<DOp>,
}

pub struct Direct;

fn qvec(q: u8) -> Vec<f32> {
    let a = (q as f32) * 0.37 + 0.1;
    vec![a.cos(), a.sin(), 0.0, 0.0]
}

impl Prop for Direct {
    type Case = DCase;
    fn part(&self) -> &'static str {
        "direct"
    }
    fn shape(&self, tier: Tier) -> RawShape {
        RawShape { head_len: 4, chunk_len: 10, min_chunks: 5, max_chunks: tier.pick(80, 200) }
    }
    fn rule(&self) -> String {
        "operation sequences directly on VectorCache / QueryHashCache / SemanticAdapter with capacities 1..4; non-trivial = an insert or in-place update happened while the structure was at capacity; distinct = hash of decoded case".into()
    }
    fn decode(&self, raw: &Raw, _tier: Tier) -> DCase {
        let mut t = Tape::new(&raw.head);
        let vcap = 1 + t.below(4);
        let qcap = 1 + t.below(4);
        let scap = 1 + t.below(4);
        let ops = raw
            .chunks
            .iter()
            .map(|c| {
                let mut t = Tape::new(c);
                match t.weighted(&[8, 4, 2, 2, 1, 8, 4, 2, 2, 1, 6, 1]) {
                    0 => DOp::VInsert(t.below(8) as u64),
                    1 => DOp::VGet(t.below(8) as u64),
                    2 => DOp::VPeek(t.below(8) as u64),
                    3 => DOp::VRemove(t.below(8) as u64),
                    4 => DOp::VClear,
                    5 => {
                        let n = 1 + t.below(3);
                        DOp::QInsert { q: t.below(10) as u8, scope: t.below(2) as u64, k: 1 + t.below(4), docs: (0..n).map(|_| t.below(6) as u64).collect() }
                    }
                    6 => DOp::QGet { q: t.below(10) as u8, scope: t.below(2) as u64, k: 1 + t.below(4) },
                    7 => DOp::QInvalidateDoc(t.below(6) as u64),
                    8 => DOp::QInvalidateInsert(t.below(10) as u8),
                    9 => DOp::QClear,
                    10 => DOp::SCache(t.below(12) as u64),
                    _ => DOp::SClear,
                }
            })
            .collect();
        DCase { vcap, qcap, scap, ops }
    }
    fn run(&self, case: &DCase, _env: &CaseEnv) -> Result<CaseReport, Failure> {
        let vc = VectorCache::new(case.vcap);
        let qc = QueryHashCache::new(case.qcap, 1.0);
        let sa = SemanticAdapter::with_config(SemanticConfig { max_cached_embeddings: case.scap, ..SemanticConfig::default() });
        let mut rep = CaseReport::default();
        for (i, op) in case.ops.iter().enumerate() {
            match op {
                DOp::VInsert(id) => {
                    if vc.len() == case.vcap {
                        rep.nontrivial = true;
                    }
                    let v = vec![*id as f32 + 1.0, 0.0];
                    vc.insert(CachedVector { doc_id: *id, coherence: VectorCoherenceToken::for_embedding(1, &v), embedding: v, distance: 0.0, cached_at: std::time::Instant::now() });
                    if vc.peek(*id).is_none() {
                        return Err(Failure::new("inserted_entry_missing", format!("op {}: VectorCache lost the entry it just inserted ({})", i, id)));
                    }
                }
                DOp::VGet(id) => {
                    if let Some(c) = vc.get(*id) {
                        if c.doc_id != *id || c.embedding[0] != *id as f32 + 1.0 {
                            return Err(Failure::new("cache_returned_foreign_entry", format!("op {}: VectorCache.get({}) returned entry of {}", i, id, c.doc_id)));
                        }
                    }
                }
                DOp::VPeek(id) => {
                    let _ = vc.peek(*id);
                }
                DOp::VRemove(id) => {
                    vc.remove(*id);
                }
                DOp::VClear => vc.clear(),
                DOp::QInsert { q, scope, k, docs } => {
                    if qc.len() == case.qcap {
                        rep.nontrivial = true;
                    }
                    let res: Vec<SearchResult> = docs.iter().enumerate().map(|(j, d)| SearchResult { doc_id: *d, distance: j as f32 * 0.1 }).collect();
                    qc.insert_with_k_scoped(*scope, qvec(*q), res, *k);
                }
                DOp::QGet { q, scope, k } => {
                    let _ = qc.get_scoped(*scope, &qvec(*q), *k);
                }
                DOp::QInvalidateDoc(d) => {
                    qc.invalidate_doc(*d);
                }
                DOp::QInvalidateInsert(q) => {
                    qc.invalidate_for_insert(&qvec(*q), kyrodb_engine::DistanceMetric::Cosine);
                }
                DOp::QClear => qc.clear(),
                DOp::SCache(id) => {
                    if sa.cache_size() == case.scap {
                        rep.nontrivial = true;
                    }
                    let a = *id as f32 * 0.5;
                    let _ = sa.cache_embedding(*id, vec![a.cos(), a.sin()]);
                }
                DOp::SClear => sa.clear_cache(),
            }
            if vc.len() > case.vcap {
                return Err(Failure::new("l1a_over_capacity", format!("op {} {:?}: VectorCache holds {} > capacity {}", i, op, vc.len(), case.vcap)).with_sig(json!({"kind":"l1a_over_capacity","direct":true})));
            }
            if qc.len() > case.qcap {
                return Err(Failure::new("qcache_over_capacity", format!("op {} {:?}: QueryHashCache holds {} > capacity {}", i, op, qc.len(), case.qcap)).with_sig(json!({"kind":"qcache_over_capacity","direct":true})));
            }
            if sa.cache_size() > case.scap {
                return Err(Failure::new("semantic_over_capacity", format!("op {} {:?}: SemanticAdapter holds {} > max {}", i, op, sa.cache_size(), case.scap)).with_sig(json!({"kind":"semantic_over_capacity","direct":true})));
            }
        }
        Ok(rep)
    }
}


// ------------------------------------------------------------------------------------------
// race part: one inserting thread at the hard limit against one deleting / draining thread
// ------------------------------------------------------------------------------------------

#[derive(Clone, Debug, Serialize, Deserialize)]
pub struct RCase {
    pub hard: usize,
    /// 0 delete, 1 batch delete, 2 filtered delete, 3 drain, 4 point reads
    pub other: u8,
    pub inserts: u8,
    pub plan: Vec<(u32, u8)>,
}

pub struct Race;

fn race_programs(engine: &std::sync::Arc<kyrodb_engine::TieredEngine>, case: &RCase, over: &std::sync::Arc<std::sync::Mutex<Option<String>>>) -> Vec<crate::common::sched::Program> {
    let e1 = std::sync::Arc::clone(engine);
    let e2 = std::sync::Arc::clone(engine);
    let over = std::sync::Arc::clone(over);
    let (hard, inserts, other) = (case.hard, case.inserts, case.other);
    let a: crate::common::sched::Program = Box::new(move |t| {
        for n in 0..inserts {
            t.label("insert");
            let id = 100 + n as u64;
            let _ = e1.insert(id, vec![id as f32, 1.0], std::collections::HashMap::new());
            // "when an insert returns": only this thread adds entries, the other one removes
            let len = e1.hot_tier().len();
            if len > hard {
                *over.lock().unwrap() = Some(format!("insert({}) returned with {} entries in the recent-write tier (hard limit {})", id, len, hard));
            }
            t.yield_now();
        }
    });
    let b: crate::common::sched::Program = Box::new(move |t| {
        t.label("other");
        match other {
            0 => {
                let _ = e2.delete(1);
            }
            1 => {
                let _ = e2.batch_delete(&[1, 2]);
            }
            2 => {
                let f = kyrodb_engine::proto::MetadataFilter { filter_type: Some(kyrodb_engine::proto::metadata_filter::FilterType::Exact(kyrodb_engine::proto::ExactMatch { key: "g".into(), value: "1".into() })) };
                let _ = e2.batch_delete_by_metadata_filter(&f);
            }
            3 => {
                let _ = e2.flush_hot_tier(true);
            }
            _ => {
                let _ = e2.query(1, None);
                let _ = e2.bulk_query_with_source(&[1, 2], true);
            }
        }
        t.yield_now();
    });
    vec![a, b]
}

fn race_build(case: &RCase) -> Result<crate::common::tiered::Tiered, Failure> {
    use crate::common::gens::Metric;
    use crate::common::tiered::{Strat, Tiered, TieredCfg};
    let cfg = TieredCfg { metric: Metric::Euclidean, dim: 2, strat: Strat::Lru, l1a_cap: 2, qcache_cap: 2, qcache_sim: 1.0, hot_soft: 1, hot_hard: case.hard, capacity: 256, ef_search: 16, persist: false, snapshot_interval: 0, rotate_bytes: 1 << 20 };
    let t = Tiered::build(&cfg, None, &[1, 2, 3]).map_err(|e| Failure::new("setup_failed", format!("{:#}", e)))?;
    // fill the recent-write tier exactly to its hard limit
    for i in 1..=case.hard as u64 {
        let mut m = std::collections::HashMap::new();
        m.insert("g".to_string(), (i % 2).to_string());
        t.engine.insert(i, vec![i as f32, 0.0], m).map_err(|e| Failure::new("setup_failed", format!("{:#}", e)))?;
    }
    Ok(t)
}

impl Prop for Race {
    type Case = RCase;
    fn part(&self) -> &'static str {
        "race"
    }
    fn shape(&self, _tier: Tier) -> RawShape {
        RawShape { head_len: 1, chunk_len: 1, min_chunks: 0, max_chunks: 0 }
    }
    fn max_shrink_iters(&self) -> u32 {
        0
    }
    fn rule(&self) -> String {
        "recent-write tier filled exactly to its hard limit {1,2,5}; one thread inserts 1-2 new ids (each insert must drain first) against one thread running delete / batch delete / filtered delete / drain / reads, every single-preemption schedule; the inserting thread reads the tier size right after each insert returns (only it adds entries); every case is non-trivial".into()
    }
    fn decode(&self, _raw: &Raw, _tier: Tier) -> RCase {
        RCase { hard: 1, other: 0, inserts: 1, plan: vec![] }
    }
    fn run(&self, case: &RCase, _env: &CaseEnv) -> Result<CaseReport, Failure> {
        let t = race_build(case)?;
        let over = std::sync::Arc::new(std::sync::Mutex::new(None));
        let out = crate::common::sched::run(race_programs(&t.engine, case, &over), &case.plan);
        match out.outcome {
            crate::common::sched::Outcome::Finished => {}
            crate::common::sched::Outcome::Hang => return Err(Failure::new("setup_failed", "run did not finish within the watchdog".to_string())),
            crate::common::sched::Outcome::Deadlock(_) => return Ok(CaseReport { excluded: vec!["deadlock".into()], ..Default::default() }),
        }
        if let Some(msg) = over.lock().unwrap().clone() {
            return Err(Failure::new("hot_tier_over_hard_limit", format!("{} (other thread: {:?}, plan {:?})", msg, case.other, case.plan)).with_sig(json!({"kind": "hot_tier_over_hard_limit", "concurrent": true})));
        }
        Ok(CaseReport { nontrivial: true, ..Default::default() })
    }
}

fn race_cases(ctx: &Ctx) -> Vec<RCase> {
    let mut out = vec![];
    for hard in [1usize, 2, 5] {
        for other in 0..5u8 {
            for inserts in 1..=2u8 {
                let base = RCase { hard, other, inserts, plan: vec![] };
                out.push(base.clone());
                if let Ok(t) = race_build(&base) {
                    let over = std::sync::Arc::new(std::sync::Mutex::new(None));
                    let o = crate::common::sched::run(race_programs(&t.engine, &base, &over), &[]);
                    for (d, (alts, me_ready)) in o.trace.iter().enumerate() {
                        if *alts > 1 && *me_ready {
                            let mut c = base.clone();
                            c.plan = vec![(d as u32, 1)];
                            out.push(c);
                        }
                    }
                }
            }
        }
    }
    let _ = ctx;
    out
}

pub fn main(ctx: &Ctx) {
    ctx.assume("AbTestSplitter owns two caches of the configured capacity each, so its size bound is 2 x capacity");
    run_committed_replays(ctx, &C20);
    run_committed_replays(ctx, &Direct);
    run_pbt(ctx, &C20, ctx.tier.pick(100_000, 2_000_000));
    run_pbt(ctx, &Direct, ctx.tier.pick(150_000, 3_000_000));
    // the hard limit while another thread deletes / drains (scheduler engine)
    crate::common::sched::install();
    run_committed_replays(ctx, &Race);
    let cases = race_cases(ctx);
    run_cases(ctx, &Race, "race", cases, true);
}

pub fn replay(ctx: &Ctx, v: &serde_json::Value) -> Option<i32> {
    replay_file(ctx, &C20, v).or_else(|| replay_file(ctx, &Direct, v)).or_else(|| {
        crate::common::sched::install();
        replay_file(ctx, &Race, v)
    })
}
