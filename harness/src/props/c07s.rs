//! C07, schedule part — one searching thread against one writing thread under the controlled
//! scheduler: "a result computed before a write is never stored after that write's
//! invalidation", and no interleaving leaves a servable stale entry.
//!
//! Set-up: Euclidean, 4 dims, documents on a line at well separated distances from the query
//! (so the exact top-k is unique and the HNSW graph over <= 8 documents is exact).  Cache state
//! before the race: empty / warmed with the same query / warmed with another query.
//! Searcher: 1-2 searches of q.  Writer: insert of a closer document, delete / far overwrite of
//! the nearest document, bulk load of a closer document, metadata update of the nearest
//! document, drain, or two of those.  After both threads finished the query is searched again:
//! if that answer is a CacheHit it must be exactly the top-k of the final collection (ids and
//! current distances), i.e. something a fresh search could return now; the fresh (non-hit)
//! answers are checked against the same reference so the oracle itself is validated.

use crate::common::gens::Metric;
use crate::common::runner::*;
use crate::common::sched::{self, Outcome, Program};
use crate::common::tape::Tape;
use crate::common::tiered::{Strat, Tiered, TieredCfg};
use kyrodb_engine::SearchExecutionPath;
use serde::{Deserialize, Serialize};
use serde_json::json;
use std::collections::{BTreeMap, HashMap};
use std::sync::Arc;

#[derive(Clone, Copy, Debug, PartialEq, Eq, Serialize, Deserialize)]
pub enum WOp {
    InsertCloser,
    DeleteNearest,
    OverwriteNearestFar,
    BulkLoadCloser,
    UpdateMetaNearest,
    Drain,
    InsertFar,
    DeleteSecond,
}

const WOPS: &[WOp] = &[WOp::InsertCloser, WOp::DeleteNearest, WOp::OverwriteNearestFar, WOp::BulkLoadCloser, WOp::UpdateMetaNearest, WOp::Drain, WOp::InsertFar, WOp::DeleteSecond];

#[derive(Clone, Debug, Serialize, Deserialize)]
pub struct Case {
    pub strat: Strat,
    /// 0 = cache empty, 1 = warmed with q, 2 = warmed with another query
    pub warm: u8,
    /// documents 1..4 drained to the cold tier before the race (else mirrored in the hot tier)
    pub drained: bool,
    pub k: usize,
    pub searches: u8,
    pub writes: Vec<WOp>,
    pub plan: Vec<(u32, u8)>,
    #[serde(default)]
    pub relative: bool,
    /// also run every plan that adds one more preemption at a later decision
    #[serde(default)]
    pub expand: bool,
}

fn at(x: f32) -> Vec<f32> {
    vec![x, 0.0, 0.0, 1.0]
}

const Q: f32 = 0.0;

fn cfg_for(strat: Strat) -> TieredCfg {
    TieredCfg { metric: Metric::Euclidean, dim: 4, strat, l1a_cap: 3, qcache_cap: 4, qcache_sim: 1.0, hot_soft: 64, hot_hard: 128, capacity: 64, ef_search: 64, persist: false, snapshot_interval: 0, rotate_bytes: 1 << 20 }
}

/// positions of the initial documents: id i at x = 10 * i
fn initial() -> BTreeMap<u64, f32> {
    (1..=4u64).map(|i| (i, 10.0 * i as f32)).collect()
}

fn apply_model(m: &mut BTreeMap<u64, f32>, op: WOp, n: usize) {
    match op {
        WOp::InsertCloser | WOp::BulkLoadCloser => {
            m.insert(20 + n as u64, 1.0 + n as f32);
        }
        WOp::DeleteNearest => {
            m.remove(&1);
        }
        WOp::OverwriteNearestFar => {
            m.insert(1, 500.0 + n as f32);
        }
        WOp::InsertFar => {
            m.insert(30 + n as u64, 900.0 + n as f32);
        }
        WOp::DeleteSecond => {
            m.remove(&2);
        }
        WOp::UpdateMetaNearest | WOp::Drain => {}
    }
}

fn apply_engine(e: &kyrodb_engine::TieredEngine, op: WOp, n: usize) {
    let mut meta = HashMap::new();
    meta.insert("w".to_string(), n.to_string());
    match op {
        WOp::InsertCloser => {
            let _ = e.insert(20 + n as u64, at(1.0 + n as f32), meta);
        }
        WOp::BulkLoadCloser => {
            let _ = e.bulk_load_cold_tier(vec![(20 + n as u64, at(1.0 + n as f32), meta)]);
        }
        WOp::DeleteNearest => {
            let _ = e.delete(1);
        }
        WOp::OverwriteNearestFar => {
            let _ = e.insert(1, at(500.0 + n as f32), meta);
        }
        WOp::InsertFar => {
            let _ = e.insert(30 + n as u64, at(900.0 + n as f32), meta);
        }
        WOp::DeleteSecond => {
            let _ = e.delete(2);
        }
        WOp::UpdateMetaNearest => {
            let _ = e.update_metadata(1, meta, true);
        }
        WOp::Drain => {
            let _ = e.flush_hot_tier(true);
        }
    }
}

fn build(case: &Case) -> Result<Tiered, Failure> {
    let pool: Vec<u64> = (1..=8).collect();
    let t = Tiered::build(&cfg_for(case.strat), None, &pool).map_err(|e| Failure::new("setup_failed", format!("{:#}", e)))?;
    let e = &t.engine;
    for (id, x) in initial() {
        e.insert(id, at(x), HashMap::new()).map_err(|x| Failure::new("setup_failed", format!("{:#}", x)))?;
    }
    if case.drained {
        e.flush_hot_tier(true).map_err(|x| Failure::new("setup_failed", format!("{:#}", x)))?;
    }
    t.qcache.clear();
    match case.warm {
        1 => {
            let _ = e.knn_search_with_ef_detailed(&at(Q), case.k, None);
        }
        2 => {
            let _ = e.knn_search_with_ef_detailed(&at(77.0), case.k, None);
        }
        _ => {}
    }
    Ok(t)
}

fn programs(engine: &Arc<kyrodb_engine::TieredEngine>, case: &Case) -> Vec<Program> {
    let e1 = Arc::clone(engine);
    let e2 = Arc::clone(engine);
    let (k, searches, writes) = (case.k, case.searches, case.writes.clone());
    let searcher: Program = Box::new(move |t| {
        for _ in 0..searches {
            t.label("search");
            let _ = e1.knn_search_with_ef_detailed(&at(Q), k, None);
            t.yield_now();
        }
    });
    let writer: Program = Box::new(move |t| {
        for (n, w) in writes.iter().enumerate() {
            t.label(&format!("{:?}", w));
            apply_engine(&e2, *w, n);
            t.yield_now();
        }
    });
    vec![searcher, writer]
}

pub struct C07S {
    pub part_name: &'static str,
}

fn judge_answer(what: &str, results: &[kyrodb_engine::SearchResult], path: SearchExecutionPath, model: &BTreeMap<u64, f32>, k: usize) -> Result<(), Failure> {
    let mut want: Vec<(u64, f32)> = model.iter().map(|(id, x)| (*id, (x - Q).abs())).collect();
    want.sort_by(|a, b| a.1.partial_cmp(&b.1).unwrap());
    want.truncate(k);
    let got: Vec<(u64, f32)> = results.iter().map(|r| (r.doc_id, r.distance)).collect();
    let same = got.len() == want.len() && got.iter().zip(&want).all(|(g, w)| g.0 == w.0 && (g.1 - w.1).abs() <= 1e-3 * (1.0 + w.1));
    if same {
        return Ok(());
    }
    let hit = path == SearchExecutionPath::CacheHit;
    let kind = if hit { "stale_cache_hit_after_race" } else { "fresh_search_wrong_after_race" };
    Err(Failure::new(
        kind,
        format!("{} (path {:?}): got {:?}, the final collection's top-{} is {:?}", what, path, got, k, want),
    )
    .with_sig(json!({"kind": kind})))
}

impl Prop for C07S {
    type Case = Case;
    fn part(&self) -> &'static str {
        self.part_name
    }
    fn shape(&self, _tier: Tier) -> RawShape {
        RawShape { head_len: 20, chunk_len: 1, min_chunks: 1, max_chunks: 3 }
    }
    fn max_shrink_iters(&self) -> u32 {
        60
    }
    fn rule(&self) -> String {
        "race_pairs: {cache empty, warmed with q, warmed with another query} x {mirrored, drained} x k {1,2,3} x 8 writer operations x {1,2} searches x 2 strategies x every single-preemption schedule; race_programs: 1-3 writer operations, 1-2 searches, 1-4 generated preemptions; non-trivial = the final search was answered from the cache, or the plan preempted the searcher between its tier reads and the cache fill (any preemption of the searcher); distinct = hash of decoded case".into()
    }
    fn decode(&self, raw: &Raw, _tier: Tier) -> Case {
        let mut t = Tape::new(&raw.head);
        let strat = t.pick(&[Strat::Lru, Strat::LearnedTrained, Strat::AbTest]);
        let warm = t.below(3) as u8;
        let drained = t.chance(128);
        let k = 1 + t.below(3);
        let searches = 1 + t.below(2) as u8;
        let npre = 1 + t.below(4);
        let mut plan: Vec<(u32, u8)> = (0..npre).map(|_| (t.u16() as u32, 1)).collect();
        plan.sort();
        let writes = raw.chunks.iter().map(|c| WOPS[(c[0] as usize * WOPS.len()) >> 8]).collect();
        Case { strat, warm, drained, k, searches, writes, plan, relative: true, expand: false }
    }
    fn run(&self, case: &Case, _env: &CaseEnv) -> Result<CaseReport, Failure> {
        let mut rep = CaseReport::default();
        let mut plan = case.plan.clone();
        if case.relative {
            let t = build(case)?;
            let base = sched::run(programs(&t.engine, case), &[]);
            let n = base.decisions.max(1) as u64;
            plan = case.plan.iter().map(|(f, a)| ((((*f as u64) * n) >> 16) as u32, *a)).collect();
        }
        let t = build(case)?;
        let out = sched::run(programs(&t.engine, case), &plan);
        match &out.outcome {
            Outcome::Finished => {}
            Outcome::Hang => return Err(Failure::new("setup_failed", "run did not finish within the watchdog".to_string())),
            Outcome::Deadlock(ws) => {
                rep.excluded.push(format!("deadlock:{:?}", sched::deadlock_sites(ws)));
                return Ok(rep);
            }
        }
        if let Some((tid, msg)) = out.errors.iter().enumerate().find_map(|(i, e)| e.as_ref().map(|m| (i, m.clone()))) {
            return Err(Failure::new("panic_under_schedule", format!("thread {} panicked: {}", tid, msg)).with_sig(json!({"kind": "panic_under_schedule"})));
        }
        let mut model = initial();
        for (n, w) in case.writes.iter().enumerate() {
            apply_model(&mut model, *w, n);
        }
        let e = &t.engine;
        let mut any_hit = false;
        for round in 0..2 {
            let (res, path) = e.knn_search_with_ef_detailed(&at(Q), case.k, None).map_err(|x| Failure::new("valid_search_rejected", format!("{:#}", x)))?;
            if path == SearchExecutionPath::CacheHit && round == 0 {
                any_hit = true;
            }
            judge_answer(&format!("search {} after both threads finished", round + 1), &res, path, &model, case.k)?;
        }
        // a smaller k must also be served correctly from whatever is cached now
        if case.k > 1 {
            let (res, path) = e.knn_search_with_ef_detailed(&at(Q), case.k - 1, None).map_err(|x| Failure::new("valid_search_rejected", format!("{:#}", x)))?;
            judge_answer("search with k-1 after both threads finished", &res, path, &model, case.k - 1)?;
        }
        rep.count("decisions", out.decisions as u64);
        if case.expand && !case.relative {
            let last = case.plan.iter().map(|(d, _)| *d).max().unwrap_or(0);
            for (d, (alts, me_ready)) in out.trace.iter().enumerate() {
                if (d as u32) > last && *alts > 1 && *me_ready {
                    let mut c = case.clone();
                    c.expand = false;
                    c.plan.push((d as u32, 1));
                    self.run(&c, _env).map_err(|mut f| {
                        f.msg = format!("[plan {:?}] {}", c.plan, f.msg);
                        f
                    })?;
                    rep.count("evaluations_judged", 1);
                }
            }
        }
        if any_hit {
            rep.label("final_answer_from_cache");
        }
        rep.nontrivial = any_hit || !plan.is_empty();
        Ok(rep)
    }
}

fn pair_cases(ctx: &Ctx, expand: bool) -> Vec<Case> {
    let mut combos = vec![];
    for strat in [Strat::Lru, Strat::LearnedTrained] {
        for warm in 0..3u8 {
            for drained in [false, true] {
                for k in 1..=3usize {
                    for searches in 1..=2u8 {
                        for w in WOPS {
                            combos.push(Case { strat, warm, drained, k, searches, writes: vec![*w], plan: vec![], relative: false, expand: false });
                        }
                    }
                }
            }
        }
    }
    let next = std::sync::atomic::AtomicUsize::new(0);
    let out: std::sync::Mutex<Vec<(usize, Vec<Case>)>> = std::sync::Mutex::new(vec![]);
    std::thread::scope(|sc| {
        for _ in 0..ctx.threads.max(1) {
            let (next, out, combos) = (&next, &out, &combos);
            sc.spawn(move || loop {
                let i = next.fetch_add(1, std::sync::atomic::Ordering::Relaxed);
                if i >= combos.len() {
                    break;
                }
                let base = combos[i].clone();
                let mut v = vec![base.clone()];
                if let Ok(t) = build(&base) {
                    let o = sched::run(programs(&t.engine, &base), &[]);
                    for (d, (alts, me_ready)) in o.trace.iter().enumerate() {
                        if *alts > 1 && *me_ready {
                            let mut c = base.clone();
                            c.plan = vec![(d as u32, 1)];
                            c.expand = expand;
                            v.push(c);
                        }
                    }
                }
                out.lock().unwrap().push((i, v));
            });
        }
    });
    let mut out = out.into_inner().unwrap();
    out.sort_by_key(|(i, _)| *i);
    out.into_iter().flat_map(|(_, v)| v).collect()
}

pub fn main(ctx: &Ctx) {
    sched::install();
    run_committed_replays(ctx, &C07S { part_name: "race_pairs" });
    run_committed_replays(ctx, &C07S { part_name: "race_programs" });
    let cases = pair_cases(ctx, false);
    run_cases(ctx, &C07S { part_name: "race_pairs" }, "race_pairs", cases, true);
    if ctx.tier == Tier::Thorough {
        // complete at preemption bound 2
        let cases = pair_cases(ctx, true);
        run_cases(ctx, &C07S { part_name: "race_pairs" }, "race_pairs_bound2", cases, true);
    }
    run_pbt(ctx, &C07S { part_name: "race_programs" }, ctx.tier.pick(10_000, 300_000));
}

pub fn replay(ctx: &Ctx, v: &serde_json::Value) -> Option<i32> {
    sched::install();
    replay_file(ctx, &C07S { part_name: "race_pairs" }, v).or_else(|| replay_file(ctx, &C07S { part_name: "race_programs" }, v))
}
