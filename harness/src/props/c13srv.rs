//! C13, server part — the same single-fault oracle through the real server binary's start-up.
//!
//! A data directory is produced by the real `kyrodb_server` (writes over gRPC, automatic
//! snapshots, WAL rotation, clean SIGTERM shutdown), the collection is read back (census with
//! vectors and metadata), then for each generated fault a copy of the directory is damaged
//! (deletion, bit flip, truncation of MANIFEST / WAL segment / snapshot) and the server is
//! started on it in strict mode with fresh-start-on-failure disabled: it must refuse to start
//! or serve exactly the pre-damage collection.  Loss confined to the tail of the newest listed
//! segment (the recovered collection equals an earlier state of the history) is C01's case and
//! is excluded.

use crate::common::runner::*;
use crate::common::srv::{with_key, Server, SrvCfg};
use crate::common::tape::Tape;
use kyrodb_engine::proto as pb;
use serde::{Deserialize, Serialize};
use serde_json::json;
use std::collections::BTreeMap;

const DIM: usize = 4;

#[derive(Clone, Debug, Serialize, Deserialize)]
pub enum W {
    Put { id: u64, ver: u32 },
    Del { id: u64 },
}

#[derive(Clone, Debug, Serialize, Deserialize)]
pub enum FK {
    Delete,
    Flip { off: u32, bit: u8 },
    Trunc { len: u32 },
}

#[derive(Clone, Debug, Serialize, Deserialize)]
pub struct Fault {
    pub file: u16,
    pub kind: FK,
}

#[derive(Clone, Debug, Serialize, Deserialize)]
pub struct Case {
    pub snapshot_interval: u64,
    pub max_wal: u64,
    pub writes: Vec<W>,
    pub faults: Vec<Fault>,
}

pub struct C13Srv;

type Census = BTreeMap<u64, (Vec<u32>, BTreeMap<String, String>)>;

fn cfg_for(case: &Case) -> SrvCfg {
    let mut c = SrvCfg::default_for(DIM, "euclidean", false, 1_000_000);
    c.snapshot_interval = case.snapshot_interval;
    c.max_wal_bytes = case.max_wal;
    c.fsync = "data_only";
    c.extra = String::new();
    c
}

fn call<F, Fut, T>(srv: &Server, f: F) -> Result<T, Failure>
where
    F: FnOnce(crate::common::srv::Client) -> Fut,
    Fut: std::future::Future<Output = T>,
{
    let rt = tokio::runtime::Builder::new_current_thread().enable_all().build().map_err(|e| Failure::new("setup_failed", e.to_string()))?;
    let out = rt.block_on(async {
        let c = srv.client().await.map_err(|e| Failure::new("setup_failed", format!("connect: {}", e)))?;
        Ok::<T, Failure>(f(c).await)
    });
    drop(rt);
    out
}

fn census(srv: &Server) -> Result<Census, String> {
    let ids: Vec<u64> = (1..=8).collect();
    let r = call(srv, |mut c| async move { c.bulk_query(with_key(pb::BulkQueryRequest { doc_ids: ids, include_embeddings: true, namespace: String::new() }, None)).await }).map_err(|f| f.msg)?;
    match r {
        Ok(resp) => Ok(resp
            .get_ref()
            .results
            .iter()
            .filter(|q| q.found)
            .map(|q| (q.doc_id, (q.embedding.iter().map(|x| x.to_bits()).collect(), q.metadata.iter().map(|(k, v)| (k.clone(), v.clone())).collect())))
            .collect()),
        Err(s) => Err(format!("census refused: {:?} {}", s.code(), s.message())),
    }
}

impl Prop for C13Srv {
    type Case = Case;
    fn part(&self) -> &'static str {
        "server"
    }
    fn shape(&self, _tier: Tier) -> RawShape {
        RawShape { head_len: 4, chunk_len: 10, min_chunks: 10, max_chunks: 34 }
    }
    fn max_shrink_iters(&self) -> u32 {
        24
    }
    fn rule(&self) -> String {
        "data directory produced by the real server (6-24 gRPC writes, snapshot interval {0,2,5}, rotation {300 B, none}, SIGTERM) x 3-8 generated single faults (file x delete | bit flip | truncation), each started through the real binary in strict mode; each (directory, fault) is one evaluation; non-trivial = the fault changes a file named by the MANIFEST, the MANIFEST itself or a snapshot; distinct = hash of decoded case".into()
    }
    fn decode(&self, raw: &Raw, _tier: Tier) -> Case {
        let mut t = Tape::new(&raw.head);
        let snapshot_interval = t.pick(&[2u64, 0, 5]);
        let max_wal = t.pick(&[300u64, 1 << 20]);
        let mut writes = vec![];
        let mut faults = vec![];
        for (i, c) in raw.chunks.iter().enumerate() {
            let mut t = Tape::new(c);
            if t.u8() < 176 || faults.len() >= 8 {
                if t.chance(56) {
                    writes.push(W::Del { id: 1 + t.below(6) as u64 });
                } else {
                    writes.push(W::Put { id: 1 + t.below(6) as u64, ver: i as u32 + 1 });
                }
            } else {
                let file = t.u16();
                let kind = match t.weighted(&[3, 5, 4]) {
                    0 => FK::Delete,
                    1 => FK::Flip { off: t.u32(), bit: t.below(8) as u8 },
                    _ => FK::Trunc { len: t.u32() },
                };
                faults.push(Fault { file, kind });
            }
        }
        if faults.is_empty() {
            faults.push(Fault { file: 0, kind: FK::Delete });
        }
        Case { snapshot_interval, max_wal, writes, faults }
    }

    fn run(&self, case: &Case, env: &CaseEnv) -> Result<CaseReport, Failure> {
        let shard = super::c10::SHARD.with(|s| *s);
        let mut rep = CaseReport::default();
        let root = env.dir("orig");
        let mut srv = Server::new(cfg_for(case), &root, shard);
        srv.start().map_err(|e| Failure::new("setup_failed", e))?;
        let mut states: Vec<Census> = vec![BTreeMap::new()];
        for w in &case.writes {
            match w {
                W::Put { id, ver } => {
                    let mut metadata = std::collections::HashMap::new();
                    metadata.insert("v".to_string(), ver.to_string());
                    let r = pb::InsertRequest { doc_id: *id, embedding: vec![*id as f32, *ver as f32, 0.5, 1.0], metadata, namespace: String::new() };
                    let out = call(&srv, |mut c| async move { c.insert(with_key(r, None)).await })?;
                    if out.is_err() {
                        return Err(Failure::new("setup_failed", format!("insert refused while building the directory: {:?}", out.err().map(|s| s.code()))));
                    }
                }
                W::Del { id } => {
                    let idc = *id;
                    let out = call(&srv, |mut c| async move { c.delete(with_key(pb::DeleteRequest { doc_id: idc, namespace: String::new() }, None)).await })?;
                    if out.is_err() {
                        return Err(Failure::new("setup_failed", "delete refused while building the directory".to_string()));
                    }
                }
            }
            states.push(census(&srv).map_err(|e| Failure::new("setup_failed", e))?);
        }
        let pre = states.last().cloned().unwrap_or_default();
        srv.stop_term();
        // sanity: an undamaged restart serves the same collection (C02's matter, but a failure
        // here would make every judgement below meaningless)
        srv.start().map_err(|e| Failure::new("setup_failed", format!("undamaged restart failed: {}", e)))?;
        let again = census(&srv).map_err(|e| Failure::new("setup_failed", e))?;
        srv.stop_term();
        if again != pre {
            if let Ok(keep) = std::env::var("KVH_KEEP_DIR") {
                let dst = std::path::Path::new(&keep).join(format!("case{}", std::process::id() as u64 * 1000 + shard as u64));
                let _ = crate::common::eng::copy_dir(&root, &dst);
                eprintln!("kept failing directory in {}", dst.display());
            }
            return Err(Failure::new("undamaged_restart_differs", format!("a clean SIGTERM restart changed the collection: before {:?}, after {:?}", pre.keys().collect::<Vec<_>>(), again.keys().collect::<Vec<_>>())).with_sig(json!({"kind": "undamaged_restart_differs"})));
        }
        let data = srv.data_dir();
        let mut files: Vec<String> = std::fs::read_dir(&data)
            .map_err(|e| Failure::new("setup_failed", e.to_string()))?
            .flatten()
            .filter_map(|e| e.file_name().into_string().ok())
            .filter(|n| n == "MANIFEST" || (n.starts_with("wal_") && n.ends_with(".wal")) || (n.starts_with("snapshot_") && n.ends_with(".snap")))
            .collect();
        files.sort();
        if files.is_empty() {
            return Err(Failure::new("setup_failed", "no data files".to_string()));
        }
        let manifest: serde_json::Value = std::fs::read_to_string(data.join("MANIFEST")).ok().and_then(|s| serde_json::from_str(&s).ok()).unwrap_or(serde_json::Value::Null);
        let listed: Vec<String> = manifest["wal_segments"].as_array().map(|a| a.iter().filter_map(|x| x.as_str().map(|s| s.to_string())).collect()).unwrap_or_default();
        let snap = manifest["latest_snapshot"].as_str().unwrap_or("").to_string();
        let classify = |n: &str| -> &'static str {
            if n == "MANIFEST" {
                "manifest"
            } else if n.ends_with(".wal") {
                if listed.last().map(|l| l == n).unwrap_or(false) {
                    "wal_newest_listed"
                } else if listed.iter().any(|l| l == n) {
                    "wal_non_final"
                } else {
                    "wal_unlisted"
                }
            } else if n == snap {
                "snapshot_primary"
            } else {
                "snapshot_stale"
            }
        };
        for (fi, fault) in case.faults.iter().enumerate() {
            let name = files[fault.file as usize % files.len()].clone();
            let class = classify(&name);
            let orig = std::fs::read(data.join(&name)).map_err(|e| Failure::new("setup_failed", e.to_string()))?;
            let mut region = String::new();
            let (damaged, fname, desc): (Option<Vec<u8>>, &str, String) = match &fault.kind {
                FK::Delete => (None, "delete", "delete".into()),
                FK::Flip { off, bit } => {
                    if orig.is_empty() {
                        continue;
                    }
                    let o = *off as usize % orig.len();
                    if name.ends_with(".wal") {
                        region = super::c13::parse_wal(&orig).1.iter().find(|r| r.off == o).map(|r| r.name).unwrap_or("random").to_string();
                    }
                    let mut d = orig.clone();
                    d[o] ^= 1 << bit;
                    (Some(d), "flip", format!("flip bit {} of byte {} of {} ({})", bit, o, orig.len(), region))
                }
                FK::Trunc { len } => {
                    let l = *len as usize % (orig.len() + 1);
                    if l == orig.len() {
                        continue;
                    }
                    (Some(orig[..l].to_vec()), "truncate", format!("truncate from {} to {} bytes", orig.len(), l))
                }
            };
            let work = env.dir(&format!("f{}", fi));
            crate::common::eng::copy_dir(&data, &work.join("data")).map_err(|e| Failure::new("setup_failed", e.to_string()))?;
            match &damaged {
                None => std::fs::remove_file(work.join("data").join(&name)).map_err(|e| Failure::new("setup_failed", e.to_string()))?,
                Some(d) => std::fs::write(work.join("data").join(&name), d).map_err(|e| Failure::new("setup_failed", e.to_string()))?,
            }
            let mut s2 = Server::new(cfg_for(case), &work, shard);
            rep.count("evaluations_judged", 1);
            rep.label(&format!("file={}", class));
            if class != "wal_unlisted" && class != "snapshot_stale" {
                rep.nontrivial = true;
            }
            let cfg_path_ok = s2.start();
            match cfg_path_ok {
                Err(e) => {
                    if e.contains("did not open port") {
                        // neither serving nor exited: treat as inconclusive for this fault
                        rep.excluded.push("server_neither_started_nor_exited".into());
                    } else {
                        rep.count("refused_to_start", 1);
                    }
                }
                Ok(()) => {
                    let got = census(&s2);
                    s2.stop_kill();
                    let got = match got {
                        Ok(g) => g,
                        Err(_) => {
                            rep.count("started_but_refuses_reads", 1);
                            let _ = std::fs::remove_dir_all(&work);
                            continue;
                        }
                    };
                    if got == pre {
                        rep.count("recovered_identical", 1);
                    } else if class == "wal_newest_listed" && states.iter().any(|s| *s == got) {
                        rep.excluded.push("tail_loss_of_newest_segment".into());
                    } else {
                        let lost = pre.keys().filter(|k| !got.contains_key(k)).count();
                        let res = got.keys().filter(|k| !pre.contains_key(k)).count();
                        let effect = if lost > 0 && res == 0 {
                            "documents_missing"
                        } else if res > 0 && lost == 0 {
                            "documents_resurrected"
                        } else {
                            "documents_altered"
                        };
                        let sig = json!({"kind": "silent_damage", "file_class": class, "fault": fname, "region": region, "effect": effect, "level": "server"});
                        if env.ctx.is_known(&sig) {
                            rep.known_sigs.push(sig);
                        } else {
                            let _ = std::fs::remove_dir_all(&work);
                            return Err(Failure::new(
                                "silent_damage",
                                format!("the server started in strict mode after damage to {} ({}): {} — and serves a different collection: before ids {:?} versions {:?}, after ids {:?} versions {:?}", name, class, desc, pre.keys().collect::<Vec<_>>(), pre.values().map(|v| v.1.get("v").cloned()).collect::<Vec<_>>(), got.keys().collect::<Vec<_>>(), got.values().map(|v| v.1.get("v").cloned()).collect::<Vec<_>>()),
                            )
                            .with_sig(sig));
                        }
                    }
                }
            }
            let _ = std::fs::remove_dir_all(&work);
        }
        Ok(rep)
    }
}
