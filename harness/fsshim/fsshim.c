// fsshim — LD_PRELOAD syscall tracer / fault injector for the KyroDB verification harness.
//
// Loaded into the harness process itself.  Tracing and fault injection are per THREAD
// (thread-local), so 16 harness shards can each trace the engine calls they make on their
// own thread.  Only paths under the thread's watched root are recorded / faulted.
//
// Effect log (binary, little endian), one record per effect:
//   u8 kind | u32 len1 | path1 | u32 len2 | path2-or-data | i64 a | i64 b
// kinds: 1 open(a=flags, b=existed_before) 2 write(a=offset, data in field 2) 3 fsync(a=is_dir)
//        4 rename(path1 -> path2) 5 unlink 6 truncate(a=len) 7 mkdir 9 mark(a, b)
//
// Exported control API (resolved by the harness with dlsym):
//   fsshim_version, fsshim_begin(root), fsshim_end, fsshim_mark(a,b), fsshim_take(&buf,&len),
//   fsshim_free(buf), fsshim_arm(kind_mask, nth, err, partial, repeat), fsshim_disarm,
//   fsshim_count(kind) (calls of that kind seen since begin), fsshim_fired()

#define _GNU_SOURCE
#include <dlfcn.h>
#include <errno.h>
#include <fcntl.h>
#include <pthread.h>
#include <stdarg.h>
#include <stdint.h>
#include <stdio.h>
#include <stdlib.h>
#include <string.h>
#include <sys/stat.h>
#include <sys/types.h>
#include <sys/uio.h>
#include <unistd.h>

#define K_OPEN 1
#define K_WRITE 2
#define K_FSYNC 3
#define K_RENAME 4
#define K_UNLINK 5
#define K_TRUNC 6
#define K_MKDIR 7
#define K_MARK 9

// fault kinds (bit mask)
#define F_WRITE 1
#define F_FSYNC 2
#define F_FDATASYNC 4
#define F_FTRUNCATE 8
#define F_RENAME 16
#define F_OPEN 32
#define F_UNLINK 64

#define MAXFD 65536

static char *fd_path[MAXFD];
static unsigned char fd_isdir[MAXFD];
static pthread_mutex_t fd_mu = PTHREAD_MUTEX_INITIALIZER;

typedef struct {
    int active;
    char root[512];
    size_t root_len;
    unsigned char *buf;
    size_t len, cap;
    // fault state
    int armed;
    int kind_mask;
    long nth;      // 1-based index among matching calls
    int err;       // errno to return (0 = short write without error)
    long partial;  // bytes really written before failing (write only)
    int repeat;    // consecutive matching calls to fail
    long seen;     // matching calls seen so far
    int fired;
    long counts[8];
    int in_shim;
} tls_t;

static __thread tls_t T;

static int (*real_open)(const char *, int, ...);
static int (*real_open64)(const char *, int, ...);
static int (*real_openat)(int, const char *, int, ...);
static int (*real_openat64)(int, const char *, int, ...);
static int (*real_creat)(const char *, mode_t);
static int (*real_close)(int);
static ssize_t (*real_write)(int, const void *, size_t);
static ssize_t (*real_pwrite)(int, const void *, size_t, off_t);
static ssize_t (*real_pwrite64)(int, const void *, size_t, off64_t);
static ssize_t (*real_writev)(int, const struct iovec *, int);
static int (*real_fsync)(int);
static int (*real_fdatasync)(int);
static int (*real_rename)(const char *, const char *);
static int (*real_renameat)(int, const char *, int, const char *);
static int (*real_renameat2)(int, const char *, int, const char *, unsigned int);
static int (*real_unlink)(const char *);
static int (*real_unlinkat)(int, const char *, int);
static int (*real_ftruncate)(int, off_t);
static int (*real_ftruncate64)(int, off64_t);
static int (*real_truncate)(const char *, off_t);
static int (*real_mkdir)(const char *, mode_t);

static void resolve(void) {
    static int done;
    if (done) return;
    real_open = dlsym(RTLD_NEXT, "open");
    real_open64 = dlsym(RTLD_NEXT, "open64");
    real_openat = dlsym(RTLD_NEXT, "openat");
    real_openat64 = dlsym(RTLD_NEXT, "openat64");
    real_creat = dlsym(RTLD_NEXT, "creat");
    real_close = dlsym(RTLD_NEXT, "close");
    real_write = dlsym(RTLD_NEXT, "write");
    real_pwrite = dlsym(RTLD_NEXT, "pwrite");
    real_pwrite64 = dlsym(RTLD_NEXT, "pwrite64");
    real_writev = dlsym(RTLD_NEXT, "writev");
    real_fsync = dlsym(RTLD_NEXT, "fsync");
    real_fdatasync = dlsym(RTLD_NEXT, "fdatasync");
    real_rename = dlsym(RTLD_NEXT, "rename");
    real_renameat = dlsym(RTLD_NEXT, "renameat");
    real_renameat2 = dlsym(RTLD_NEXT, "renameat2");
    real_unlink = dlsym(RTLD_NEXT, "unlink");
    real_unlinkat = dlsym(RTLD_NEXT, "unlinkat");
    real_ftruncate = dlsym(RTLD_NEXT, "ftruncate");
    real_ftruncate64 = dlsym(RTLD_NEXT, "ftruncate64");
    real_truncate = dlsym(RTLD_NEXT, "truncate");
    real_mkdir = dlsym(RTLD_NEXT, "mkdir");
    done = 1;
}

__attribute__((constructor)) static void init(void) { resolve(); }

static int watched(const char *p) {
    return T.active && p && strncmp(p, T.root, T.root_len) == 0;
}

static void put(const void *p, size_t n) {
    if (T.len + n > T.cap) {
        size_t nc = T.cap ? T.cap * 2 : 1 << 16;
        while (nc < T.len + n) nc *= 2;
        T.buf = realloc(T.buf, nc);
        T.cap = nc;
    }
    memcpy(T.buf + T.len, p, n);
    T.len += n;
}

static void rec(uint8_t kind, const char *p1, const void *p2, size_t n2, int64_t a, int64_t b) {
    uint32_t l1 = p1 ? (uint32_t)strlen(p1) : 0, l2 = (uint32_t)n2;
    put(&kind, 1);
    put(&l1, 4);
    if (l1) put(p1, l1);
    put(&l2, 4);
    if (l2) put(p2, l2);
    put(&a, 8);
    put(&b, 8);
}

static void set_fd(int fd, const char *path, int isdir) {
    if (fd < 0 || fd >= MAXFD) return;
    pthread_mutex_lock(&fd_mu);
    free(fd_path[fd]);
    fd_path[fd] = path ? strdup(path) : NULL;
    fd_isdir[fd] = (unsigned char)isdir;
    pthread_mutex_unlock(&fd_mu);
}

// copy of the path of fd into out (thread safe); returns 1 if known
static int get_fd(int fd, char *out, size_t cap, int *isdir) {
    int ok = 0;
    if (fd < 0 || fd >= MAXFD) return 0;
    pthread_mutex_lock(&fd_mu);
    if (fd_path[fd]) {
        strncpy(out, fd_path[fd], cap - 1);
        out[cap - 1] = 0;
        if (isdir) *isdir = fd_isdir[fd];
        ok = 1;
    }
    pthread_mutex_unlock(&fd_mu);
    return ok;
}

// Should this call fail?  Returns 1 and sets *err / *partial when the armed fault applies.
static int fault(int kind, int *err, long *partial) {
    int idx = 0;
    for (int k = kind; k > 1; k >>= 1) idx++;
    T.counts[idx & 7]++;
    if (!T.armed || !(T.kind_mask & kind)) return 0;
    T.seen++;
    if (T.seen >= T.nth && T.seen < T.nth + T.repeat) {
        *err = T.err;
        *partial = T.partial;
        T.fired++;
        return 1;
    }
    return 0;
}

static int open_common(const char *path, int flags, mode_t mode, int which, int dirfd) {
    resolve();
    int w = (dirfd == AT_FDCWD || (path && path[0] == '/')) && watched(path);
    int existed = 0;
    if (w) {
        struct stat st;
        existed = (stat(path, &st) == 0);
        int e;
        long p;
        if (((flags & O_ACCMODE) != O_RDONLY || (flags & O_CREAT)) && fault(F_OPEN, &e, &p)) {
            errno = e ? e : EIO;
            return -1;
        }
    }
    int fd;
    switch (which) {
        case 0: fd = real_open(path, flags, mode); break;
        case 1: fd = real_open64(path, flags, mode); break;
        case 2: fd = real_openat(dirfd, path, flags, mode); break;
        default: fd = real_openat64(dirfd, path, flags, mode); break;
    }
    if (fd >= 0 && w) {
        struct stat st;
        int isdir = (fstat(fd, &st) == 0) && S_ISDIR(st.st_mode);
        set_fd(fd, path, isdir);
        if ((flags & O_ACCMODE) != O_RDONLY || (flags & (O_CREAT | O_TRUNC))) rec(K_OPEN, path, NULL, 0, flags, existed);
    } else if (fd >= 0) {
        set_fd(fd, NULL, 0);
    }
    return fd;
}

int open(const char *path, int flags, ...) {
    mode_t mode = 0;
    if (flags & (O_CREAT | O_TMPFILE)) {
        va_list ap;
        va_start(ap, flags);
        mode = va_arg(ap, mode_t);
        va_end(ap);
    }
    return open_common(path, flags, mode, 0, AT_FDCWD);
}

int open64(const char *path, int flags, ...) {
    mode_t mode = 0;
    if (flags & (O_CREAT | O_TMPFILE)) {
        va_list ap;
        va_start(ap, flags);
        mode = va_arg(ap, mode_t);
        va_end(ap);
    }
    return open_common(path, flags, mode, 1, AT_FDCWD);
}

int openat(int dirfd, const char *path, int flags, ...) {
    mode_t mode = 0;
    if (flags & (O_CREAT | O_TMPFILE)) {
        va_list ap;
        va_start(ap, flags);
        mode = va_arg(ap, mode_t);
        va_end(ap);
    }
    return open_common(path, flags, mode, 2, dirfd);
}

int openat64(int dirfd, const char *path, int flags, ...) {
    mode_t mode = 0;
    if (flags & (O_CREAT | O_TMPFILE)) {
        va_list ap;
        va_start(ap, flags);
        mode = va_arg(ap, mode_t);
        va_end(ap);
    }
    return open_common(path, flags, mode, 3, dirfd);
}

int creat(const char *path, mode_t mode) { return open_common(path, O_CREAT | O_WRONLY | O_TRUNC, mode, 1, AT_FDCWD); }

int close(int fd) {
    resolve();
    set_fd(fd, NULL, 0);
    return real_close(fd);
}

static ssize_t write_common(int fd, const void *buf, size_t n, int positional, off64_t pos) {
    char path[1024];
    int isdir = 0;
    if (!T.active || !get_fd(fd, path, sizeof path, &isdir) || !watched(path)) {
        return positional ? real_pwrite64(fd, buf, n, pos) : real_write(fd, buf, n);
    }
    int e;
    long partial;
    if (fault(F_WRITE, &e, &partial)) {
        size_t p = partial < 0 ? 0 : (size_t)partial;
        if (p >= n) p = n > 0 ? n - 1 : 0;
        if (p > 0) {
            // POSIX: a write that transferred some bytes returns that count; the error is
            // reported by the NEXT call.  So: short write now, errno on the following write.
            ssize_t done = positional ? real_pwrite64(fd, buf, p, pos) : real_write(fd, buf, p);
            if (done > 0) {
                off64_t end = positional ? pos + done : lseek64(fd, 0, SEEK_CUR);
                rec(K_WRITE, path, buf, (size_t)done, (int64_t)(end - done), 1);
            }
            if (e == 0) {
                T.armed = 0;  // pure short write: nothing else to inject
            } else {
                T.partial = 0;
                T.nth = T.seen + 1;  // the following matching call fails with errno
            }
            return done;
        }
        if (e == 0) return 0 < n ? (positional ? real_pwrite64(fd, buf, n, pos) : real_write(fd, buf, n)) : 0;
        errno = e;
        return -1;
    }
    ssize_t r = positional ? real_pwrite64(fd, buf, n, pos) : real_write(fd, buf, n);
    if (r > 0) {
        off64_t end = positional ? pos + r : lseek64(fd, 0, SEEK_CUR);
        rec(K_WRITE, path, buf, (size_t)r, (int64_t)(end - r), 0);
    }
    return r;
}

ssize_t write(int fd, const void *buf, size_t n) {
    resolve();
    return write_common(fd, buf, n, 0, 0);
}

ssize_t pwrite(int fd, const void *buf, size_t n, off_t pos) {
    resolve();
    return write_common(fd, buf, n, 1, pos);
}

ssize_t pwrite64(int fd, const void *buf, size_t n, off64_t pos) {
    resolve();
    return write_common(fd, buf, n, 1, pos);
}

ssize_t writev(int fd, const struct iovec *iov, int cnt) {
    resolve();
    char path[1024];
    if (!T.active || !get_fd(fd, path, sizeof path, NULL) || !watched(path)) return real_writev(fd, iov, cnt);
    // serialise into single writes so that each is recorded (the engine does not use writev on data files)
    ssize_t total = 0;
    for (int i = 0; i < cnt; i++) {
        ssize_t r = write_common(fd, iov[i].iov_base, iov[i].iov_len, 0, 0);
        if (r < 0) return total ? total : r;
        total += r;
        if ((size_t)r < iov[i].iov_len) break;
    }
    return total;
}

static int sync_common(int fd, int data_only) {
    char path[1024];
    int isdir = 0;
    if (!T.active || !get_fd(fd, path, sizeof path, &isdir) || !watched(path)) return data_only ? real_fdatasync(fd) : real_fsync(fd);
    int e;
    long p;
    if (fault(data_only ? F_FDATASYNC : F_FSYNC, &e, &p)) {
        errno = e ? e : EIO;
        return -1;
    }
    int r = data_only ? real_fdatasync(fd) : real_fsync(fd);
    if (r == 0) rec(K_FSYNC, path, NULL, 0, isdir, data_only);
    return r;
}

int fsync(int fd) {
    resolve();
    return sync_common(fd, 0);
}

int fdatasync(int fd) {
    resolve();
    return sync_common(fd, 1);
}

static int rename_common(const char *a, const char *b) {
    if (!(watched(a) || watched(b))) return real_rename(a, b);
    int e;
    long p;
    if (fault(F_RENAME, &e, &p)) {
        errno = e ? e : EIO;
        return -1;
    }
    int r = real_rename(a, b);
    if (r == 0) rec(K_RENAME, a, b, strlen(b), 0, 0);
    return r;
}

int rename(const char *a, const char *b) {
    resolve();
    return rename_common(a, b);
}

int renameat(int fa, const char *a, int fb, const char *b) {
    resolve();
    if (fa == AT_FDCWD && fb == AT_FDCWD) return rename_common(a, b);
    return real_renameat(fa, a, fb, b);
}

int renameat2(int fa, const char *a, int fb, const char *b, unsigned int flags) {
    resolve();
    if (fa == AT_FDCWD && fb == AT_FDCWD && flags == 0) return rename_common(a, b);
    return real_renameat2 ? real_renameat2(fa, a, fb, b, flags) : (errno = ENOSYS, -1);
}

int unlink(const char *p) {
    resolve();
    if (!watched(p)) return real_unlink(p);
    int e;
    long pa;
    if (fault(F_UNLINK, &e, &pa)) {
        errno = e ? e : EIO;
        return -1;
    }
    int r = real_unlink(p);
    if (r == 0) rec(K_UNLINK, p, NULL, 0, 0, 0);
    return r;
}

int unlinkat(int dfd, const char *p, int flags) {
    resolve();
    if (dfd != AT_FDCWD && !(p && p[0] == '/')) return real_unlinkat(dfd, p, flags);
    if (!watched(p)) return real_unlinkat(dfd, p, flags);
    int e;
    long pa;
    if (fault(F_UNLINK, &e, &pa)) {
        errno = e ? e : EIO;
        return -1;
    }
    int r = real_unlinkat(dfd, p, flags);
    if (r == 0) rec(K_UNLINK, p, NULL, 0, flags, 0);
    return r;
}

static int ftrunc_common(int fd, off64_t len) {
    char path[1024];
    if (!T.active || !get_fd(fd, path, sizeof path, NULL) || !watched(path)) return real_ftruncate64(fd, len);
    int e;
    long p;
    if (fault(F_FTRUNCATE, &e, &p)) {
        errno = e ? e : EIO;
        return -1;
    }
    int r = real_ftruncate64(fd, len);
    if (r == 0) rec(K_TRUNC, path, NULL, 0, (int64_t)len, 0);
    return r;
}

int ftruncate(int fd, off_t len) {
    resolve();
    return ftrunc_common(fd, len);
}

int ftruncate64(int fd, off64_t len) {
    resolve();
    return ftrunc_common(fd, len);
}

int truncate(const char *p, off_t len) {
    resolve();
    int r = real_truncate(p, len);
    if (r == 0 && watched(p)) rec(K_TRUNC, p, NULL, 0, (int64_t)len, 0);
    return r;
}

int mkdir(const char *p, mode_t m) {
    resolve();
    int r = real_mkdir(p, m);
    if (r == 0 && watched(p)) rec(K_MKDIR, p, NULL, 0, 0, 0);
    return r;
}

// ---------------------------------------------------------------------------------------
// control API
// ---------------------------------------------------------------------------------------

int fsshim_version(void) { return 3; }

void fsshim_begin(const char *root) {
    strncpy(T.root, root, sizeof T.root - 1);
    T.root[sizeof T.root - 1] = 0;
    T.root_len = strlen(T.root);
    T.len = 0;
    T.armed = 0;
    T.seen = 0;
    T.fired = 0;
    memset(T.counts, 0, sizeof T.counts);
    T.active = 1;
}

void fsshim_end(void) { T.active = 0; }

void fsshim_mark(int64_t a, int64_t b) {
    if (T.active) rec(K_MARK, NULL, NULL, 0, a, b);
}

// hand the log over to the caller (who frees it with fsshim_free) and start a fresh one
void fsshim_take(unsigned char **buf, size_t *len) {
    *buf = T.buf;
    *len = T.len;
    T.buf = NULL;
    T.len = 0;
    T.cap = 0;
}

void fsshim_free(unsigned char *buf) { free(buf); }

void fsshim_arm(int kind_mask, long nth, int err, long partial, int repeat) {
    T.kind_mask = kind_mask;
    T.nth = nth;
    T.err = err;
    T.partial = partial;
    T.repeat = repeat < 1 ? 1 : repeat;
    T.seen = 0;
    T.fired = 0;
    T.armed = 1;
}

void fsshim_disarm(void) { T.armed = 0; }

long fsshim_count(int kind) {
    int idx = 0;
    for (int k = kind; k > 1; k >>= 1) idx++;
    return T.counts[idx & 7];
}

int fsshim_fired(void) { return T.fired; }
