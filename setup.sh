#!/bin/bash
# setup_cmd: offline build of the verification harness from files on disk only.
set -eu
ROOT="$(cd "$(dirname "${BASH_SOURCE[0]}")" && pwd)"
export CARGO_NET_OFFLINE=true
mkdir -p "$ROOT/target"
gcc -shared -fPIC -O2 -o "$ROOT/target/fsshim.so" "$ROOT/harness/fsshim/fsshim.c" -ldl -lpthread
cd "$ROOT/harness"
cargo build --offline
# C17: cargo-fuzz targets under AddressSanitizer (nightly toolchain, offline)
cd "$ROOT/fz" && cargo +nightly fuzz build
echo "setup ok"
