// Copyright 2016 Amanieu d'Antras
//
// Licensed under the Apache License, Version 2.0, <LICENSE-APACHE or
// http://apache.org/licenses/LICENSE-2.0> or the MIT license <LICENSE-MIT or
// http://opensource.org/licenses/MIT>, at your option. This file may not be
// copied, modified, or distributed except according to those terms.

use std::sync::atomic::AtomicUsize;

// Extension trait to add lock elision primitives to atomic types
pub trait AtomicElisionExt {
    type IntType;

    // Perform a compare_exchange and start a transaction
    fn elision_compare_exchange_acquire(
        &self,
        current: Self::IntType,
        new: Self::IntType,
    ) -> Result<Self::IntType, Self::IntType>;

    // Perform a fetch_sub and end a transaction
    fn elision_fetch_sub_release(&self, val: Self::IntType) -> Self::IntType;
}

// Indicates whether the target architecture supports lock elision
#[inline]
pub fn have_elision() -> bool {
    cfg!(all(
        feature = "hardware-lock-elision",
        not(miri),
        any(target_arch = "x86", target_arch = "x86_64"),
    ))
}

// This implementation is never actually called because it is guarded by
// have_elision().
#[cfg(not(all(
    feature = "hardware-lock-elision",
    not(miri),
    any(target_arch = "x86", target_arch = "x86_64")
)))]
impl AtomicElisionExt for AtomicUsize {
    type IntType = usize;

    #[inline]
    fn elision_compare_exchange_acquire(&self, _: usize, _: usize) -> Result<usize, usize> {
        unreachable!();
    }

    #[inline]
    fn elision_fetch_sub_release(&self, _: usize) -> usize {
        unreachable!();
    }
}

#[cfg(all(
    feature = "hardware-lock-elision",
    not(miri),
    any(target_arch = "x86", target_arch = "x86_64")
))]
impl AtomicElisionExt for AtomicUsize {
    type IntType = usize;

    #[inline]
    fn elision_compare_exchange_acquire(&self, current: usize, new: usize) -> Result<usize, usize> {
        unsafe {
            use core::arch::asm;
            let prev: usize;
            #[cfg(target_pointer_width = "32")]
            asm!(
                "xacquire",
                "lock",
                "cmpxchg [{:e}], {:e}",
                in(reg) self,
                in(reg) new,
                inout("eax") current => prev,
            );
            #[cfg(target_pointer_width = "64")]
            asm!(
                "xacquire",
                "lock",
                "cmpxchg [{}], {}",
                in(reg) self,
                in(reg) new,
                inout("rax") current => prev,
            );
            if prev == current {
                Ok(prev)
            } else {
                Err(prev)
            }
        }
    }

    #[inline]
    fn elision_fetch_sub_release(&self, val: usize) -> usize {
        unsafe {
            use core::arch::asm;
            let prev: usize;
            #[cfg(target_pointer_width = "32")]
            asm!(
                "xrelease",
                "lock",
                "xadd [{:e}], {:e}",
                in(reg) self,
                inout(reg) val.wrapping_neg() => prev,
            );
            #[cfg(target_pointer_width = "64")]
            asm!(
                "xrelease",
                "lock",
                "xadd [{}], {}",
                in(reg) self,
                inout(reg) val.wrapping_neg() => prev,
            );
            prev
        }
    }
}
