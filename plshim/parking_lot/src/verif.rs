// Added by /verif (not part of upstream parking_lot 0.12.5).
//
// `Mutex<T>` and `RwLock<T>` are re-pointed at the wrapper raw locks below.  For a thread that
// is NOT under schedule control (the default) every method forwards straight to the original
// raw lock after one thread-local load.  For a controlled thread every blocking acquisition
// becomes "ask the installed scheduler, which calls the original NON-blocking try_* when it
// is this thread's turn", so that a test harness decides the interleaving at lock granularity.
// Condvar, FairMutex and ReentrantMutex keep using the original raw mutex (not controlled).

use crate::raw_mutex::RawMutex as OrigMutex;
use crate::raw_rwlock::RawRwLock as OrigRwLock;
use core::time::Duration;
use std::cell::Cell;
use std::sync::OnceLock;
use std::time::Instant;

pub const MODE_MUTEX: u8 = 0;
pub const MODE_SHARED: u8 = 1;
pub const MODE_SHARED_RECURSIVE: u8 = 2;
pub const MODE_EXCLUSIVE: u8 = 3;
pub const MODE_UPGRADABLE: u8 = 4;
/// upgradable -> exclusive (blocks until the readers have drained)
pub const MODE_UPGRADE: u8 = 5;

pub trait Scheduler: Sync + Send {
    /// Blocking acquisition: returns once `try_fn` has returned true on this thread's turn.
    /// `timed_fn` is the original BLOCKING acquisition with a timeout (used only to confirm a
    /// suspected deadlock with the real lock semantics, or after control has been given up).
    fn acquire(&self, addr: usize, mode: u8, try_fn: &dyn Fn() -> bool, timed_fn: &dyn Fn(Duration) -> bool);
    /// Non-blocking (or timed) acquisition: one scheduling point, then at most one `try_fn`.
    fn try_acquire(&self, addr: usize, mode: u8, try_fn: &dyn Fn() -> bool) -> bool;
    /// Called after the real unlock.
    fn release(&self, addr: usize, mode: u8);
    /// Called after a real downgrade (never blocks).
    fn convert(&self, addr: usize, from: u8, to: u8);
}

static SCHED: OnceLock<Box<dyn Scheduler>> = OnceLock::new();

thread_local! {
    static ON: Cell<bool> = const { Cell::new(false) };
}

/// Install the process-wide scheduler (once).
pub fn install(s: Box<dyn Scheduler>) -> bool {
    SCHED.set(s).is_ok()
}

/// Put the calling thread under (or out of) schedule control.
pub fn set_controlled(on: bool) {
    ON.with(|c| c.set(on));
}

#[inline]
pub fn controlled() -> bool {
    ON.with(|c| c.get())
}

#[inline]
fn sched() -> Option<&'static dyn Scheduler> {
    if controlled() {
        SCHED.get().map(|b| &**b)
    } else {
        None
    }
}

pub struct RawMutex {
    inner: OrigMutex,
}

impl RawMutex {
    #[inline]
    pub(crate) fn inner(&self) -> &OrigMutex {
        &self.inner
    }
    #[inline]
    fn addr(&self) -> usize {
        self as *const _ as usize
    }
}

unsafe impl lock_api::RawMutex for RawMutex {
    const INIT: RawMutex = RawMutex { inner: <OrigMutex as lock_api::RawMutex>::INIT };
    type GuardMarker = <OrigMutex as lock_api::RawMutex>::GuardMarker;

    #[inline]
    fn lock(&self) {
        match sched() {
            Some(s) => s.acquire(self.addr(), MODE_MUTEX, &|| lock_api::RawMutex::try_lock(&self.inner), &|d| lock_api::RawMutexTimed::try_lock_for(&self.inner, d)),
            None => lock_api::RawMutex::lock(&self.inner),
        }
    }
    #[inline]
    fn try_lock(&self) -> bool {
        match sched() {
            Some(s) => s.try_acquire(self.addr(), MODE_MUTEX, &|| lock_api::RawMutex::try_lock(&self.inner)),
            None => lock_api::RawMutex::try_lock(&self.inner),
        }
    }
    #[inline]
    unsafe fn unlock(&self) {
        lock_api::RawMutex::unlock(&self.inner);
        if let Some(s) = sched() {
            s.release(self.addr(), MODE_MUTEX);
        }
    }
    #[inline]
    fn is_locked(&self) -> bool {
        lock_api::RawMutex::is_locked(&self.inner)
    }
}

unsafe impl lock_api::RawMutexFair for RawMutex {
    #[inline]
    unsafe fn unlock_fair(&self) {
        lock_api::RawMutexFair::unlock_fair(&self.inner);
        if let Some(s) = sched() {
            s.release(self.addr(), MODE_MUTEX);
        }
    }
    #[inline]
    unsafe fn bump(&self) {
        if sched().is_none() {
            lock_api::RawMutexFair::bump(&self.inner)
        }
    }
}

unsafe impl lock_api::RawMutexTimed for RawMutex {
    type Duration = Duration;
    type Instant = Instant;
    #[inline]
    fn try_lock_until(&self, timeout: Instant) -> bool {
        match sched() {
            Some(s) => s.try_acquire(self.addr(), MODE_MUTEX, &|| lock_api::RawMutex::try_lock(&self.inner)),
            None => lock_api::RawMutexTimed::try_lock_until(&self.inner, timeout),
        }
    }
    #[inline]
    fn try_lock_for(&self, timeout: Duration) -> bool {
        match sched() {
            Some(s) => s.try_acquire(self.addr(), MODE_MUTEX, &|| lock_api::RawMutex::try_lock(&self.inner)),
            None => lock_api::RawMutexTimed::try_lock_for(&self.inner, timeout),
        }
    }
}

pub struct RawRwLock {
    inner: OrigRwLock,
}

impl RawRwLock {
    #[inline]
    fn addr(&self) -> usize {
        self as *const _ as usize
    }
}

macro_rules! blocking {
    ($self:ident, $mode:expr, $try:expr, $timed:expr, $orig:expr) => {
        match sched() {
            Some(s) => s.acquire($self.addr(), $mode, &|| $try, &$timed),
            None => $orig,
        }
    };
}
macro_rules! trying {
    ($self:ident, $mode:expr, $try:expr, $orig:expr) => {
        match sched() {
            Some(s) => s.try_acquire($self.addr(), $mode, &|| $try),
            None => $orig,
        }
    };
}
macro_rules! releasing {
    ($self:ident, $mode:expr, $orig:expr) => {{
        $orig;
        if let Some(s) = sched() {
            s.release($self.addr(), $mode);
        }
    }};
}

unsafe impl lock_api::RawRwLock for RawRwLock {
    const INIT: RawRwLock = RawRwLock { inner: <OrigRwLock as lock_api::RawRwLock>::INIT };
    type GuardMarker = <OrigRwLock as lock_api::RawRwLock>::GuardMarker;

    #[inline]
    fn lock_exclusive(&self) {
        blocking!(self, MODE_EXCLUSIVE, lock_api::RawRwLock::try_lock_exclusive(&self.inner), |d| lock_api::RawRwLockTimed::try_lock_exclusive_for(&self.inner, d), lock_api::RawRwLock::lock_exclusive(&self.inner))
    }
    #[inline]
    fn try_lock_exclusive(&self) -> bool {
        trying!(self, MODE_EXCLUSIVE, lock_api::RawRwLock::try_lock_exclusive(&self.inner), lock_api::RawRwLock::try_lock_exclusive(&self.inner))
    }
    #[inline]
    unsafe fn unlock_exclusive(&self) {
        releasing!(self, MODE_EXCLUSIVE, lock_api::RawRwLock::unlock_exclusive(&self.inner))
    }
    #[inline]
    fn lock_shared(&self) {
        blocking!(self, MODE_SHARED, lock_api::RawRwLock::try_lock_shared(&self.inner), |d| lock_api::RawRwLockTimed::try_lock_shared_for(&self.inner, d), lock_api::RawRwLock::lock_shared(&self.inner))
    }
    #[inline]
    fn try_lock_shared(&self) -> bool {
        trying!(self, MODE_SHARED, lock_api::RawRwLock::try_lock_shared(&self.inner), lock_api::RawRwLock::try_lock_shared(&self.inner))
    }
    #[inline]
    unsafe fn unlock_shared(&self) {
        releasing!(self, MODE_SHARED, lock_api::RawRwLock::unlock_shared(&self.inner))
    }
    #[inline]
    fn is_locked(&self) -> bool {
        lock_api::RawRwLock::is_locked(&self.inner)
    }
    #[inline]
    fn is_locked_exclusive(&self) -> bool {
        lock_api::RawRwLock::is_locked_exclusive(&self.inner)
    }
}

unsafe impl lock_api::RawRwLockFair for RawRwLock {
    #[inline]
    unsafe fn unlock_shared_fair(&self) {
        releasing!(self, MODE_SHARED, lock_api::RawRwLockFair::unlock_shared_fair(&self.inner))
    }
    #[inline]
    unsafe fn unlock_exclusive_fair(&self) {
        releasing!(self, MODE_EXCLUSIVE, lock_api::RawRwLockFair::unlock_exclusive_fair(&self.inner))
    }
    #[inline]
    unsafe fn bump_shared(&self) {
        if sched().is_none() {
            lock_api::RawRwLockFair::bump_shared(&self.inner)
        }
    }
    #[inline]
    unsafe fn bump_exclusive(&self) {
        if sched().is_none() {
            lock_api::RawRwLockFair::bump_exclusive(&self.inner)
        }
    }
}

unsafe impl lock_api::RawRwLockDowngrade for RawRwLock {
    #[inline]
    unsafe fn downgrade(&self) {
        lock_api::RawRwLockDowngrade::downgrade(&self.inner);
        if let Some(s) = sched() {
            s.convert(self.addr(), MODE_EXCLUSIVE, MODE_SHARED);
        }
    }
}

unsafe impl lock_api::RawRwLockTimed for RawRwLock {
    type Duration = Duration;
    type Instant = Instant;
    #[inline]
    fn try_lock_shared_for(&self, timeout: Duration) -> bool {
        trying!(self, MODE_SHARED, lock_api::RawRwLock::try_lock_shared(&self.inner), lock_api::RawRwLockTimed::try_lock_shared_for(&self.inner, timeout))
    }
    #[inline]
    fn try_lock_shared_until(&self, timeout: Instant) -> bool {
        trying!(self, MODE_SHARED, lock_api::RawRwLock::try_lock_shared(&self.inner), lock_api::RawRwLockTimed::try_lock_shared_until(&self.inner, timeout))
    }
    #[inline]
    fn try_lock_exclusive_for(&self, timeout: Duration) -> bool {
        trying!(self, MODE_EXCLUSIVE, lock_api::RawRwLock::try_lock_exclusive(&self.inner), lock_api::RawRwLockTimed::try_lock_exclusive_for(&self.inner, timeout))
    }
    #[inline]
    fn try_lock_exclusive_until(&self, timeout: Instant) -> bool {
        trying!(self, MODE_EXCLUSIVE, lock_api::RawRwLock::try_lock_exclusive(&self.inner), lock_api::RawRwLockTimed::try_lock_exclusive_until(&self.inner, timeout))
    }
}

unsafe impl lock_api::RawRwLockRecursive for RawRwLock {
    #[inline]
    fn lock_shared_recursive(&self) {
        blocking!(self, MODE_SHARED_RECURSIVE, lock_api::RawRwLockRecursive::try_lock_shared_recursive(&self.inner), |d| lock_api::RawRwLockRecursiveTimed::try_lock_shared_recursive_for(&self.inner, d), lock_api::RawRwLockRecursive::lock_shared_recursive(&self.inner))
    }
    #[inline]
    fn try_lock_shared_recursive(&self) -> bool {
        trying!(self, MODE_SHARED_RECURSIVE, lock_api::RawRwLockRecursive::try_lock_shared_recursive(&self.inner), lock_api::RawRwLockRecursive::try_lock_shared_recursive(&self.inner))
    }
}

unsafe impl lock_api::RawRwLockRecursiveTimed for RawRwLock {
    #[inline]
    fn try_lock_shared_recursive_for(&self, timeout: Duration) -> bool {
        trying!(self, MODE_SHARED_RECURSIVE, lock_api::RawRwLockRecursive::try_lock_shared_recursive(&self.inner), lock_api::RawRwLockRecursiveTimed::try_lock_shared_recursive_for(&self.inner, timeout))
    }
    #[inline]
    fn try_lock_shared_recursive_until(&self, timeout: Instant) -> bool {
        trying!(self, MODE_SHARED_RECURSIVE, lock_api::RawRwLockRecursive::try_lock_shared_recursive(&self.inner), lock_api::RawRwLockRecursiveTimed::try_lock_shared_recursive_until(&self.inner, timeout))
    }
}

unsafe impl lock_api::RawRwLockUpgrade for RawRwLock {
    #[inline]
    fn lock_upgradable(&self) {
        blocking!(self, MODE_UPGRADABLE, lock_api::RawRwLockUpgrade::try_lock_upgradable(&self.inner), |d| lock_api::RawRwLockUpgradeTimed::try_lock_upgradable_for(&self.inner, d), lock_api::RawRwLockUpgrade::lock_upgradable(&self.inner))
    }
    #[inline]
    fn try_lock_upgradable(&self) -> bool {
        trying!(self, MODE_UPGRADABLE, lock_api::RawRwLockUpgrade::try_lock_upgradable(&self.inner), lock_api::RawRwLockUpgrade::try_lock_upgradable(&self.inner))
    }
    #[inline]
    unsafe fn unlock_upgradable(&self) {
        releasing!(self, MODE_UPGRADABLE, lock_api::RawRwLockUpgrade::unlock_upgradable(&self.inner))
    }
    #[inline]
    unsafe fn upgrade(&self) {
        match sched() {
            Some(s) => s.acquire(self.addr(), MODE_UPGRADE, &|| lock_api::RawRwLockUpgrade::try_upgrade(&self.inner), &|d| lock_api::RawRwLockUpgradeTimed::try_upgrade_for(&self.inner, d)),
            None => lock_api::RawRwLockUpgrade::upgrade(&self.inner),
        }
    }
    #[inline]
    unsafe fn try_upgrade(&self) -> bool {
        match sched() {
            Some(s) => s.try_acquire(self.addr(), MODE_UPGRADE, &|| lock_api::RawRwLockUpgrade::try_upgrade(&self.inner)),
            None => lock_api::RawRwLockUpgrade::try_upgrade(&self.inner),
        }
    }
}

unsafe impl lock_api::RawRwLockUpgradeFair for RawRwLock {
    #[inline]
    unsafe fn unlock_upgradable_fair(&self) {
        releasing!(self, MODE_UPGRADABLE, lock_api::RawRwLockUpgradeFair::unlock_upgradable_fair(&self.inner))
    }
    #[inline]
    unsafe fn bump_upgradable(&self) {
        if sched().is_none() {
            lock_api::RawRwLockUpgradeFair::bump_upgradable(&self.inner)
        }
    }
}

unsafe impl lock_api::RawRwLockUpgradeDowngrade for RawRwLock {
    #[inline]
    unsafe fn downgrade_upgradable(&self) {
        lock_api::RawRwLockUpgradeDowngrade::downgrade_upgradable(&self.inner);
        if let Some(s) = sched() {
            s.convert(self.addr(), MODE_UPGRADABLE, MODE_SHARED);
        }
    }
    #[inline]
    unsafe fn downgrade_to_upgradable(&self) {
        lock_api::RawRwLockUpgradeDowngrade::downgrade_to_upgradable(&self.inner);
        if let Some(s) = sched() {
            s.convert(self.addr(), MODE_EXCLUSIVE, MODE_UPGRADABLE);
        }
    }
}

unsafe impl lock_api::RawRwLockUpgradeTimed for RawRwLock {
    #[inline]
    fn try_lock_upgradable_until(&self, timeout: Instant) -> bool {
        trying!(self, MODE_UPGRADABLE, lock_api::RawRwLockUpgrade::try_lock_upgradable(&self.inner), lock_api::RawRwLockUpgradeTimed::try_lock_upgradable_until(&self.inner, timeout))
    }
    #[inline]
    fn try_lock_upgradable_for(&self, timeout: Duration) -> bool {
        trying!(self, MODE_UPGRADABLE, lock_api::RawRwLockUpgrade::try_lock_upgradable(&self.inner), lock_api::RawRwLockUpgradeTimed::try_lock_upgradable_for(&self.inner, timeout))
    }
    #[inline]
    unsafe fn try_upgrade_until(&self, timeout: Instant) -> bool {
        match sched() {
            Some(s) => s.try_acquire(self.addr(), MODE_UPGRADE, &|| lock_api::RawRwLockUpgrade::try_upgrade(&self.inner)),
            None => lock_api::RawRwLockUpgradeTimed::try_upgrade_until(&self.inner, timeout),
        }
    }
    #[inline]
    unsafe fn try_upgrade_for(&self, timeout: Duration) -> bool {
        match sched() {
            Some(s) => s.try_acquire(self.addr(), MODE_UPGRADE, &|| lock_api::RawRwLockUpgrade::try_upgrade(&self.inner)),
            None => lock_api::RawRwLockUpgradeTimed::try_upgrade_for(&self.inner, timeout),
        }
    }
}
