// Copyright 2016 Amanieu d'Antras
//
// Licensed under the Apache License, Version 2.0, <LICENSE-APACHE or
// http://apache.org/licenses/LICENSE-2.0> or the MIT license <LICENSE-MIT or
// http://opensource.org/licenses/MIT>, at your option. This file may not be
// copied, modified, or distributed except according to those terms.

use crate::mutex::MutexGuard;
use crate::raw_mutex::{RawMutex, TOKEN_HANDOFF, TOKEN_NORMAL};
use crate::{deadlock, util};
use core::{
    fmt, ptr,
    sync::atomic::{AtomicPtr, Ordering},
};
use lock_api::RawMutex as RawMutex_;
use parking_lot_core::{self, ParkResult, RequeueOp, UnparkResult, DEFAULT_PARK_TOKEN};
use std::ops::DerefMut;
use std::time::{Duration, Instant};

/// A type indicating whether a timed wait on a condition variable returned
/// due to a time out or not.
#[derive(Debug, PartialEq, Eq, Copy, Clone)]
pub struct WaitTimeoutResult(bool);

impl WaitTimeoutResult {
    /// Returns whether the wait was known to have timed out.
    #[inline]
    pub fn timed_out(self) -> bool {
        self.0
    }
}

/// A Condition Variable
///
/// Condition variables represent the ability to block a thread such that it
/// consumes no CPU time while waiting for an event to occur. Condition
/// variables are typically associated with a boolean predicate (a condition)
/// and a mutex. The predicate is always verified inside of the mutex before
/// determining that thread must block.
///
/// Note that this module places one additional restriction over the system
/// condition variables: each condvar can be used with only one mutex at a
/// time. Any attempt to use multiple mutexes on the same condition variable
/// simultaneously will result in a runtime panic. However it is possible to
/// switch to a different mutex if there are no threads currently waiting on
/// the condition variable.
///
/// # Differences from the standard library `Condvar`
///
/// - No spurious wakeups: A wait will only return a non-timeout result if it
///   was woken up by `notify_one` or `notify_all`.
/// - `Condvar::notify_all` will only wake up a single thread, the rest are
///   requeued to wait for the `Mutex` to be unlocked by the thread that was
///   woken up.
/// - Only requires 1 word of space, whereas the standard library boxes the
///   `Condvar` due to platform limitations.
/// - Can be statically constructed.
/// - Does not require any drop glue when dropped.
/// - Inline fast path for the uncontended case.
///
/// # Examples
///
/// ```
/// use parking_lot::{Mutex, Condvar};
/// use std::sync::Arc;
/// use std::thread;
///
/// let pair = Arc::new((Mutex::new(false), Condvar::new()));
/// let pair2 = pair.clone();
///
/// // Inside of our lock, spawn a new thread, and then wait for it to start
/// thread::spawn(move|| {
///     let &(ref lock, ref cvar) = &*pair2;
///     let mut started = lock.lock();
///     *started = true;
///     cvar.notify_one();
/// });
///
/// // wait for the thread to start up
/// let &(ref lock, ref cvar) = &*pair;
/// let mut started = lock.lock();
/// if !*started {
///     cvar.wait(&mut started);
/// }
/// // Note that we used an if instead of a while loop above. This is only
/// // possible because parking_lot's Condvar will never spuriously wake up.
/// // This means that wait() will only return after notify_one or notify_all is
/// // called.
/// ```
pub struct Condvar {
    state: AtomicPtr<RawMutex>,
}

impl Condvar {
    /// Creates a new condition variable which is ready to be waited on and
    /// notified.
    #[inline]
    pub const fn new() -> Condvar {
        Condvar {
            state: AtomicPtr::new(ptr::null_mut()),
        }
    }

    /// Wakes up one blocked thread on this condvar.
    ///
    /// Returns whether a thread was woken up.
    ///
    /// If there is a blocked thread on this condition variable, then it will
    /// be woken up from its call to `wait` or `wait_timeout`. Calls to
    /// `notify_one` are not buffered in any way.
    ///
    /// To wake up all threads, see `notify_all()`.
    ///
    /// # Examples
    ///
    /// ```
    /// use parking_lot::Condvar;
    ///
    /// let condvar = Condvar::new();
    ///
    /// // do something with condvar, share it with other threads
    ///
    /// if !condvar.notify_one() {
    ///     println!("Nobody was listening for this.");
    /// }
    /// ```
    #[inline]
    pub fn notify_one(&self) -> bool {
        // Nothing to do if there are no waiting threads
        let state = self.state.load(Ordering::Relaxed);
        if state.is_null() {
            return false;
        }

        self.notify_one_slow(state)
    }

    #[cold]
    fn notify_one_slow(&self, mutex: *mut RawMutex) -> bool {
        // Unpark one thread and requeue the rest onto the mutex
        let from = self as *const _ as usize;
        let to = mutex as usize;
        let validate = || {
            // Make sure that our atomic state still points to the same
            // mutex. If not then it means that all threads on the current
            // mutex were woken up and a new waiting thread switched to a
            // different mutex. In that case we can get away with doing
            // nothing.
            if self.state.load(Ordering::Relaxed) != mutex {
                return RequeueOp::Abort;
            }

            // Unpark one thread if the mutex is unlocked, otherwise just
            // requeue everything to the mutex. This is safe to do here
            // since unlocking the mutex when the parked bit is set requires
            // locking the queue. There is the possibility of a race if the
            // mutex gets locked after we check, but that doesn't matter in
            // this case.
            if unsafe { (*mutex).mark_parked_if_locked() } {
                RequeueOp::RequeueOne
            } else {
                RequeueOp::UnparkOne
            }
        };
        let callback = |_op, result: UnparkResult| {
            // Clear our state if there are no more waiting threads
            if !result.have_more_threads {
                self.state.store(ptr::null_mut(), Ordering::Relaxed);
            }
            TOKEN_NORMAL
        };
        let res = unsafe { parking_lot_core::unpark_requeue(from, to, validate, callback) };

        res.unparked_threads + res.requeued_threads != 0
    }

    /// Wakes up all blocked threads on this condvar.
    ///
    /// Returns the number of threads woken up.
    ///
    /// This method will ensure that any current waiters on the condition
    /// variable are awoken. Calls to `notify_all()` are not buffered in any
    /// way.
    ///
    /// To wake up only one thread, see `notify_one()`.
    #[inline]
    pub fn notify_all(&self) -> usize {
        // Nothing to do if there are no waiting threads
        let state = self.state.load(Ordering::Relaxed);
        if state.is_null() {
            return 0;
        }

        self.notify_all_slow(state)
    }

    #[cold]
    fn notify_all_slow(&self, mutex: *mut RawMutex) -> usize {
        // Unpark one thread and requeue the rest onto the mutex
        let from = self as *const _ as usize;
        let to = mutex as usize;
        let validate = || {
            // Make sure that our atomic state still points to the same
            // mutex. If not then it means that all threads on the current
            // mutex were woken up and a new waiting thread switched to a
            // different mutex. In that case we can get away with doing
            // nothing.
            if self.state.load(Ordering::Relaxed) != mutex {
                return RequeueOp::Abort;
            }

            // Clear our state since we are going to unpark or requeue all
            // threads.
            self.state.store(ptr::null_mut(), Ordering::Relaxed);

            // Unpark one thread if the mutex is unlocked, otherwise just
            // requeue everything to the mutex. This is safe to do here
            // since unlocking the mutex when the parked bit is set requires
            // locking the queue. There is the possibility of a race if the
            // mutex gets locked after we check, but that doesn't matter in
            // this case.
            if unsafe { (*mutex).mark_parked_if_locked() } {
                RequeueOp::RequeueAll
            } else {
                RequeueOp::UnparkOneRequeueRest
            }
        };
        let callback = |op, result: UnparkResult| {
            // If we requeued threads to the mutex, mark it as having
            // parked threads. The RequeueAll case is already handled above.
            if op == RequeueOp::UnparkOneRequeueRest && result.requeued_threads != 0 {
                unsafe { (*mutex).mark_parked() };
            }
            TOKEN_NORMAL
        };
        let res = unsafe { parking_lot_core::unpark_requeue(from, to, validate, callback) };

        res.unparked_threads + res.requeued_threads
    }

    /// Blocks the current thread until this condition variable receives a
    /// notification.
    ///
    /// This function will atomically unlock the mutex specified (represented by
    /// `mutex_guard`) and block the current thread. This means that any calls
    /// to `notify_*()` which happen logically after the mutex is unlocked are
    /// candidates to wake this thread up. When this function call returns, the
    /// lock specified will have been re-acquired.
    ///
    /// # Panics
    ///
    /// This function will panic if another thread is waiting on the `Condvar`
    /// with a different `Mutex` object.
    #[inline]
    pub fn wait<T: ?Sized>(&self, mutex_guard: &mut MutexGuard<'_, T>) {
        self.wait_until_internal(unsafe { MutexGuard::mutex(mutex_guard).raw().inner() }, None);
    }

    /// Waits on this condition variable for a notification, timing out after
    /// the specified time instant.
    ///
    /// The semantics of this function are equivalent to `wait()` except that
    /// the thread will be blocked roughly until `timeout` is reached. This
    /// method should not be used for precise timing due to anomalies such as
    /// preemption or platform differences that may not cause the maximum
    /// amount of time waited to be precisely `timeout`.
    ///
    /// Note that the best effort is made to ensure that the time waited is
    /// measured with a monotonic clock, and not affected by the changes made to
    /// the system time.
    ///
    /// The returned `WaitTimeoutResult` value indicates if the timeout is
    /// known to have elapsed.
    ///
    /// Like `wait`, the lock specified will be re-acquired when this function
    /// returns, regardless of whether the timeout elapsed or not.
    ///
    /// # Panics
    ///
    /// This function will panic if another thread is waiting on the `Condvar`
    /// with a different `Mutex` object.
    #[inline]
    pub fn wait_until<T: ?Sized>(
        &self,
        mutex_guard: &mut MutexGuard<'_, T>,
        timeout: Instant,
    ) -> WaitTimeoutResult {
        self.wait_until_internal(
            unsafe { MutexGuard::mutex(mutex_guard).raw().inner() },
            Some(timeout),
        )
    }

    // This is a non-generic function to reduce the monomorphization cost of
    // using `wait_until`.
    fn wait_until_internal(&self, mutex: &RawMutex, timeout: Option<Instant>) -> WaitTimeoutResult {
        let result;
        let mut bad_mutex = false;
        let mut requeued = false;
        {
            let addr = self as *const _ as usize;
            let lock_addr = mutex as *const _ as *mut _;
            let validate = || {
                // Ensure we don't use two different mutexes with the same
                // Condvar at the same time. This is done while locked to
                // avoid races with notify_one
                let state = self.state.load(Ordering::Relaxed);
                if state.is_null() {
                    self.state.store(lock_addr, Ordering::Relaxed);
                } else if state != lock_addr {
                    bad_mutex = true;
                    return false;
                }
                true
            };
            let before_sleep = || {
                // Unlock the mutex before sleeping...
                unsafe { mutex.unlock() };
            };
            let timed_out = |k, was_last_thread| {
                // If we were requeued to a mutex, then we did not time out.
                // We'll just park ourselves on the mutex again when we try
                // to lock it later.
                requeued = k != addr;

                // If we were the last thread on the queue then we need to
                // clear our state. This is normally done by the
                // notify_{one,all} functions when not timing out.
                if !requeued && was_last_thread {
                    self.state.store(ptr::null_mut(), Ordering::Relaxed);
                }
            };
            result = unsafe {
                parking_lot_core::park(
                    addr,
                    validate,
                    before_sleep,
                    timed_out,
                    DEFAULT_PARK_TOKEN,
                    timeout,
                )
            };
        }

        // Panic if we tried to use multiple mutexes with a Condvar. Note
        // that at this point the MutexGuard is still locked. It will be
        // unlocked by the unwinding logic.
        if bad_mutex {
            panic!("attempted to use a condition variable with more than one mutex");
        }

        // ... and re-lock it once we are done sleeping
        if result == ParkResult::Unparked(TOKEN_HANDOFF) {
            unsafe { deadlock::acquire_resource(mutex as *const _ as usize) };
        } else {
            mutex.lock();
        }

        WaitTimeoutResult(!(result.is_unparked() || requeued))
    }

    /// Waits on this condition variable for a notification, timing out after a
    /// specified duration.
    ///
    /// The semantics of this function are equivalent to `wait()` except that
    /// the thread will be blocked for roughly no longer than `timeout`. This
    /// method should not be used for precise timing due to anomalies such as
    /// preemption or platform differences that may not cause the maximum
    /// amount of time waited to be precisely `timeout`.
    ///
    /// Note that the best effort is made to ensure that the time waited is
    /// measured with a monotonic clock, and not affected by the changes made to
    /// the system time.
    ///
    /// The returned `WaitTimeoutResult` value indicates if the timeout is
    /// known to have elapsed.
    ///
    /// Like `wait`, the lock specified will be re-acquired when this function
    /// returns, regardless of whether the timeout elapsed or not.
    #[inline]
    pub fn wait_for<T: ?Sized>(
        &self,
        mutex_guard: &mut MutexGuard<'_, T>,
        timeout: Duration,
    ) -> WaitTimeoutResult {
        let deadline = util::to_deadline(timeout);
        self.wait_until_internal(unsafe { MutexGuard::mutex(mutex_guard).raw().inner() }, deadline)
    }

    #[inline]
    fn wait_while_until_internal<T, F>(
        &self,
        mutex_guard: &mut MutexGuard<'_, T>,
        mut condition: F,
        timeout: Option<Instant>,
    ) -> WaitTimeoutResult
    where
        T: ?Sized,
        F: FnMut(&mut T) -> bool,
    {
        let mut result = WaitTimeoutResult(false);

        while !result.timed_out() && condition(mutex_guard.deref_mut()) {
            result =
                self.wait_until_internal(unsafe { MutexGuard::mutex(mutex_guard).raw().inner() }, timeout);
        }

        result
    }
    /// Blocks the current thread until this condition variable receives a
    /// notification. If the provided condition evaluates to `false`, then the
    /// thread is no longer blocked and the operation is completed. If the
    /// condition evaluates to `true`, then the thread is blocked again and
    /// waits for another notification before repeating this process.
    ///
    /// This function will atomically unlock the mutex specified (represented by
    /// `mutex_guard`) and block the current thread. This means that any calls
    /// to `notify_*()` which happen logically after the mutex is unlocked are
    /// candidates to wake this thread up. When this function call returns, the
    /// lock specified will have been re-acquired.
    ///
    /// # Panics
    ///
    /// This function will panic if another thread is waiting on the `Condvar`
    /// with a different `Mutex` object.
    #[inline]
    pub fn wait_while<T, F>(&self, mutex_guard: &mut MutexGuard<'_, T>, condition: F)
    where
        T: ?Sized,
        F: FnMut(&mut T) -> bool,
    {
        self.wait_while_until_internal(mutex_guard, condition, None);
    }

    /// Waits on this condition variable for a notification, timing out after
    /// the specified time instant. If the provided condition evaluates to
    /// `false`, then the thread is no longer blocked and the operation is
    /// completed. If the condition evaluates to `true`, then the thread is
    /// blocked again and waits for another notification before repeating
    /// this process.
    ///
    /// The semantics of this function are equivalent to `wait()` except that
    /// the thread will be blocked roughly until `timeout` is reached. This
    /// method should not be used for precise timing due to anomalies such as
    /// preemption or platform differences that may not cause the maximum
    /// amount of time waited to be precisely `timeout`.
    ///
    /// Note that the best effort is made to ensure that the time waited is
    /// measured with a monotonic clock, and not affected by the changes made to
    /// the system time.
    ///
    /// The returned `WaitTimeoutResult` value indicates if the timeout is
    /// known to have elapsed.
    ///
    /// Like `wait`, the lock specified will be re-acquired when this function
    /// returns, regardless of whether the timeout elapsed or not.
    ///
    /// # Panics
    ///
    /// This function will panic if another thread is waiting on the `Condvar`
    /// with a different `Mutex` object.
    #[inline]
    pub fn wait_while_until<T, F>(
        &self,
        mutex_guard: &mut MutexGuard<'_, T>,
        condition: F,
        timeout: Instant,
    ) -> WaitTimeoutResult
    where
        T: ?Sized,
        F: FnMut(&mut T) -> bool,
    {
        self.wait_while_until_internal(mutex_guard, condition, Some(timeout))
    }

    /// Waits on this condition variable for a notification, timing out after a
    /// specified duration. If the provided condition evaluates to `false`,
    /// then the thread is no longer blocked and the operation is completed.
    /// If the condition evaluates to `true`, then the thread is blocked again
    /// and waits for another notification before repeating this process.
    ///
    /// The semantics of this function are equivalent to `wait()` except that
    /// the thread will be blocked for roughly no longer than `timeout`. This
    /// method should not be used for precise timing due to anomalies such as
    /// preemption or platform differences that may not cause the maximum
    /// amount of time waited to be precisely `timeout`.
    ///
    /// Note that the best effort is made to ensure that the time waited is
    /// measured with a monotonic clock, and not affected by the changes made to
    /// the system time.
    ///
    /// The returned `WaitTimeoutResult` value indicates if the timeout is
    /// known to have elapsed.
    ///
    /// Like `wait`, the lock specified will be re-acquired when this function
    /// returns, regardless of whether the timeout elapsed or not.
    #[inline]
    pub fn wait_while_for<T: ?Sized, F>(
        &self,
        mutex_guard: &mut MutexGuard<'_, T>,
        condition: F,
        timeout: Duration,
    ) -> WaitTimeoutResult
    where
        F: FnMut(&mut T) -> bool,
    {
        let deadline = util::to_deadline(timeout);
        self.wait_while_until_internal(mutex_guard, condition, deadline)
    }
}

impl Default for Condvar {
    #[inline]
    fn default() -> Condvar {
        Condvar::new()
    }
}

impl fmt::Debug for Condvar {
    fn fmt(&self, f: &mut fmt::Formatter<'_>) -> fmt::Result {
        f.pad("Condvar { .. }")
    }
}

#[cfg(test)]
mod tests {
    use crate::{Condvar, Mutex, MutexGuard};
    use std::sync::mpsc::channel;
    use std::sync::Arc;
    use std::thread;
    use std::thread::sleep;
    use std::thread::JoinHandle;
    use std::time::Duration;
    use std::time::Instant;

    #[test]
    fn smoke() {
        let c = Condvar::new();
        c.notify_one();
        c.notify_all();
    }

    #[test]
    fn notify_one() {
        let m = Arc::new(Mutex::new(()));
        let m2 = m.clone();
        let c = Arc::new(Condvar::new());
        let c2 = c.clone();

        let mut g = m.lock();
        let _t = thread::spawn(move || {
            let _g = m2.lock();
            c2.notify_one();
        });
        c.wait(&mut g);
    }

    #[test]
    fn notify_all() {
        const N: usize = 10;

        let data = Arc::new((Mutex::new(0), Condvar::new()));
        let (tx, rx) = channel();
        for _ in 0..N {
            let data = data.clone();
            let tx = tx.clone();
            thread::spawn(move || {
                let (lock, cond) = &*data;
                let mut cnt = lock.lock();
                *cnt += 1;
                if *cnt == N {
                    tx.send(()).unwrap();
                }
                while *cnt != 0 {
                    cond.wait(&mut cnt);
                }
                tx.send(()).unwrap();
            });
        }
        drop(tx);

        let (lock, cond) = &*data;
        rx.recv().unwrap();
        let mut cnt = lock.lock();
        *cnt = 0;
        cond.notify_all();
        drop(cnt);

        for _ in 0..N {
            rx.recv().unwrap();
        }
    }

    #[test]
    fn notify_one_return_true() {
        let m = Arc::new(Mutex::new(()));
        let m2 = m.clone();
        let c = Arc::new(Condvar::new());
        let c2 = c.clone();

        let mut g = m.lock();
        let _t = thread::spawn(move || {
            let _g = m2.lock();
            assert!(c2.notify_one());
        });
        c.wait(&mut g);
    }

    #[test]
    fn notify_one_return_false() {
        let m = Arc::new(Mutex::new(()));
        let c = Arc::new(Condvar::new());

        let _t = thread::spawn(move || {
            let _g = m.lock();
            assert!(!c.notify_one());
        });
    }

    #[test]
    fn notify_all_return() {
        const N: usize = 10;

        let data = Arc::new((Mutex::new(0), Condvar::new()));
        let (tx, rx) = channel();
        for _ in 0..N {
            let data = data.clone();
            let tx = tx.clone();
            thread::spawn(move || {
                let (lock, cond) = &*data;
                let mut cnt = lock.lock();
                *cnt += 1;
                if *cnt == N {
                    tx.send(()).unwrap();
                }
                while *cnt != 0 {
                    cond.wait(&mut cnt);
                }
                tx.send(()).unwrap();
            });
        }
        drop(tx);

        let (lock, cond) = &*data;
        rx.recv().unwrap();
        let mut cnt = lock.lock();
        *cnt = 0;
        assert_eq!(cond.notify_all(), N);
        drop(cnt);

        for _ in 0..N {
            rx.recv().unwrap();
        }

        assert_eq!(cond.notify_all(), 0);
    }

    #[test]
    fn wait_for() {
        let m = Arc::new(Mutex::new(()));
        let m2 = m.clone();
        let c = Arc::new(Condvar::new());
        let c2 = c.clone();

        let mut g = m.lock();
        let no_timeout = c.wait_for(&mut g, Duration::from_millis(1));
        assert!(no_timeout.timed_out());

        let _t = thread::spawn(move || {
            let _g = m2.lock();
            c2.notify_one();
        });
        let timeout_res = c.wait_for(&mut g, Duration::from_secs(u64::max_value()));
        assert!(!timeout_res.timed_out());

        drop(g);
    }

    #[test]
    fn wait_until() {
        let m = Arc::new(Mutex::new(()));
        let m2 = m.clone();
        let c = Arc::new(Condvar::new());
        let c2 = c.clone();

        let mut g = m.lock();
        let no_timeout = c.wait_until(&mut g, Instant::now() + Duration::from_millis(1));
        assert!(no_timeout.timed_out());
        let _t = thread::spawn(move || {
            let _g = m2.lock();
            c2.notify_one();
        });
        let timeout_res = c.wait_until(
            &mut g,
            Instant::now() + Duration::from_millis(u32::max_value() as u64),
        );
        assert!(!timeout_res.timed_out());
        drop(g);
    }

    fn spawn_wait_while_notifier(
        mutex: Arc<Mutex<u32>>,
        cv: Arc<Condvar>,
        num_iters: u32,
        timeout: Option<Instant>,
    ) -> JoinHandle<()> {
        thread::spawn(move || {
            for epoch in 1..=num_iters {
                // spin to wait for main test thread to block
                // before notifying it to wake back up and check
                // its condition.
                let mut sleep_backoff = Duration::from_millis(1);
                let _mutex_guard = loop {
                    let mutex_guard = mutex.lock();

                    if let Some(timeout) = timeout {
                        if Instant::now() >= timeout {
                            return;
                        }
                    }

                    if *mutex_guard == epoch {
                        break mutex_guard;
                    }

                    drop(mutex_guard);

                    // give main test thread a good chance to
                    // acquire the lock before this thread does.
                    sleep(sleep_backoff);
                    sleep_backoff *= 2;
                };

                cv.notify_one();
            }
        })
    }

    #[test]
    fn wait_while_until_internal_does_not_wait_if_initially_false() {
        let mutex = Arc::new(Mutex::new(0));
        let cv = Arc::new(Condvar::new());

        let condition = |counter: &mut u32| {
            *counter += 1;
            false
        };

        let mut mutex_guard = mutex.lock();
        let timeout_result = cv.wait_while_until_internal(&mut mutex_guard, condition, None);

        assert!(!timeout_result.timed_out());
        assert!(*mutex_guard == 1);
    }

    #[test]
    fn wait_while_until_internal_times_out_before_false() {
        let mutex = Arc::new(Mutex::new(0));
        let cv = Arc::new(Condvar::new());

        let num_iters = 3;
        let condition = |counter: &mut u32| {
            *counter += 1;
            true
        };

        let mut mutex_guard = mutex.lock();
        let timeout = Some(Instant::now() + Duration::from_millis(500));
        let handle = spawn_wait_while_notifier(mutex.clone(), cv.clone(), num_iters, timeout);

        let timeout_result = cv.wait_while_until_internal(&mut mutex_guard, condition, timeout);

        assert!(timeout_result.timed_out());
        assert!(*mutex_guard == num_iters + 1);

        // prevent deadlock with notifier
        drop(mutex_guard);
        handle.join().unwrap();
    }

    #[test]
    fn wait_while_until_internal() {
        let mutex = Arc::new(Mutex::new(0));
        let cv = Arc::new(Condvar::new());

        let num_iters = 4;

        let condition = |counter: &mut u32| {
            *counter += 1;
            *counter <= num_iters
        };

        let mut mutex_guard = mutex.lock();
        let handle = spawn_wait_while_notifier(mutex.clone(), cv.clone(), num_iters, None);

        let timeout_result = cv.wait_while_until_internal(&mut mutex_guard, condition, None);

        assert!(!timeout_result.timed_out());
        assert!(*mutex_guard == num_iters + 1);

        let timeout_result = cv.wait_while_until_internal(&mut mutex_guard, condition, None);
        handle.join().unwrap();

        assert!(!timeout_result.timed_out());
        assert!(*mutex_guard == num_iters + 2);
    }

    #[test]
    #[should_panic]
    fn two_mutexes() {
        let m = Arc::new(Mutex::new(()));
        let m2 = m.clone();
        let m3 = Arc::new(Mutex::new(()));
        let c = Arc::new(Condvar::new());
        let c2 = c.clone();

        // Make sure we don't leave the child thread dangling
        struct PanicGuard<'a>(&'a Condvar);
        impl<'a> Drop for PanicGuard<'a> {
            fn drop(&mut self) {
                self.0.notify_one();
            }
        }

        let (tx, rx) = channel();
        let g = m.lock();
        let _t = thread::spawn(move || {
            let mut g = m2.lock();
            tx.send(()).unwrap();
            c2.wait(&mut g);
        });
        drop(g);
        rx.recv().unwrap();
        let _g = m.lock();
        let _guard = PanicGuard(&c);
        c.wait(&mut m3.lock());
    }

    #[test]
    fn two_mutexes_disjoint() {
        let m = Arc::new(Mutex::new(()));
        let m2 = m.clone();
        let m3 = Arc::new(Mutex::new(()));
        let c = Arc::new(Condvar::new());
        let c2 = c.clone();

        let mut g = m.lock();
        let _t = thread::spawn(move || {
            let _g = m2.lock();
            c2.notify_one();
        });
        c.wait(&mut g);
        drop(g);

        let _ = c.wait_for(&mut m3.lock(), Duration::from_millis(1));
    }

    #[test]
    fn test_debug_condvar() {
        let c = Condvar::new();
        assert_eq!(format!("{:?}", c), "Condvar { .. }");
    }

    #[test]
    fn test_condvar_requeue() {
        let m = Arc::new(Mutex::new(()));
        let m2 = m.clone();
        let c = Arc::new(Condvar::new());
        let c2 = c.clone();
        let t = thread::spawn(move || {
            let mut g = m2.lock();
            c2.wait(&mut g);
        });

        let mut g = m.lock();
        while !c.notify_one() {
            // Wait for the thread to get into wait()
            MutexGuard::bump(&mut g);
            // Yield, so the other thread gets a chance to do something.
            // (At least Miri needs this, because it doesn't preempt threads.)
            thread::yield_now();
        }
        // The thread should have been requeued to the mutex, which we wake up now.
        drop(g);
        t.join().unwrap();
    }

    #[test]
    fn test_issue_129() {
        let locks = Arc::new((Mutex::new(()), Condvar::new()));

        let (tx, rx) = channel();
        for _ in 0..4 {
            let locks = locks.clone();
            let tx = tx.clone();
            thread::spawn(move || {
                let mut guard = locks.0.lock();
                locks.1.wait(&mut guard);
                locks.1.wait_for(&mut guard, Duration::from_millis(1));
                locks.1.notify_one();
                tx.send(()).unwrap();
            });
        }

        thread::sleep(Duration::from_millis(100));
        locks.1.notify_one();

        for _ in 0..4 {
            assert_eq!(rx.recv_timeout(Duration::from_millis(500)), Ok(()));
        }
    }
}

/// This module contains an integration test that is heavily inspired from WebKit's own integration
/// tests for it's own Condvar.
#[cfg(test)]
mod webkit_queue_test {
    use crate::{Condvar, Mutex, MutexGuard};
    use std::{collections::VecDeque, sync::Arc, thread, time::Duration};

    #[derive(Clone, Copy)]
    enum Timeout {
        Bounded(Duration),
        Forever,
    }

    #[derive(Clone, Copy)]
    enum NotifyStyle {
        One,
        All,
    }

    struct Queue {
        items: VecDeque<usize>,
        should_continue: bool,
    }

    impl Queue {
        fn new() -> Self {
            Self {
                items: VecDeque::new(),
                should_continue: true,
            }
        }
    }

    fn wait<T: ?Sized>(
        condition: &Condvar,
        lock: &mut MutexGuard<'_, T>,
        predicate: impl Fn(&mut MutexGuard<'_, T>) -> bool,
        timeout: &Timeout,
    ) {
        while !predicate(lock) {
            match timeout {
                Timeout::Forever => condition.wait(lock),
                Timeout::Bounded(bound) => {
                    condition.wait_for(lock, *bound);
                }
            }
        }
    }

    fn notify(style: NotifyStyle, condition: &Condvar, should_notify: bool) {
        match style {
            NotifyStyle::One => {
                condition.notify_one();
            }
            NotifyStyle::All => {
                if should_notify {
                    condition.notify_all();
                }
            }
        }
    }

    fn run_queue_test(
        num_producers: usize,
        num_consumers: usize,
        max_queue_size: usize,
        messages_per_producer: usize,
        notify_style: NotifyStyle,
        timeout: Timeout,
        delay: Duration,
    ) {
        let input_queue = Arc::new(Mutex::new(Queue::new()));
        let empty_condition = Arc::new(Condvar::new());
        let full_condition = Arc::new(Condvar::new());

        let output_vec = Arc::new(Mutex::new(vec![]));

        let consumers = (0..num_consumers)
            .map(|_| {
                consumer_thread(
                    input_queue.clone(),
                    empty_condition.clone(),
                    full_condition.clone(),
                    timeout,
                    notify_style,
                    output_vec.clone(),
                    max_queue_size,
                )
            })
            .collect::<Vec<_>>();
        let producers = (0..num_producers)
            .map(|_| {
                producer_thread(
                    messages_per_producer,
                    input_queue.clone(),
                    empty_condition.clone(),
                    full_condition.clone(),
                    timeout,
                    notify_style,
                    max_queue_size,
                )
            })
            .collect::<Vec<_>>();

        thread::sleep(delay);

        for producer in producers.into_iter() {
            producer.join().expect("Producer thread panicked");
        }

        {
            let mut input_queue = input_queue.lock();
            input_queue.should_continue = false;
        }
        empty_condition.notify_all();

        for consumer in consumers.into_iter() {
            consumer.join().expect("Consumer thread panicked");
        }

        let mut output_vec = output_vec.lock();
        assert_eq!(output_vec.len(), num_producers * messages_per_producer);
        output_vec.sort();
        for msg_idx in 0..messages_per_producer {
            for producer_idx in 0..num_producers {
                assert_eq!(msg_idx, output_vec[msg_idx * num_producers + producer_idx]);
            }
        }
    }

    fn consumer_thread(
        input_queue: Arc<Mutex<Queue>>,
        empty_condition: Arc<Condvar>,
        full_condition: Arc<Condvar>,
        timeout: Timeout,
        notify_style: NotifyStyle,
        output_queue: Arc<Mutex<Vec<usize>>>,
        max_queue_size: usize,
    ) -> thread::JoinHandle<()> {
        thread::spawn(move || loop {
            let (should_notify, result) = {
                let mut queue = input_queue.lock();
                wait(
                    &empty_condition,
                    &mut queue,
                    |state| -> bool { !state.items.is_empty() || !state.should_continue },
                    &timeout,
                );
                if queue.items.is_empty() && !queue.should_continue {
                    return;
                }
                let should_notify = queue.items.len() == max_queue_size;
                let result = queue.items.pop_front();
                std::mem::drop(queue);
                (should_notify, result)
            };
            notify(notify_style, &full_condition, should_notify);

            if let Some(result) = result {
                output_queue.lock().push(result);
            }
        })
    }

    fn producer_thread(
        num_messages: usize,
        queue: Arc<Mutex<Queue>>,
        empty_condition: Arc<Condvar>,
        full_condition: Arc<Condvar>,
        timeout: Timeout,
        notify_style: NotifyStyle,
        max_queue_size: usize,
    ) -> thread::JoinHandle<()> {
        thread::spawn(move || {
            for message in 0..num_messages {
                let should_notify = {
                    let mut queue = queue.lock();
                    wait(
                        &full_condition,
                        &mut queue,
                        |state| state.items.len() < max_queue_size,
                        &timeout,
                    );
                    let should_notify = queue.items.is_empty();
                    queue.items.push_back(message);
                    std::mem::drop(queue);
                    should_notify
                };
                notify(notify_style, &empty_condition, should_notify);
            }
        })
    }

    macro_rules! run_queue_tests {
        ( $( $name:ident(
            num_producers: $num_producers:expr,
            num_consumers: $num_consumers:expr,
            max_queue_size: $max_queue_size:expr,
            messages_per_producer: $messages_per_producer:expr,
            notification_style: $notification_style:expr,
            timeout: $timeout:expr,
            delay_seconds: $delay_seconds:expr);
        )* ) => {
            $(#[test]
            fn $name() {
                let delay = Duration::from_secs($delay_seconds);
                run_queue_test(
                    $num_producers,
                    $num_consumers,
                    $max_queue_size,
                    $messages_per_producer,
                    $notification_style,
                    $timeout,
                    delay,
                    );
            })*
        };
    }

    run_queue_tests! {
        sanity_check_queue(
            num_producers: 1,
            num_consumers: 1,
            max_queue_size: 1,
            messages_per_producer: 100_000,
            notification_style: NotifyStyle::All,
            timeout: Timeout::Bounded(Duration::from_secs(1)),
            delay_seconds: 0
        );
        sanity_check_queue_timeout(
            num_producers: 1,
            num_consumers: 1,
            max_queue_size: 1,
            messages_per_producer: 100_000,
            notification_style: NotifyStyle::All,
            timeout: Timeout::Forever,
            delay_seconds: 0
        );
        new_test_without_timeout_5(
            num_producers: 1,
            num_consumers: 5,
            max_queue_size: 1,
            messages_per_producer: 100_000,
            notification_style: NotifyStyle::All,
            timeout: Timeout::Forever,
            delay_seconds: 0
        );
        one_producer_one_consumer_one_slot(
            num_producers: 1,
            num_consumers: 1,
            max_queue_size: 1,
            messages_per_producer: 100_000,
            notification_style: NotifyStyle::All,
            timeout: Timeout::Forever,
            delay_seconds: 0
        );
        one_producer_one_consumer_one_slot_timeout(
            num_producers: 1,
            num_consumers: 1,
            max_queue_size: 1,
            messages_per_producer: 100_000,
            notification_style: NotifyStyle::All,
            timeout: Timeout::Forever,
            delay_seconds: 1
        );
        one_producer_one_consumer_hundred_slots(
            num_producers: 1,
            num_consumers: 1,
            max_queue_size: 100,
            messages_per_producer: 1_000_000,
            notification_style: NotifyStyle::All,
            timeout: Timeout::Forever,
            delay_seconds: 0
        );
        ten_producers_one_consumer_one_slot(
            num_producers: 10,
            num_consumers: 1,
            max_queue_size: 1,
            messages_per_producer: 10000,
            notification_style: NotifyStyle::All,
            timeout: Timeout::Forever,
            delay_seconds: 0
        );
        ten_producers_one_consumer_hundred_slots_notify_all(
            num_producers: 10,
            num_consumers: 1,
            max_queue_size: 100,
            messages_per_producer: 10000,
            notification_style: NotifyStyle::All,
            timeout: Timeout::Forever,
            delay_seconds: 0
        );
        ten_producers_one_consumer_hundred_slots_notify_one(
            num_producers: 10,
            num_consumers: 1,
            max_queue_size: 100,
            messages_per_producer: 10000,
            notification_style: NotifyStyle::One,
            timeout: Timeout::Forever,
            delay_seconds: 0
        );
        one_producer_ten_consumers_one_slot(
            num_producers: 1,
            num_consumers: 10,
            max_queue_size: 1,
            messages_per_producer: 10000,
            notification_style: NotifyStyle::All,
            timeout: Timeout::Forever,
            delay_seconds: 0
        );
        one_producer_ten_consumers_hundred_slots_notify_all(
            num_producers: 1,
            num_consumers: 10,
            max_queue_size: 100,
            messages_per_producer: 100_000,
            notification_style: NotifyStyle::All,
            timeout: Timeout::Forever,
            delay_seconds: 0
        );
        one_producer_ten_consumers_hundred_slots_notify_one(
            num_producers: 1,
            num_consumers: 10,
            max_queue_size: 100,
            messages_per_producer: 100_000,
            notification_style: NotifyStyle::One,
            timeout: Timeout::Forever,
            delay_seconds: 0
        );
        ten_producers_ten_consumers_one_slot(
            num_producers: 10,
            num_consumers: 10,
            max_queue_size: 1,
            messages_per_producer: 50000,
            notification_style: NotifyStyle::All,
            timeout: Timeout::Forever,
            delay_seconds: 0
        );
        ten_producers_ten_consumers_hundred_slots_notify_all(
            num_producers: 10,
            num_consumers: 10,
            max_queue_size: 100,
            messages_per_producer: 50000,
            notification_style: NotifyStyle::All,
            timeout: Timeout::Forever,
            delay_seconds: 0
        );
        ten_producers_ten_consumers_hundred_slots_notify_one(
            num_producers: 10,
            num_consumers: 10,
            max_queue_size: 100,
            messages_per_producer: 50000,
            notification_style: NotifyStyle::One,
            timeout: Timeout::Forever,
            delay_seconds: 0
        );
    }
}
