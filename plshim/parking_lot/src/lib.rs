// Copyright 2016 Amanieu d'Antras
//
// Licensed under the Apache License, Version 2.0, <LICENSE-APACHE or
// http://apache.org/licenses/LICENSE-2.0> or the MIT license <LICENSE-MIT or
// http://opensource.org/licenses/MIT>, at your option. This file may not be
// copied, modified, or distributed except according to those terms.

//! This library provides implementations of `Mutex`, `RwLock`, `Condvar` and
//! `Once` that are smaller, faster and more flexible than those in the Rust
//! standard library. It also provides a `ReentrantMutex` type.

#![warn(missing_docs)]
#![warn(rust_2018_idioms)]

mod condvar;
mod elision;
mod fair_mutex;
mod mutex;
mod once;
mod raw_fair_mutex;
mod raw_mutex;
mod raw_rwlock;
mod remutex;
mod rwlock;
mod util;
pub mod verif;

#[cfg(feature = "deadlock_detection")]
pub mod deadlock;
#[cfg(not(feature = "deadlock_detection"))]
mod deadlock;

// If deadlock detection is enabled, we cannot allow lock guards to be sent to
// other threads.
#[cfg(all(feature = "send_guard", feature = "deadlock_detection"))]
compile_error!("the `send_guard` and `deadlock_detection` features cannot be used together");
#[cfg(feature = "send_guard")]
type GuardMarker = lock_api::GuardSend;
#[cfg(not(feature = "send_guard"))]
type GuardMarker = lock_api::GuardNoSend;

pub use self::condvar::{Condvar, WaitTimeoutResult};
pub use self::fair_mutex::{const_fair_mutex, FairMutex, FairMutexGuard, MappedFairMutexGuard};
pub use self::mutex::{const_mutex, MappedMutexGuard, Mutex, MutexGuard};
pub use self::once::{Once, OnceState};
pub use self::raw_fair_mutex::RawFairMutex;
pub use self::verif::RawMutex;
pub use self::verif::RawRwLock;
pub use self::remutex::{
    const_reentrant_mutex, MappedReentrantMutexGuard, RawThreadId, ReentrantMutex,
    ReentrantMutexGuard,
};
pub use self::rwlock::{
    const_rwlock, MappedRwLockReadGuard, MappedRwLockWriteGuard, RwLock, RwLockReadGuard,
    RwLockUpgradableReadGuard, RwLockWriteGuard,
};
pub use ::lock_api;

#[cfg(feature = "arc_lock")]
pub use self::lock_api::{
    ArcMutexGuard, ArcReentrantMutexGuard, ArcRwLockReadGuard, ArcRwLockUpgradableReadGuard,
    ArcRwLockWriteGuard,
};
