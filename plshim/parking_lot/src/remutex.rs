// Copyright 2016 Amanieu d'Antras
//
// Licensed under the Apache License, Version 2.0, <LICENSE-APACHE or
// http://apache.org/licenses/LICENSE-2.0> or the MIT license <LICENSE-MIT or
// http://opensource.org/licenses/MIT>, at your option. This file may not be
// copied, modified, or distributed except according to those terms.

use crate::raw_mutex::RawMutex;
use core::num::NonZeroUsize;
use lock_api::{self, GetThreadId};

/// Implementation of the `GetThreadId` trait for `lock_api::ReentrantMutex`.
pub struct RawThreadId;

unsafe impl GetThreadId for RawThreadId {
    const INIT: RawThreadId = RawThreadId;

    fn nonzero_thread_id(&self) -> NonZeroUsize {
        // The address of a thread-local variable is guaranteed to be unique to the
        // current thread, and is also guaranteed to be non-zero. The variable has to have a
        // non-zero size to guarantee it has a unique address for each thread.
        thread_local!(static KEY: u8 = 0);
        KEY.with(|x| {
            NonZeroUsize::new(x as *const _ as usize)
                .expect("thread-local variable address is null")
        })
    }
}

/// A mutex which can be recursively locked by a single thread.
///
/// This type is identical to `Mutex` except for the following points:
///
/// - Locking multiple times from the same thread will work correctly instead of
///   deadlocking.
/// - `ReentrantMutexGuard` does not give mutable references to the locked data.
///   Use a `RefCell` if you need this.
///
/// See [`Mutex`](crate::Mutex) for more details about the underlying mutex
/// primitive.
pub type ReentrantMutex<T> = lock_api::ReentrantMutex<RawMutex, RawThreadId, T>;

/// Creates a new reentrant mutex in an unlocked state ready for use.
///
/// This allows creating a reentrant mutex in a constant context on stable Rust.
pub const fn const_reentrant_mutex<T>(val: T) -> ReentrantMutex<T> {
    ReentrantMutex::const_new(
        <RawMutex as lock_api::RawMutex>::INIT,
        <RawThreadId as lock_api::GetThreadId>::INIT,
        val,
    )
}

/// An RAII implementation of a "scoped lock" of a reentrant mutex. When this structure
/// is dropped (falls out of scope), the lock will be unlocked.
///
/// The data protected by the mutex can be accessed through this guard via its
/// `Deref` implementation.
pub type ReentrantMutexGuard<'a, T> = lock_api::ReentrantMutexGuard<'a, RawMutex, RawThreadId, T>;

/// An RAII mutex guard returned by `ReentrantMutexGuard::map`, which can point to a
/// subfield of the protected data.
///
/// The main difference between `MappedReentrantMutexGuard` and `ReentrantMutexGuard` is that the
/// former doesn't support temporarily unlocking and re-locking, since that
/// could introduce soundness issues if the locked object is modified by another
/// thread.
pub type MappedReentrantMutexGuard<'a, T> =
    lock_api::MappedReentrantMutexGuard<'a, RawMutex, RawThreadId, T>;

#[cfg(test)]
mod tests {
    use crate::ReentrantMutex;
    use crate::ReentrantMutexGuard;
    use std::cell::RefCell;
    use std::sync::mpsc::channel;
    use std::sync::Arc;
    use std::thread;

    #[cfg(feature = "serde")]
    use bincode::{deserialize, serialize};

    #[test]
    fn smoke() {
        let m = ReentrantMutex::new(2);
        {
            let a = m.lock();
            {
                let b = m.lock();
                {
                    let c = m.lock();
                    assert_eq!(*c, 2);
                }
                assert_eq!(*b, 2);
            }
            assert_eq!(*a, 2);
        }
    }

    #[test]
    fn is_mutex() {
        let m = Arc::new(ReentrantMutex::new(RefCell::new(0)));
        let m2 = m.clone();
        let lock = m.lock();
        let child = thread::spawn(move || {
            let lock = m2.lock();
            assert_eq!(*lock.borrow(), 4950);
        });
        for i in 0..100 {
            let lock = m.lock();
            *lock.borrow_mut() += i;
        }
        drop(lock);
        child.join().unwrap();
    }

    #[test]
    fn trylock_works() {
        let m = Arc::new(ReentrantMutex::new(()));
        let m2 = m.clone();
        let _lock = m.try_lock();
        let _lock2 = m.try_lock();
        thread::spawn(move || {
            let lock = m2.try_lock();
            assert!(lock.is_none());
        })
        .join()
        .unwrap();
        let _lock3 = m.try_lock();
    }

    #[test]
    fn test_reentrant_mutex_debug() {
        let mutex = ReentrantMutex::new(vec![0u8, 10]);

        assert_eq!(format!("{:?}", mutex), "ReentrantMutex { data: [0, 10] }");
    }

    #[test]
    fn test_reentrant_mutex_bump() {
        let mutex = Arc::new(ReentrantMutex::new(()));
        let mutex2 = mutex.clone();

        let mut guard = mutex.lock();

        let (tx, rx) = channel();

        thread::spawn(move || {
            let _guard = mutex2.lock();
            tx.send(()).unwrap();
        });

        // `bump()` repeatedly until the thread starts up and requests the lock
        while rx.try_recv().is_err() {
            ReentrantMutexGuard::bump(&mut guard);
        }
    }

    #[cfg(feature = "serde")]
    #[test]
    fn test_serde() {
        let contents: Vec<u8> = vec![0, 1, 2];
        let mutex = ReentrantMutex::new(contents.clone());

        let serialized = serialize(&mutex).unwrap();
        let deserialized: ReentrantMutex<Vec<u8>> = deserialize(&serialized).unwrap();

        assert_eq!(*(mutex.lock()), *(deserialized.lock()));
        assert_eq!(contents, *(deserialized.lock()));
    }
}
