// Copyright 2016 Amanieu d'Antras
//
// Licensed under the Apache License, Version 2.0, <LICENSE-APACHE or
// http://apache.org/licenses/LICENSE-2.0> or the MIT license <LICENSE-MIT or
// http://opensource.org/licenses/MIT>, at your option. This file may not be
// copied, modified, or distributed except according to those terms.

use crate::verif::RawMutex;

/// A mutual exclusion primitive useful for protecting shared data
///
/// This mutex will block threads waiting for the lock to become available. The
/// mutex can be statically initialized or created by the `new`
/// constructor. Each mutex has a type parameter which represents the data that
/// it is protecting. The data can only be accessed through the RAII guards
/// returned from `lock` and `try_lock`, which guarantees that the data is only
/// ever accessed when the mutex is locked.
///
/// # Fairness
///
/// A typical unfair lock can often end up in a situation where a single thread
/// quickly acquires and releases the same mutex in succession, which can starve
/// other threads waiting to acquire the mutex. While this improves throughput
/// because it doesn't force a context switch when a thread tries to re-acquire
/// a mutex it has just released, this can starve other threads.
///
/// This mutex uses [eventual fairness](https://trac.webkit.org/changeset/203350)
/// to ensure that the lock will be fair on average without sacrificing
/// throughput. This is done by forcing a fair unlock on average every 0.5ms,
/// which will force the lock to go to the next thread waiting for the mutex.
///
/// Additionally, any critical section longer than 1ms will always use a fair
/// unlock, which has a negligible impact on throughput considering the length
/// of the critical section.
///
/// You can also force a fair unlock by calling `MutexGuard::unlock_fair` when
/// unlocking a mutex instead of simply dropping the `MutexGuard`.
///
/// # Differences from the standard library `Mutex`
///
/// - No poisoning, the lock is released normally on panic.
/// - Only requires 1 byte of space, whereas the standard library boxes the
///   `Mutex` due to platform limitations.
/// - Can be statically constructed.
/// - Does not require any drop glue when dropped.
/// - Inline fast path for the uncontended case.
/// - Efficient handling of micro-contention using adaptive spinning.
/// - Allows raw locking & unlocking without a guard.
/// - Supports eventual fairness so that the mutex is fair on average.
/// - Optionally allows making the mutex fair by calling `MutexGuard::unlock_fair`.
///
/// # Examples
///
/// ```
/// use parking_lot::Mutex;
/// use std::sync::{Arc, mpsc::channel};
/// use std::thread;
///
/// const N: usize = 10;
///
/// // Spawn a few threads to increment a shared variable (non-atomically), and
/// // let the main thread know once all increments are done.
/// //
/// // Here we're using an Arc to share memory among threads, and the data inside
/// // the Arc is protected with a mutex.
/// let data = Arc::new(Mutex::new(0));
///
/// let (tx, rx) = channel();
/// for _ in 0..10 {
///     let (data, tx) = (Arc::clone(&data), tx.clone());
///     thread::spawn(move || {
///         // The shared state can only be accessed once the lock is held.
///         // Our non-atomic increment is safe because we're the only thread
///         // which can access the shared state when the lock is held.
///         let mut data = data.lock();
///         *data += 1;
///         if *data == N {
///             tx.send(()).unwrap();
///         }
///         // the lock is unlocked here when `data` goes out of scope.
///     });
/// }
///
/// rx.recv().unwrap();
/// ```
pub type Mutex<T> = lock_api::Mutex<RawMutex, T>;

/// Creates a new mutex in an unlocked state ready for use.
///
/// This allows creating a mutex in a constant context on stable Rust.
pub const fn const_mutex<T>(val: T) -> Mutex<T> {
    Mutex::const_new(<RawMutex as lock_api::RawMutex>::INIT, val)
}

/// An RAII implementation of a "scoped lock" of a mutex. When this structure is
/// dropped (falls out of scope), the lock will be unlocked.
///
/// The data protected by the mutex can be accessed through this guard via its
/// `Deref` and `DerefMut` implementations.
pub type MutexGuard<'a, T> = lock_api::MutexGuard<'a, RawMutex, T>;

/// An RAII mutex guard returned by `MutexGuard::map`, which can point to a
/// subfield of the protected data.
///
/// The main difference between `MappedMutexGuard` and `MutexGuard` is that the
/// former doesn't support temporarily unlocking and re-locking, since that
/// could introduce soundness issues if the locked object is modified by another
/// thread.
pub type MappedMutexGuard<'a, T> = lock_api::MappedMutexGuard<'a, RawMutex, T>;

#[cfg(test)]
mod tests {
    use crate::{Condvar, MappedMutexGuard, Mutex, MutexGuard};
    use std::collections::HashMap;
    use std::ops::Deref;
    use std::sync::atomic::{AtomicUsize, Ordering};
    use std::sync::mpsc::channel;
    use std::sync::Arc;
    use std::thread;

    #[cfg(feature = "serde")]
    use bincode::{deserialize, serialize};

    struct Packet<T>(Arc<(Mutex<T>, Condvar)>);

    #[derive(Eq, PartialEq, Debug)]
    struct NonCopy(i32);

    unsafe impl<T: Send> Send for Packet<T> {}
    unsafe impl<T> Sync for Packet<T> {}

    #[test]
    fn smoke() {
        let m = Mutex::new(());
        drop(m.lock());
        drop(m.lock());
    }

    #[test]
    fn lots_and_lots() {
        const J: u32 = 1000;
        const K: u32 = 3;

        let m = Arc::new(Mutex::new(0));

        fn inc(m: &Mutex<u32>) {
            for _ in 0..J {
                *m.lock() += 1;
            }
        }

        let (tx, rx) = channel();
        for _ in 0..K {
            let tx2 = tx.clone();
            let m2 = m.clone();
            thread::spawn(move || {
                inc(&m2);
                tx2.send(()).unwrap();
            });
            let tx2 = tx.clone();
            let m2 = m.clone();
            thread::spawn(move || {
                inc(&m2);
                tx2.send(()).unwrap();
            });
        }

        drop(tx);
        for _ in 0..2 * K {
            rx.recv().unwrap();
        }
        assert_eq!(*m.lock(), J * K * 2);
    }

    #[test]
    fn try_lock() {
        let m = Mutex::new(());
        *m.try_lock().unwrap() = ();
    }

    #[test]
    fn test_into_inner() {
        let m = Mutex::new(NonCopy(10));
        assert_eq!(m.into_inner(), NonCopy(10));
    }

    #[test]
    fn test_into_inner_drop() {
        struct Foo(Arc<AtomicUsize>);
        impl Drop for Foo {
            fn drop(&mut self) {
                self.0.fetch_add(1, Ordering::SeqCst);
            }
        }
        let num_drops = Arc::new(AtomicUsize::new(0));
        let m = Mutex::new(Foo(num_drops.clone()));
        assert_eq!(num_drops.load(Ordering::SeqCst), 0);
        {
            let _inner = m.into_inner();
            assert_eq!(num_drops.load(Ordering::SeqCst), 0);
        }
        assert_eq!(num_drops.load(Ordering::SeqCst), 1);
    }

    #[test]
    fn test_get_mut() {
        let mut m = Mutex::new(NonCopy(10));
        *m.get_mut() = NonCopy(20);
        assert_eq!(m.into_inner(), NonCopy(20));
    }

    #[test]
    fn test_mutex_arc_condvar() {
        let packet = Packet(Arc::new((Mutex::new(false), Condvar::new())));
        let packet2 = Packet(packet.0.clone());
        let (tx, rx) = channel();
        let _t = thread::spawn(move || {
            // wait until parent gets in
            rx.recv().unwrap();
            let (lock, cvar) = &*packet2.0;
            let mut lock = lock.lock();
            *lock = true;
            cvar.notify_one();
        });

        let (lock, cvar) = &*packet.0;
        let mut lock = lock.lock();
        tx.send(()).unwrap();
        assert!(!*lock);
        while !*lock {
            cvar.wait(&mut lock);
        }
    }

    #[test]
    fn test_mutex_arc_nested() {
        // Tests nested mutexes and access
        // to underlying data.
        let arc = Arc::new(Mutex::new(1));
        let arc2 = Arc::new(Mutex::new(arc));
        let (tx, rx) = channel();
        let _t = thread::spawn(move || {
            let lock = arc2.lock();
            let lock2 = lock.lock();
            assert_eq!(*lock2, 1);
            tx.send(()).unwrap();
        });
        rx.recv().unwrap();
    }

    #[test]
    fn test_mutex_arc_access_in_unwind() {
        let arc = Arc::new(Mutex::new(1));
        let arc2 = arc.clone();
        let _ = thread::spawn(move || {
            struct Unwinder {
                i: Arc<Mutex<i32>>,
            }
            impl Drop for Unwinder {
                fn drop(&mut self) {
                    *self.i.lock() += 1;
                }
            }
            let _u = Unwinder { i: arc2 };
            panic!();
        })
        .join();
        let lock = arc.lock();
        assert_eq!(*lock, 2);
    }

    #[test]
    fn test_mutex_unsized() {
        let mutex: &Mutex<[i32]> = &Mutex::new([1, 2, 3]);
        {
            let b = &mut *mutex.lock();
            b[0] = 4;
            b[2] = 5;
        }
        let comp: &[i32] = &[4, 2, 5];
        assert_eq!(&*mutex.lock(), comp);
    }

    #[test]
    fn test_mutexguard_sync() {
        fn sync<T: Sync>(_: T) {}

        let mutex = Mutex::new(());
        sync(mutex.lock());
    }

    #[test]
    fn test_mutex_debug() {
        let mutex = Mutex::new(vec![0u8, 10]);

        assert_eq!(format!("{:?}", mutex), "Mutex { data: [0, 10] }");
        let _lock = mutex.lock();
        assert_eq!(format!("{:?}", mutex), "Mutex { data: <locked> }");
    }

    #[cfg(feature = "serde")]
    #[test]
    fn test_serde() {
        let contents: Vec<u8> = vec![0, 1, 2];
        let mutex = Mutex::new(contents.clone());

        let serialized = serialize(&mutex).unwrap();
        let deserialized: Mutex<Vec<u8>> = deserialize(&serialized).unwrap();

        assert_eq!(*(mutex.lock()), *(deserialized.lock()));
        assert_eq!(contents, *(deserialized.lock()));
    }

    #[test]
    fn test_map_or_err_not_mapped() {
        let mut map = HashMap::new();
        map.insert("hello".to_string(), "world".to_string());

        let mutex = Mutex::new(map);
        let guard = mutex.lock();
        let guard = match MutexGuard::try_map_or_err(guard, |the_map| {
            the_map.get_mut("hello2").ok_or(12345i32)
        }) {
            Ok(_) => unreachable!(),
            Err((guard, data)) => {
                assert_eq!(data, 12345i32);
                assert_eq!(guard.get("hello"), Some(&"world".to_string()));
                guard
            }
        };

        // Lets try again
        let mapped_guard = match MutexGuard::try_map_or_err(guard, |the_map| {
            the_map.get_mut("hello").ok_or("unreachable")
        }) {
            Ok(mapped_guard) => mapped_guard,
            Err((_, _)) => unreachable!(),
        };

        assert_eq!(mapped_guard.as_str(), "world");

        match MappedMutexGuard::try_map_or_err(mapped_guard, |the_string| {
            if the_string != "world" {
                //unreachable
                Ok(the_string.as_mut_str())
            } else {
                Err(45678i32)
            }
        }) {
            Ok(_) => unreachable!(),
            Err((guard, err)) => {
                assert_eq!(guard.as_str(), "world");
                assert_eq!(err, 45678i32);
            }
        };
    }

    #[test]
    fn test_map_or_err_mapped() {
        let mut map = HashMap::new();
        map.insert("hello".to_string(), "world".to_string());

        let mutex = Mutex::new(map);
        let guard = mutex.lock();
        let mapped_guard = match MutexGuard::try_map_or_err(guard, |the_map| {
            the_map.get_mut("hello").ok_or("unreachable")
        }) {
            Ok(mapped_guard) => mapped_guard,
            Err((_, _)) => unreachable!(),
        };

        assert_eq!(mapped_guard.as_str(), "world");

        match MappedMutexGuard::try_map_or_err(mapped_guard, |the_string| {
            if the_string == "world" {
                Ok(the_string.as_mut_str())
            } else {
                Err("unreachable")
            }
        }) {
            Ok(mapped_guard) => assert_eq!(mapped_guard.deref(), "world"),
            Err((_, _)) => unreachable!(),
        };
    }
}
