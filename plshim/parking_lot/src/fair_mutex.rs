// Copyright 2016 Amanieu d'Antras
//
// Licensed under the Apache License, Version 2.0, <LICENSE-APACHE or
// http://apache.org/licenses/LICENSE-2.0> or the MIT license <LICENSE-MIT or
// http://opensource.org/licenses/MIT>, at your option. This file may not be
// copied, modified, or distributed except according to those terms.

use crate::raw_fair_mutex::RawFairMutex;

/// A mutual exclusive primitive that is always fair, useful for protecting shared data
///
/// This mutex will block threads waiting for the lock to become available. The
/// mutex can be statically initialized or created by the `new`
/// constructor. Each mutex has a type parameter which represents the data that
/// it is protecting. The data can only be accessed through the RAII guards
/// returned from `lock` and `try_lock`, which guarantees that the data is only
/// ever accessed when the mutex is locked.
///
/// The regular mutex provided by `parking_lot` uses eventual fairness
/// (after some time it will default to the fair algorithm), but eventual
/// fairness does not provide the same guarantees an always fair method would.
/// Fair mutexes are generally slower, but sometimes needed.
///
/// In a fair mutex the waiters form a queue, and the lock is always granted to
/// the next requester in the queue, in first-in first-out order. This ensures
/// that one thread cannot starve others by quickly re-acquiring the lock after
/// releasing it.
///
/// A fair mutex may not be interesting if threads have different priorities (this is known as
/// priority inversion).
///
/// # Differences from the standard library `Mutex`
///
/// - No poisoning, the lock is released normally on panic.
/// - Only requires 1 byte of space, whereas the standard library boxes the
///   `FairMutex` due to platform limitations.
/// - Can be statically constructed.
/// - Does not require any drop glue when dropped.
/// - Inline fast path for the uncontended case.
/// - Efficient handling of micro-contention using adaptive spinning.
/// - Allows raw locking & unlocking without a guard.
///
/// # Examples
///
/// ```
/// use parking_lot::FairMutex;
/// use std::sync::{Arc, mpsc::channel};
/// use std::thread;
///
/// const N: usize = 10;
///
/// // Spawn a few threads to increment a shared variable (non-atomically), and
/// // let the main thread know once all increments are done.
/// //
/// // Here we're using an Arc to share memory among threads, and the data inside
/// // the Arc is protected with a mutex.
/// let data = Arc::new(FairMutex::new(0));
///
/// let (tx, rx) = channel();
/// for _ in 0..10 {
///     let (data, tx) = (Arc::clone(&data), tx.clone());
///     thread::spawn(move || {
///         // The shared state can only be accessed once the lock is held.
///         // Our non-atomic increment is safe because we're the only thread
///         // which can access the shared state when the lock is held.
///         let mut data = data.lock();
///         *data += 1;
///         if *data == N {
///             tx.send(()).unwrap();
///         }
///         // the lock is unlocked here when `data` goes out of scope.
///     });
/// }
///
/// rx.recv().unwrap();
/// ```
pub type FairMutex<T> = lock_api::Mutex<RawFairMutex, T>;

/// Creates a new fair mutex in an unlocked state ready for use.
///
/// This allows creating a fair mutex in a constant context on stable Rust.
pub const fn const_fair_mutex<T>(val: T) -> FairMutex<T> {
    FairMutex::const_new(<RawFairMutex as lock_api::RawMutex>::INIT, val)
}

/// An RAII implementation of a "scoped lock" of a mutex. When this structure is
/// dropped (falls out of scope), the lock will be unlocked.
///
/// The data protected by the mutex can be accessed through this guard via its
/// `Deref` and `DerefMut` implementations.
pub type FairMutexGuard<'a, T> = lock_api::MutexGuard<'a, RawFairMutex, T>;

/// An RAII mutex guard returned by `FairMutexGuard::map`, which can point to a
/// subfield of the protected data.
///
/// The main difference between `MappedFairMutexGuard` and `FairMutexGuard` is that the
/// former doesn't support temporarily unlocking and re-locking, since that
/// could introduce soundness issues if the locked object is modified by another
/// thread.
pub type MappedFairMutexGuard<'a, T> = lock_api::MappedMutexGuard<'a, RawFairMutex, T>;

#[cfg(test)]
mod tests {
    use crate::FairMutex;
    use std::sync::atomic::{AtomicUsize, Ordering};
    use std::sync::mpsc::channel;
    use std::sync::Arc;
    use std::thread;

    #[cfg(feature = "serde")]
    use bincode::{deserialize, serialize};

    #[derive(Eq, PartialEq, Debug)]
    struct NonCopy(i32);

    #[test]
    fn smoke() {
        let m = FairMutex::new(());
        drop(m.lock());
        drop(m.lock());
    }

    #[test]
    fn lots_and_lots() {
        const J: u32 = 1000;
        const K: u32 = 3;

        let m = Arc::new(FairMutex::new(0));

        fn inc(m: &FairMutex<u32>) {
            for _ in 0..J {
                *m.lock() += 1;
            }
        }

        let (tx, rx) = channel();
        for _ in 0..K {
            let tx2 = tx.clone();
            let m2 = m.clone();
            thread::spawn(move || {
                inc(&m2);
                tx2.send(()).unwrap();
            });
            let tx2 = tx.clone();
            let m2 = m.clone();
            thread::spawn(move || {
                inc(&m2);
                tx2.send(()).unwrap();
            });
        }

        drop(tx);
        for _ in 0..2 * K {
            rx.recv().unwrap();
        }
        assert_eq!(*m.lock(), J * K * 2);
    }

    #[test]
    fn try_lock() {
        let m = FairMutex::new(());
        *m.try_lock().unwrap() = ();
    }

    #[test]
    fn test_into_inner() {
        let m = FairMutex::new(NonCopy(10));
        assert_eq!(m.into_inner(), NonCopy(10));
    }

    #[test]
    fn test_into_inner_drop() {
        struct Foo(Arc<AtomicUsize>);
        impl Drop for Foo {
            fn drop(&mut self) {
                self.0.fetch_add(1, Ordering::SeqCst);
            }
        }
        let num_drops = Arc::new(AtomicUsize::new(0));
        let m = FairMutex::new(Foo(num_drops.clone()));
        assert_eq!(num_drops.load(Ordering::SeqCst), 0);
        {
            let _inner = m.into_inner();
            assert_eq!(num_drops.load(Ordering::SeqCst), 0);
        }
        assert_eq!(num_drops.load(Ordering::SeqCst), 1);
    }

    #[test]
    fn test_get_mut() {
        let mut m = FairMutex::new(NonCopy(10));
        *m.get_mut() = NonCopy(20);
        assert_eq!(m.into_inner(), NonCopy(20));
    }

    #[test]
    fn test_mutex_arc_nested() {
        // Tests nested mutexes and access
        // to underlying data.
        let arc = Arc::new(FairMutex::new(1));
        let arc2 = Arc::new(FairMutex::new(arc));
        let (tx, rx) = channel();
        let _t = thread::spawn(move || {
            let lock = arc2.lock();
            let lock2 = lock.lock();
            assert_eq!(*lock2, 1);
            tx.send(()).unwrap();
        });
        rx.recv().unwrap();
    }

    #[test]
    fn test_mutex_arc_access_in_unwind() {
        let arc = Arc::new(FairMutex::new(1));
        let arc2 = arc.clone();
        let _ = thread::spawn(move || {
            struct Unwinder {
                i: Arc<FairMutex<i32>>,
            }
            impl Drop for Unwinder {
                fn drop(&mut self) {
                    *self.i.lock() += 1;
                }
            }
            let _u = Unwinder { i: arc2 };
            panic!();
        })
        .join();
        let lock = arc.lock();
        assert_eq!(*lock, 2);
    }

    #[test]
    fn test_mutex_unsized() {
        let mutex: &FairMutex<[i32]> = &FairMutex::new([1, 2, 3]);
        {
            let b = &mut *mutex.lock();
            b[0] = 4;
            b[2] = 5;
        }
        let comp: &[i32] = &[4, 2, 5];
        assert_eq!(&*mutex.lock(), comp);
    }

    #[test]
    fn test_mutexguard_sync() {
        fn sync<T: Sync>(_: T) {}

        let mutex = FairMutex::new(());
        sync(mutex.lock());
    }

    #[test]
    fn test_mutex_debug() {
        let mutex = FairMutex::new(vec![0u8, 10]);

        assert_eq!(format!("{:?}", mutex), "Mutex { data: [0, 10] }");
        let _lock = mutex.lock();
        assert_eq!(format!("{:?}", mutex), "Mutex { data: <locked> }");
    }

    #[cfg(feature = "serde")]
    #[test]
    fn test_serde() {
        let contents: Vec<u8> = vec![0, 1, 2];
        let mutex = FairMutex::new(contents.clone());

        let serialized = serialize(&mutex).unwrap();
        let deserialized: FairMutex<Vec<u8>> = deserialize(&serialized).unwrap();

        assert_eq!(*(mutex.lock()), *(deserialized.lock()));
        assert_eq!(contents, *(deserialized.lock()));
    }
}
