// Copyright 2016 Amanieu d'Antras
//
// Licensed under the Apache License, Version 2.0, <LICENSE-APACHE or
// http://apache.org/licenses/LICENSE-2.0> or the MIT license <LICENSE-MIT or
// http://opensource.org/licenses/MIT>, at your option. This file may not be
// copied, modified, or distributed except according to those terms.

use std::time::{Duration, Instant};

// Option::unchecked_unwrap
pub trait UncheckedOptionExt<T> {
    unsafe fn unchecked_unwrap(self) -> T;
}

impl<T> UncheckedOptionExt<T> for Option<T> {
    #[inline]
    unsafe fn unchecked_unwrap(self) -> T {
        match self {
            Some(x) => x,
            None => unreachable(),
        }
    }
}

// hint::unreachable_unchecked() in release mode
#[inline]
unsafe fn unreachable() -> ! {
    if cfg!(debug_assertions) {
        unreachable!();
    } else {
        core::hint::unreachable_unchecked()
    }
}

#[inline]
pub fn to_deadline(timeout: Duration) -> Option<Instant> {
    Instant::now().checked_add(timeout)
}
