// Copyright 2016 Amanieu d'Antras
//
// Licensed under the Apache License, Version 2.0, <LICENSE-APACHE or
// http://apache.org/licenses/LICENSE-2.0> or the MIT license <LICENSE-MIT or
// http://opensource.org/licenses/MIT>, at your option. This file may not be
// copied, modified, or distributed except according to those terms.

use crate::elision::{have_elision, AtomicElisionExt};
use crate::raw_mutex::{TOKEN_HANDOFF, TOKEN_NORMAL};
use crate::util;
use core::{
    cell::Cell,
    sync::atomic::{AtomicUsize, Ordering},
};
use lock_api::{RawRwLock as RawRwLock_, RawRwLockUpgrade};
use parking_lot_core::{
    self, deadlock, FilterOp, ParkResult, ParkToken, SpinWait, UnparkResult, UnparkToken,
};
use std::time::{Duration, Instant};

// This reader-writer lock implementation is based on Boost's upgrade_mutex:
// https://github.com/boostorg/thread/blob/fc08c1fe2840baeeee143440fba31ef9e9a813c8/include/boost/thread/v2/shared_mutex.hpp#L432
//
// This implementation uses 2 wait queues, one at key [addr] and one at key
// [addr + 1]. The primary queue is used for all new waiting threads, and the
// secondary queue is used by the thread which has acquired WRITER_BIT but is
// waiting for the remaining readers to exit the lock.
//
// This implementation is fair between readers and writers since it uses the
// order in which threads first started queuing to alternate between read phases
// and write phases. In particular is it not vulnerable to write starvation
// since readers will block if there is a pending writer.

// There is at least one thread in the main queue.
const PARKED_BIT: usize = 0b0001;
// There is a parked thread holding WRITER_BIT. WRITER_BIT must be set.
const WRITER_PARKED_BIT: usize = 0b0010;
// A reader is holding an upgradable lock. The reader count must be non-zero and
// WRITER_BIT must not be set.
const UPGRADABLE_BIT: usize = 0b0100;
// If the reader count is zero: a writer is currently holding an exclusive lock.
// Otherwise: a writer is waiting for the remaining readers to exit the lock.
const WRITER_BIT: usize = 0b1000;
// Mask of bits used to count readers.
const READERS_MASK: usize = !0b1111;
// Base unit for counting readers.
const ONE_READER: usize = 0b10000;

// Token indicating what type of lock a queued thread is trying to acquire
const TOKEN_SHARED: ParkToken = ParkToken(ONE_READER);
const TOKEN_EXCLUSIVE: ParkToken = ParkToken(WRITER_BIT);
const TOKEN_UPGRADABLE: ParkToken = ParkToken(ONE_READER | UPGRADABLE_BIT);

/// Raw reader-writer lock type backed by the parking lot.
pub struct RawRwLock {
    state: AtomicUsize,
}

unsafe impl lock_api::RawRwLock for RawRwLock {
    const INIT: RawRwLock = RawRwLock {
        state: AtomicUsize::new(0),
    };

    type GuardMarker = crate::GuardMarker;

    #[inline]
    fn lock_exclusive(&self) {
        if self
            .state
            .compare_exchange_weak(0, WRITER_BIT, Ordering::Acquire, Ordering::Relaxed)
            .is_err()
        {
            let result = self.lock_exclusive_slow(None);
            debug_assert!(result);
        }
        self.deadlock_acquire();
    }

    #[inline]
    fn try_lock_exclusive(&self) -> bool {
        if self
            .state
            .compare_exchange(0, WRITER_BIT, Ordering::Acquire, Ordering::Relaxed)
            .is_ok()
        {
            self.deadlock_acquire();
            true
        } else {
            false
        }
    }

    #[inline]
    unsafe fn unlock_exclusive(&self) {
        self.deadlock_release();
        if self
            .state
            .compare_exchange(WRITER_BIT, 0, Ordering::Release, Ordering::Relaxed)
            .is_ok()
        {
            return;
        }
        self.unlock_exclusive_slow(false);
    }

    #[inline]
    fn lock_shared(&self) {
        if !self.try_lock_shared_fast(false) {
            let result = self.lock_shared_slow(false, None);
            debug_assert!(result);
        }
        self.deadlock_acquire();
    }

    #[inline]
    fn try_lock_shared(&self) -> bool {
        let result = if self.try_lock_shared_fast(false) {
            true
        } else {
            self.try_lock_shared_slow(false)
        };
        if result {
            self.deadlock_acquire();
        }
        result
    }

    #[inline]
    unsafe fn unlock_shared(&self) {
        self.deadlock_release();
        let state = if have_elision() {
            self.state.elision_fetch_sub_release(ONE_READER)
        } else {
            self.state.fetch_sub(ONE_READER, Ordering::Release)
        };
        if state & (READERS_MASK | WRITER_PARKED_BIT) == (ONE_READER | WRITER_PARKED_BIT) {
            self.unlock_shared_slow();
        }
    }

    #[inline]
    fn is_locked(&self) -> bool {
        let state = self.state.load(Ordering::Relaxed);
        state & (WRITER_BIT | READERS_MASK) != 0
    }

    #[inline]
    fn is_locked_exclusive(&self) -> bool {
        let state = self.state.load(Ordering::Relaxed);
        state & (WRITER_BIT) != 0
    }
}

unsafe impl lock_api::RawRwLockFair for RawRwLock {
    #[inline]
    unsafe fn unlock_shared_fair(&self) {
        // Shared unlocking is always fair in this implementation.
        self.unlock_shared();
    }

    #[inline]
    unsafe fn unlock_exclusive_fair(&self) {
        self.deadlock_release();
        if self
            .state
            .compare_exchange(WRITER_BIT, 0, Ordering::Release, Ordering::Relaxed)
            .is_ok()
        {
            return;
        }
        self.unlock_exclusive_slow(true);
    }

    #[inline]
    unsafe fn bump_shared(&self) {
        if self.state.load(Ordering::Relaxed) & WRITER_BIT != 0 {
            self.bump_shared_slow();
        }
    }

    #[inline]
    unsafe fn bump_exclusive(&self) {
        if self.state.load(Ordering::Relaxed) & PARKED_BIT != 0 {
            self.bump_exclusive_slow();
        }
    }
}

unsafe impl lock_api::RawRwLockDowngrade for RawRwLock {
    #[inline]
    unsafe fn downgrade(&self) {
        let state = self
            .state
            .fetch_add(ONE_READER - WRITER_BIT, Ordering::Release);

        // Wake up parked shared and upgradable threads if there are any
        if state & PARKED_BIT != 0 {
            self.downgrade_slow();
        }
    }
}

unsafe impl lock_api::RawRwLockTimed for RawRwLock {
    type Duration = Duration;
    type Instant = Instant;

    #[inline]
    fn try_lock_shared_for(&self, timeout: Self::Duration) -> bool {
        let result = if self.try_lock_shared_fast(false) {
            true
        } else {
            self.lock_shared_slow(false, util::to_deadline(timeout))
        };
        if result {
            self.deadlock_acquire();
        }
        result
    }

    #[inline]
    fn try_lock_shared_until(&self, timeout: Self::Instant) -> bool {
        let result = if self.try_lock_shared_fast(false) {
            true
        } else {
            self.lock_shared_slow(false, Some(timeout))
        };
        if result {
            self.deadlock_acquire();
        }
        result
    }

    #[inline]
    fn try_lock_exclusive_for(&self, timeout: Duration) -> bool {
        let result = if self
            .state
            .compare_exchange_weak(0, WRITER_BIT, Ordering::Acquire, Ordering::Relaxed)
            .is_ok()
        {
            true
        } else {
            self.lock_exclusive_slow(util::to_deadline(timeout))
        };
        if result {
            self.deadlock_acquire();
        }
        result
    }

    #[inline]
    fn try_lock_exclusive_until(&self, timeout: Instant) -> bool {
        let result = if self
            .state
            .compare_exchange_weak(0, WRITER_BIT, Ordering::Acquire, Ordering::Relaxed)
            .is_ok()
        {
            true
        } else {
            self.lock_exclusive_slow(Some(timeout))
        };
        if result {
            self.deadlock_acquire();
        }
        result
    }
}

unsafe impl lock_api::RawRwLockRecursive for RawRwLock {
    #[inline]
    fn lock_shared_recursive(&self) {
        if !self.try_lock_shared_fast(true) {
            let result = self.lock_shared_slow(true, None);
            debug_assert!(result);
        }
        self.deadlock_acquire();
    }

    #[inline]
    fn try_lock_shared_recursive(&self) -> bool {
        let result = if self.try_lock_shared_fast(true) {
            true
        } else {
            self.try_lock_shared_slow(true)
        };
        if result {
            self.deadlock_acquire();
        }
        result
    }
}

unsafe impl lock_api::RawRwLockRecursiveTimed for RawRwLock {
    #[inline]
    fn try_lock_shared_recursive_for(&self, timeout: Self::Duration) -> bool {
        let result = if self.try_lock_shared_fast(true) {
            true
        } else {
            self.lock_shared_slow(true, util::to_deadline(timeout))
        };
        if result {
            self.deadlock_acquire();
        }
        result
    }

    #[inline]
    fn try_lock_shared_recursive_until(&self, timeout: Self::Instant) -> bool {
        let result = if self.try_lock_shared_fast(true) {
            true
        } else {
            self.lock_shared_slow(true, Some(timeout))
        };
        if result {
            self.deadlock_acquire();
        }
        result
    }
}

unsafe impl lock_api::RawRwLockUpgrade for RawRwLock {
    #[inline]
    fn lock_upgradable(&self) {
        if !self.try_lock_upgradable_fast() {
            let result = self.lock_upgradable_slow(None);
            debug_assert!(result);
        }
        self.deadlock_acquire();
    }

    #[inline]
    fn try_lock_upgradable(&self) -> bool {
        let result = if self.try_lock_upgradable_fast() {
            true
        } else {
            self.try_lock_upgradable_slow()
        };
        if result {
            self.deadlock_acquire();
        }
        result
    }

    #[inline]
    unsafe fn unlock_upgradable(&self) {
        self.deadlock_release();
        let state = self.state.load(Ordering::Relaxed);
        #[allow(clippy::collapsible_if)]
        if state & PARKED_BIT == 0 {
            if self
                .state
                .compare_exchange_weak(
                    state,
                    state - (ONE_READER | UPGRADABLE_BIT),
                    Ordering::Release,
                    Ordering::Relaxed,
                )
                .is_ok()
            {
                return;
            }
        }
        self.unlock_upgradable_slow(false);
    }

    #[inline]
    unsafe fn upgrade(&self) {
        let state = self.state.fetch_sub(
            (ONE_READER | UPGRADABLE_BIT) - WRITER_BIT,
            Ordering::Acquire,
        );
        if state & READERS_MASK != ONE_READER {
            let result = self.upgrade_slow(None);
            debug_assert!(result);
        }
    }

    #[inline]
    unsafe fn try_upgrade(&self) -> bool {
        if self
            .state
            .compare_exchange_weak(
                ONE_READER | UPGRADABLE_BIT,
                WRITER_BIT,
                Ordering::Acquire,
                Ordering::Relaxed,
            )
            .is_ok()
        {
            true
        } else {
            self.try_upgrade_slow()
        }
    }
}

unsafe impl lock_api::RawRwLockUpgradeFair for RawRwLock {
    #[inline]
    unsafe fn unlock_upgradable_fair(&self) {
        self.deadlock_release();
        let state = self.state.load(Ordering::Relaxed);
        #[allow(clippy::collapsible_if)]
        if state & PARKED_BIT == 0 {
            if self
                .state
                .compare_exchange_weak(
                    state,
                    state - (ONE_READER | UPGRADABLE_BIT),
                    Ordering::Release,
                    Ordering::Relaxed,
                )
                .is_ok()
            {
                return;
            }
        }
        self.unlock_upgradable_slow(false);
    }

    #[inline]
    unsafe fn bump_upgradable(&self) {
        if self.state.load(Ordering::Relaxed) & PARKED_BIT != 0 {
            self.bump_upgradable_slow();
        }
    }
}

unsafe impl lock_api::RawRwLockUpgradeDowngrade for RawRwLock {
    #[inline]
    unsafe fn downgrade_upgradable(&self) {
        let state = self.state.fetch_sub(UPGRADABLE_BIT, Ordering::Relaxed);

        // Wake up parked upgradable threads if there are any
        if state & PARKED_BIT != 0 {
            self.downgrade_slow();
        }
    }

    #[inline]
    unsafe fn downgrade_to_upgradable(&self) {
        let state = self.state.fetch_add(
            (ONE_READER | UPGRADABLE_BIT) - WRITER_BIT,
            Ordering::Release,
        );

        // Wake up parked shared threads if there are any
        if state & PARKED_BIT != 0 {
            self.downgrade_to_upgradable_slow();
        }
    }
}

unsafe impl lock_api::RawRwLockUpgradeTimed for RawRwLock {
    #[inline]
    fn try_lock_upgradable_until(&self, timeout: Instant) -> bool {
        let result = if self.try_lock_upgradable_fast() {
            true
        } else {
            self.lock_upgradable_slow(Some(timeout))
        };
        if result {
            self.deadlock_acquire();
        }
        result
    }

    #[inline]
    fn try_lock_upgradable_for(&self, timeout: Duration) -> bool {
        let result = if self.try_lock_upgradable_fast() {
            true
        } else {
            self.lock_upgradable_slow(util::to_deadline(timeout))
        };
        if result {
            self.deadlock_acquire();
        }
        result
    }

    #[inline]
    unsafe fn try_upgrade_until(&self, timeout: Instant) -> bool {
        let state = self.state.fetch_sub(
            (ONE_READER | UPGRADABLE_BIT) - WRITER_BIT,
            Ordering::Relaxed,
        );
        if state & READERS_MASK == ONE_READER {
            true
        } else {
            self.upgrade_slow(Some(timeout))
        }
    }

    #[inline]
    unsafe fn try_upgrade_for(&self, timeout: Duration) -> bool {
        let state = self.state.fetch_sub(
            (ONE_READER | UPGRADABLE_BIT) - WRITER_BIT,
            Ordering::Relaxed,
        );
        if state & READERS_MASK == ONE_READER {
            true
        } else {
            self.upgrade_slow(util::to_deadline(timeout))
        }
    }
}

impl RawRwLock {
    #[inline(always)]
    fn try_lock_shared_fast(&self, recursive: bool) -> bool {
        let state = self.state.load(Ordering::Relaxed);

        // We can't allow grabbing a shared lock if there is a writer, even if
        // the writer is still waiting for the remaining readers to exit.
        if state & WRITER_BIT != 0 {
            // To allow recursive locks, we make an exception and allow readers
            // to skip ahead of a pending writer to avoid deadlocking, at the
            // cost of breaking the fairness guarantees.
            if !recursive || state & READERS_MASK == 0 {
                return false;
            }
        }

        // Use hardware lock elision to avoid cache conflicts when multiple
        // readers try to acquire the lock. We only do this if the lock is
        // completely empty since elision handles conflicts poorly.
        if have_elision() && state == 0 {
            self.state
                .elision_compare_exchange_acquire(0, ONE_READER)
                .is_ok()
        } else if let Some(new_state) = state.checked_add(ONE_READER) {
            self.state
                .compare_exchange_weak(state, new_state, Ordering::Acquire, Ordering::Relaxed)
                .is_ok()
        } else {
            false
        }
    }

    #[cold]
    fn try_lock_shared_slow(&self, recursive: bool) -> bool {
        let mut state = self.state.load(Ordering::Relaxed);
        loop {
            // This mirrors the condition in try_lock_shared_fast
            #[allow(clippy::collapsible_if)]
            if state & WRITER_BIT != 0 {
                if !recursive || state & READERS_MASK == 0 {
                    return false;
                }
            }
            if have_elision() && state == 0 {
                match self.state.elision_compare_exchange_acquire(0, ONE_READER) {
                    Ok(_) => return true,
                    Err(x) => state = x,
                }
            } else {
                match self.state.compare_exchange_weak(
                    state,
                    state
                        .checked_add(ONE_READER)
                        .expect("RwLock reader count overflow"),
                    Ordering::Acquire,
                    Ordering::Relaxed,
                ) {
                    Ok(_) => return true,
                    Err(x) => state = x,
                }
            }
        }
    }

    #[inline(always)]
    fn try_lock_upgradable_fast(&self) -> bool {
        let state = self.state.load(Ordering::Relaxed);

        // We can't grab an upgradable lock if there is already a writer or
        // upgradable reader.
        if state & (WRITER_BIT | UPGRADABLE_BIT) != 0 {
            return false;
        }

        if let Some(new_state) = state.checked_add(ONE_READER | UPGRADABLE_BIT) {
            self.state
                .compare_exchange_weak(state, new_state, Ordering::Acquire, Ordering::Relaxed)
                .is_ok()
        } else {
            false
        }
    }

    #[cold]
    fn try_lock_upgradable_slow(&self) -> bool {
        let mut state = self.state.load(Ordering::Relaxed);
        loop {
            // This mirrors the condition in try_lock_upgradable_fast
            if state & (WRITER_BIT | UPGRADABLE_BIT) != 0 {
                return false;
            }

            match self.state.compare_exchange_weak(
                state,
                state
                    .checked_add(ONE_READER | UPGRADABLE_BIT)
                    .expect("RwLock reader count overflow"),
                Ordering::Acquire,
                Ordering::Relaxed,
            ) {
                Ok(_) => return true,
                Err(x) => state = x,
            }
        }
    }

    #[cold]
    fn lock_exclusive_slow(&self, timeout: Option<Instant>) -> bool {
        let try_lock = |state: &mut usize| {
            loop {
                if *state & (WRITER_BIT | UPGRADABLE_BIT) != 0 {
                    return false;
                }

                // Grab WRITER_BIT if it isn't set, even if there are parked threads.
                match self.state.compare_exchange_weak(
                    *state,
                    *state | WRITER_BIT,
                    Ordering::Acquire,
                    Ordering::Relaxed,
                ) {
                    Ok(_) => return true,
                    Err(x) => *state = x,
                }
            }
        };

        // Step 1: grab exclusive ownership of WRITER_BIT
        let timed_out = !self.lock_common(
            timeout,
            TOKEN_EXCLUSIVE,
            try_lock,
            WRITER_BIT | UPGRADABLE_BIT,
        );
        if timed_out {
            return false;
        }

        // Step 2: wait for all remaining readers to exit the lock.
        self.wait_for_readers(timeout, 0)
    }

    #[cold]
    fn unlock_exclusive_slow(&self, force_fair: bool) {
        // There are threads to unpark. Try to unpark as many as we can.
        let callback = |mut new_state, result: UnparkResult| {
            // If we are using a fair unlock then we should keep the
            // rwlock locked and hand it off to the unparked threads.
            if result.unparked_threads != 0 && (force_fair || result.be_fair) {
                if result.have_more_threads {
                    new_state |= PARKED_BIT;
                }
                self.state.store(new_state, Ordering::Release);
                TOKEN_HANDOFF
            } else {
                // Clear the parked bit if there are no more parked threads.
                if result.have_more_threads {
                    self.state.store(PARKED_BIT, Ordering::Release);
                } else {
                    self.state.store(0, Ordering::Release);
                }
                TOKEN_NORMAL
            }
        };
        // SAFETY: `callback` does not panic or call into any function of `parking_lot`.
        unsafe {
            self.wake_parked_threads(0, callback);
        }
    }

    #[cold]
    fn lock_shared_slow(&self, recursive: bool, timeout: Option<Instant>) -> bool {
        let try_lock = |state: &mut usize| {
            let mut spinwait_shared = SpinWait::new();
            loop {
                // Use hardware lock elision to avoid cache conflicts when multiple
                // readers try to acquire the lock. We only do this if the lock is
                // completely empty since elision handles conflicts poorly.
                if have_elision() && *state == 0 {
                    match self.state.elision_compare_exchange_acquire(0, ONE_READER) {
                        Ok(_) => return true,
                        Err(x) => *state = x,
                    }
                }

                // This is the same condition as try_lock_shared_fast
                #[allow(clippy::collapsible_if)]
                if *state & WRITER_BIT != 0 {
                    if !recursive || *state & READERS_MASK == 0 {
                        return false;
                    }
                }

                if self
                    .state
                    .compare_exchange_weak(
                        *state,
                        state
                            .checked_add(ONE_READER)
                            .expect("RwLock reader count overflow"),
                        Ordering::Acquire,
                        Ordering::Relaxed,
                    )
                    .is_ok()
                {
                    return true;
                }

                // If there is high contention on the reader count then we want
                // to leave some time between attempts to acquire the lock to
                // let other threads make progress.
                spinwait_shared.spin_no_yield();
                *state = self.state.load(Ordering::Relaxed);
            }
        };
        self.lock_common(timeout, TOKEN_SHARED, try_lock, WRITER_BIT)
    }

    #[cold]
    fn unlock_shared_slow(&self) {
        // At this point WRITER_PARKED_BIT is set and READER_MASK is empty. We
        // just need to wake up a potentially sleeping pending writer.
        // Using the 2nd key at addr + 1
        let addr = self as *const _ as usize + 1;
        let callback = |_result: UnparkResult| {
            // Clear the WRITER_PARKED_BIT here since there can only be one
            // parked writer thread.
            self.state.fetch_and(!WRITER_PARKED_BIT, Ordering::Relaxed);
            TOKEN_NORMAL
        };
        // SAFETY:
        //   * `addr` is an address we control.
        //   * `callback` does not panic or call into any function of `parking_lot`.
        unsafe {
            parking_lot_core::unpark_one(addr, callback);
        }
    }

    #[cold]
    fn lock_upgradable_slow(&self, timeout: Option<Instant>) -> bool {
        let try_lock = |state: &mut usize| {
            let mut spinwait_shared = SpinWait::new();
            loop {
                if *state & (WRITER_BIT | UPGRADABLE_BIT) != 0 {
                    return false;
                }

                if self
                    .state
                    .compare_exchange_weak(
                        *state,
                        state
                            .checked_add(ONE_READER | UPGRADABLE_BIT)
                            .expect("RwLock reader count overflow"),
                        Ordering::Acquire,
                        Ordering::Relaxed,
                    )
                    .is_ok()
                {
                    return true;
                }

                // If there is high contention on the reader count then we want
                // to leave some time between attempts to acquire the lock to
                // let other threads make progress.
                spinwait_shared.spin_no_yield();
                *state = self.state.load(Ordering::Relaxed);
            }
        };
        self.lock_common(
            timeout,
            TOKEN_UPGRADABLE,
            try_lock,
            WRITER_BIT | UPGRADABLE_BIT,
        )
    }

    #[cold]
    fn unlock_upgradable_slow(&self, force_fair: bool) {
        // Just release the lock if there are no parked threads.
        let mut state = self.state.load(Ordering::Relaxed);
        while state & PARKED_BIT == 0 {
            match self.state.compare_exchange_weak(
                state,
                state - (ONE_READER | UPGRADABLE_BIT),
                Ordering::Release,
                Ordering::Relaxed,
            ) {
                Ok(_) => return,
                Err(x) => state = x,
            }
        }

        // There are threads to unpark. Try to unpark as many as we can.
        let callback = |new_state, result: UnparkResult| {
            // If we are using a fair unlock then we should keep the
            // rwlock locked and hand it off to the unparked threads.
            let mut state = self.state.load(Ordering::Relaxed);
            if force_fair || result.be_fair {
                // Fall back to normal unpark on overflow. Panicking is
                // not allowed in parking_lot callbacks.
                while let Some(mut new_state) =
                    (state - (ONE_READER | UPGRADABLE_BIT)).checked_add(new_state)
                {
                    if result.have_more_threads {
                        new_state |= PARKED_BIT;
                    } else {
                        new_state &= !PARKED_BIT;
                    }
                    match self.state.compare_exchange_weak(
                        state,
                        new_state,
                        Ordering::Relaxed,
                        Ordering::Relaxed,
                    ) {
                        Ok(_) => return TOKEN_HANDOFF,
                        Err(x) => state = x,
                    }
                }
            }

            // Otherwise just release the upgradable lock and update PARKED_BIT.
            loop {
                let mut new_state = state - (ONE_READER | UPGRADABLE_BIT);
                if result.have_more_threads {
                    new_state |= PARKED_BIT;
                } else {
                    new_state &= !PARKED_BIT;
                }
                match self.state.compare_exchange_weak(
                    state,
                    new_state,
                    Ordering::Relaxed,
                    Ordering::Relaxed,
                ) {
                    Ok(_) => return TOKEN_NORMAL,
                    Err(x) => state = x,
                }
            }
        };
        // SAFETY: `callback` does not panic or call into any function of `parking_lot`.
        unsafe {
            self.wake_parked_threads(0, callback);
        }
    }

    #[cold]
    fn try_upgrade_slow(&self) -> bool {
        let mut state = self.state.load(Ordering::Relaxed);
        loop {
            if state & READERS_MASK != ONE_READER {
                return false;
            }
            match self.state.compare_exchange_weak(
                state,
                state - (ONE_READER | UPGRADABLE_BIT) + WRITER_BIT,
                Ordering::Relaxed,
                Ordering::Relaxed,
            ) {
                Ok(_) => return true,
                Err(x) => state = x,
            }
        }
    }

    #[cold]
    fn upgrade_slow(&self, timeout: Option<Instant>) -> bool {
        self.deadlock_release();
        let result = self.wait_for_readers(timeout, ONE_READER | UPGRADABLE_BIT);
        self.deadlock_acquire();
        result
    }

    #[cold]
    fn downgrade_slow(&self) {
        // We only reach this point if PARKED_BIT is set.
        let callback = |_, result: UnparkResult| {
            // Clear the parked bit if there no more parked threads
            if !result.have_more_threads {
                self.state.fetch_and(!PARKED_BIT, Ordering::Relaxed);
            }
            TOKEN_NORMAL
        };
        // SAFETY: `callback` does not panic or call into any function of `parking_lot`.
        unsafe {
            self.wake_parked_threads(ONE_READER, callback);
        }
    }

    #[cold]
    fn downgrade_to_upgradable_slow(&self) {
        // We only reach this point if PARKED_BIT is set.
        let callback = |_, result: UnparkResult| {
            // Clear the parked bit if there no more parked threads
            if !result.have_more_threads {
                self.state.fetch_and(!PARKED_BIT, Ordering::Relaxed);
            }
            TOKEN_NORMAL
        };
        // SAFETY: `callback` does not panic or call into any function of `parking_lot`.
        unsafe {
            self.wake_parked_threads(ONE_READER | UPGRADABLE_BIT, callback);
        }
    }

    #[cold]
    unsafe fn bump_shared_slow(&self) {
        self.unlock_shared();
        self.lock_shared();
    }

    #[cold]
    fn bump_exclusive_slow(&self) {
        self.deadlock_release();
        self.unlock_exclusive_slow(true);
        self.lock_exclusive();
    }

    #[cold]
    fn bump_upgradable_slow(&self) {
        self.deadlock_release();
        self.unlock_upgradable_slow(true);
        self.lock_upgradable();
    }

    /// Common code for waking up parked threads after releasing `WRITER_BIT` or
    /// `UPGRADABLE_BIT`.
    ///
    /// # Safety
    ///
    /// `callback` must uphold the requirements of the `callback` parameter to
    /// `parking_lot_core::unpark_filter`. Meaning no panics or calls into any function in
    /// `parking_lot`.
    #[inline]
    unsafe fn wake_parked_threads(
        &self,
        new_state: usize,
        callback: impl FnOnce(usize, UnparkResult) -> UnparkToken,
    ) {
        // We must wake up at least one upgrader or writer if there is one,
        // otherwise they may end up parked indefinitely since unlock_shared
        // does not call wake_parked_threads.
        let new_state = Cell::new(new_state);
        let addr = self as *const _ as usize;
        let filter = |ParkToken(token)| {
            let s = new_state.get();

            // If we are waking up a writer, don't wake anything else.
            if s & WRITER_BIT != 0 {
                return FilterOp::Stop;
            }

            // Otherwise wake *all* readers and one upgrader/writer.
            if token & (UPGRADABLE_BIT | WRITER_BIT) != 0 && s & UPGRADABLE_BIT != 0 {
                // Skip writers and upgradable readers if we already have
                // a writer/upgradable reader.
                FilterOp::Skip
            } else {
                new_state.set(s + token);
                FilterOp::Unpark
            }
        };
        let callback = |result| callback(new_state.get(), result);
        // SAFETY:
        // * `addr` is an address we control.
        // * `filter` does not panic or call into any function of `parking_lot`.
        // * `callback` safety responsibility is on caller
        parking_lot_core::unpark_filter(addr, filter, callback);
    }

    // Common code for waiting for readers to exit the lock after acquiring
    // WRITER_BIT.
    #[inline]
    fn wait_for_readers(&self, timeout: Option<Instant>, prev_value: usize) -> bool {
        // At this point WRITER_BIT is already set, we just need to wait for the
        // remaining readers to exit the lock.
        let mut spinwait = SpinWait::new();
        let mut state = self.state.load(Ordering::Acquire);
        while state & READERS_MASK != 0 {
            // Spin a few times to wait for readers to exit
            if spinwait.spin() {
                state = self.state.load(Ordering::Acquire);
                continue;
            }

            // Set the parked bit
            if state & WRITER_PARKED_BIT == 0 {
                if let Err(x) = self.state.compare_exchange_weak(
                    state,
                    state | WRITER_PARKED_BIT,
                    Ordering::Acquire,
                    Ordering::Acquire,
                ) {
                    state = x;
                    continue;
                }
            }

            // Park our thread until we are woken up by an unlock
            // Using the 2nd key at addr + 1
            let addr = self as *const _ as usize + 1;
            let validate = || {
                let state = self.state.load(Ordering::Relaxed);
                state & READERS_MASK != 0 && state & WRITER_PARKED_BIT != 0
            };
            let before_sleep = || {};
            let timed_out = |_, was_last_thread: bool| {
                // Clear the parked bit while holding the queue lock. There can
                // only be one thread parked (this one).
                debug_assert!(was_last_thread);
                self.state.fetch_and(!WRITER_PARKED_BIT, Ordering::Relaxed);
            };
            // SAFETY:
            //   * `addr` is an address we control.
            //   * `validate`/`timed_out` does not panic or call into any function of `parking_lot`.
            //   * `before_sleep` does not call `park`, nor does it panic.
            let park_result = unsafe {
                parking_lot_core::park(
                    addr,
                    validate,
                    before_sleep,
                    timed_out,
                    TOKEN_EXCLUSIVE,
                    timeout,
                )
            };
            match park_result {
                // We still need to re-check the state if we are unparked
                // since a previous writer timing-out could have allowed
                // another reader to sneak in before we parked.
                ParkResult::Unparked(_) | ParkResult::Invalid => {
                    state = self.state.load(Ordering::Acquire);
                    continue;
                }

                // Timeout expired
                ParkResult::TimedOut => {
                    // We need to release WRITER_BIT and revert back to
                    // our previous value. We also wake up any threads that
                    // might be waiting on WRITER_BIT.
                    let state = self
                        .state
                        .fetch_add(prev_value.wrapping_sub(WRITER_BIT), Ordering::Relaxed);
                    if state & PARKED_BIT != 0 {
                        let callback = |_, result: UnparkResult| {
                            // Clear the parked bit if there no more parked threads
                            if !result.have_more_threads {
                                self.state.fetch_and(!PARKED_BIT, Ordering::Relaxed);
                            }
                            TOKEN_NORMAL
                        };
                        // SAFETY: `callback` does not panic or call any function of `parking_lot`.
                        unsafe {
                            self.wake_parked_threads(prev_value, callback);
                        }
                    }
                    return false;
                }
            }
        }
        true
    }

    /// Common code for acquiring a lock
    #[inline]
    fn lock_common(
        &self,
        timeout: Option<Instant>,
        token: ParkToken,
        mut try_lock: impl FnMut(&mut usize) -> bool,
        validate_flags: usize,
    ) -> bool {
        let mut spinwait = SpinWait::new();
        let mut state = self.state.load(Ordering::Relaxed);
        loop {
            // Attempt to grab the lock
            if try_lock(&mut state) {
                return true;
            }

            // If there are no parked threads, try spinning a few times.
            if state & (PARKED_BIT | WRITER_PARKED_BIT) == 0 && spinwait.spin() {
                state = self.state.load(Ordering::Relaxed);
                continue;
            }

            // Set the parked bit
            if state & PARKED_BIT == 0 {
                if let Err(x) = self.state.compare_exchange_weak(
                    state,
                    state | PARKED_BIT,
                    Ordering::Relaxed,
                    Ordering::Relaxed,
                ) {
                    state = x;
                    continue;
                }
            }

            // Park our thread until we are woken up by an unlock
            let addr = self as *const _ as usize;
            let validate = || {
                let state = self.state.load(Ordering::Relaxed);
                state & PARKED_BIT != 0 && (state & validate_flags != 0)
            };
            let before_sleep = || {};
            let timed_out = |_, was_last_thread| {
                // Clear the parked bit if we were the last parked thread
                if was_last_thread {
                    self.state.fetch_and(!PARKED_BIT, Ordering::Relaxed);
                }
            };

            // SAFETY:
            // * `addr` is an address we control.
            // * `validate`/`timed_out` does not panic or call into any function of `parking_lot`.
            // * `before_sleep` does not call `park`, nor does it panic.
            let park_result = unsafe {
                parking_lot_core::park(addr, validate, before_sleep, timed_out, token, timeout)
            };
            match park_result {
                // The thread that unparked us passed the lock on to us
                // directly without unlocking it.
                ParkResult::Unparked(TOKEN_HANDOFF) => return true,

                // We were unparked normally, try acquiring the lock again
                ParkResult::Unparked(_) => (),

                // The validation function failed, try locking again
                ParkResult::Invalid => (),

                // Timeout expired
                ParkResult::TimedOut => return false,
            }

            // Loop back and try locking again
            spinwait.reset();
            state = self.state.load(Ordering::Relaxed);
        }
    }

    #[inline]
    fn deadlock_acquire(&self) {
        unsafe { deadlock::acquire_resource(self as *const _ as usize) };
        unsafe { deadlock::acquire_resource(self as *const _ as usize + 1) };
    }

    #[inline]
    fn deadlock_release(&self) {
        unsafe { deadlock::release_resource(self as *const _ as usize) };
        unsafe { deadlock::release_resource(self as *const _ as usize + 1) };
    }
}
