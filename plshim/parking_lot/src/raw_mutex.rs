// Copyright 2016 Amanieu d'Antras
//
// Licensed under the Apache License, Version 2.0, <LICENSE-APACHE or
// http://apache.org/licenses/LICENSE-2.0> or the MIT license <LICENSE-MIT or
// http://opensource.org/licenses/MIT>, at your option. This file may not be
// copied, modified, or distributed except according to those terms.

use crate::{deadlock, util};
use core::{
    sync::atomic::{AtomicU8, Ordering},
    time::Duration,
};
use lock_api::RawMutex as RawMutex_;
use parking_lot_core::{self, ParkResult, SpinWait, UnparkResult, UnparkToken, DEFAULT_PARK_TOKEN};
use std::time::Instant;

// UnparkToken used to indicate that that the target thread should attempt to
// lock the mutex again as soon as it is unparked.
pub(crate) const TOKEN_NORMAL: UnparkToken = UnparkToken(0);

// UnparkToken used to indicate that the mutex is being handed off to the target
// thread directly without unlocking it.
pub(crate) const TOKEN_HANDOFF: UnparkToken = UnparkToken(1);

/// This bit is set in the `state` of a `RawMutex` when that mutex is locked by some thread.
const LOCKED_BIT: u8 = 0b01;
/// This bit is set in the `state` of a `RawMutex` just before parking a thread. A thread is being
/// parked if it wants to lock the mutex, but it is currently being held by some other thread.
const PARKED_BIT: u8 = 0b10;

/// Raw mutex type backed by the parking lot.
pub struct RawMutex {
    /// This atomic integer holds the current state of the mutex instance. Only the two lowest bits
    /// are used. See `LOCKED_BIT` and `PARKED_BIT` for the bitmask for these bits.
    ///
    /// # State table:
    ///
    /// PARKED_BIT | LOCKED_BIT | Description
    ///     0      |     0      | The mutex is not locked, nor is anyone waiting for it.
    /// -----------+------------+------------------------------------------------------------------
    ///     0      |     1      | The mutex is locked by exactly one thread. No other thread is
    ///            |            | waiting for it.
    /// -----------+------------+------------------------------------------------------------------
    ///     1      |     0      | The mutex is not locked. One or more thread is parked or about to
    ///            |            | park. At least one of the parked threads are just about to be
    ///            |            | unparked, or a thread heading for parking might abort the park.
    /// -----------+------------+------------------------------------------------------------------
    ///     1      |     1      | The mutex is locked by exactly one thread. One or more thread is
    ///            |            | parked or about to park, waiting for the lock to become available.
    ///            |            | In this state, PARKED_BIT is only ever cleared when a bucket lock
    ///            |            | is held (i.e. in a parking_lot_core callback). This ensures that
    ///            |            | we never end up in a situation where there are parked threads but
    ///            |            | PARKED_BIT is not set (which would result in those threads
    ///            |            | potentially never getting woken up).
    state: AtomicU8,
}

unsafe impl lock_api::RawMutex for RawMutex {
    const INIT: RawMutex = RawMutex {
        state: AtomicU8::new(0),
    };

    type GuardMarker = crate::GuardMarker;

    #[inline]
    fn lock(&self) {
        if self
            .state
            .compare_exchange_weak(0, LOCKED_BIT, Ordering::Acquire, Ordering::Relaxed)
            .is_err()
        {
            self.lock_slow(None);
        }
        unsafe { deadlock::acquire_resource(self as *const _ as usize) };
    }

    #[inline]
    fn try_lock(&self) -> bool {
        let mut state = self.state.load(Ordering::Relaxed);
        loop {
            if state & LOCKED_BIT != 0 {
                return false;
            }
            match self.state.compare_exchange_weak(
                state,
                state | LOCKED_BIT,
                Ordering::Acquire,
                Ordering::Relaxed,
            ) {
                Ok(_) => {
                    unsafe { deadlock::acquire_resource(self as *const _ as usize) };
                    return true;
                }
                Err(x) => state = x,
            }
        }
    }

    #[inline]
    unsafe fn unlock(&self) {
        deadlock::release_resource(self as *const _ as usize);
        if self
            .state
            .compare_exchange(LOCKED_BIT, 0, Ordering::Release, Ordering::Relaxed)
            .is_ok()
        {
            return;
        }
        self.unlock_slow(false);
    }

    #[inline]
    fn is_locked(&self) -> bool {
        let state = self.state.load(Ordering::Relaxed);
        state & LOCKED_BIT != 0
    }
}

unsafe impl lock_api::RawMutexFair for RawMutex {
    #[inline]
    unsafe fn unlock_fair(&self) {
        deadlock::release_resource(self as *const _ as usize);
        if self
            .state
            .compare_exchange(LOCKED_BIT, 0, Ordering::Release, Ordering::Relaxed)
            .is_ok()
        {
            return;
        }
        self.unlock_slow(true);
    }

    #[inline]
    unsafe fn bump(&self) {
        if self.state.load(Ordering::Relaxed) & PARKED_BIT != 0 {
            self.bump_slow();
        }
    }
}

unsafe impl lock_api::RawMutexTimed for RawMutex {
    type Duration = Duration;
    type Instant = Instant;

    #[inline]
    fn try_lock_until(&self, timeout: Instant) -> bool {
        let result = if self
            .state
            .compare_exchange_weak(0, LOCKED_BIT, Ordering::Acquire, Ordering::Relaxed)
            .is_ok()
        {
            true
        } else {
            self.lock_slow(Some(timeout))
        };
        if result {
            unsafe { deadlock::acquire_resource(self as *const _ as usize) };
        }
        result
    }

    #[inline]
    fn try_lock_for(&self, timeout: Duration) -> bool {
        let result = if self
            .state
            .compare_exchange_weak(0, LOCKED_BIT, Ordering::Acquire, Ordering::Relaxed)
            .is_ok()
        {
            true
        } else {
            self.lock_slow(util::to_deadline(timeout))
        };
        if result {
            unsafe { deadlock::acquire_resource(self as *const _ as usize) };
        }
        result
    }
}

impl RawMutex {
    // Used by Condvar when requeuing threads to us, must be called while
    // holding the queue lock.
    #[inline]
    pub(crate) fn mark_parked_if_locked(&self) -> bool {
        let mut state = self.state.load(Ordering::Relaxed);
        loop {
            if state & LOCKED_BIT == 0 {
                return false;
            }
            match self.state.compare_exchange_weak(
                state,
                state | PARKED_BIT,
                Ordering::Relaxed,
                Ordering::Relaxed,
            ) {
                Ok(_) => return true,
                Err(x) => state = x,
            }
        }
    }

    // Used by Condvar when requeuing threads to us, must be called while
    // holding the queue lock.
    #[inline]
    pub(crate) fn mark_parked(&self) {
        self.state.fetch_or(PARKED_BIT, Ordering::Relaxed);
    }

    #[cold]
    fn lock_slow(&self, timeout: Option<Instant>) -> bool {
        let mut spinwait = SpinWait::new();
        let mut state = self.state.load(Ordering::Relaxed);
        loop {
            // Grab the lock if it isn't locked, even if there is a queue on it
            if state & LOCKED_BIT == 0 {
                match self.state.compare_exchange_weak(
                    state,
                    state | LOCKED_BIT,
                    Ordering::Acquire,
                    Ordering::Relaxed,
                ) {
                    Ok(_) => return true,
                    Err(x) => state = x,
                }
                continue;
            }

            // If there is no queue, try spinning a few times
            if state & PARKED_BIT == 0 && spinwait.spin() {
                state = self.state.load(Ordering::Relaxed);
                continue;
            }

            // Set the parked bit
            if state & PARKED_BIT == 0 {
                if let Err(x) = self.state.compare_exchange_weak(
                    state,
                    state | PARKED_BIT,
                    Ordering::Relaxed,
                    Ordering::Relaxed,
                ) {
                    state = x;
                    continue;
                }
            }

            // Park our thread until we are woken up by an unlock
            let addr = self as *const _ as usize;
            let validate = || self.state.load(Ordering::Relaxed) == LOCKED_BIT | PARKED_BIT;
            let before_sleep = || {};
            let timed_out = |_, was_last_thread| {
                // Clear the parked bit if we were the last parked thread
                if was_last_thread {
                    self.state.fetch_and(!PARKED_BIT, Ordering::Relaxed);
                }
            };
            // SAFETY:
            //   * `addr` is an address we control.
            //   * `validate`/`timed_out` does not panic or call into any function of `parking_lot`.
            //   * `before_sleep` does not call `park`, nor does it panic.
            match unsafe {
                parking_lot_core::park(
                    addr,
                    validate,
                    before_sleep,
                    timed_out,
                    DEFAULT_PARK_TOKEN,
                    timeout,
                )
            } {
                // The thread that unparked us passed the lock on to us
                // directly without unlocking it.
                ParkResult::Unparked(TOKEN_HANDOFF) => return true,

                // We were unparked normally, try acquiring the lock again
                ParkResult::Unparked(_) => (),

                // The validation function failed, try locking again
                ParkResult::Invalid => (),

                // Timeout expired
                ParkResult::TimedOut => return false,
            }

            // Loop back and try locking again
            spinwait.reset();
            state = self.state.load(Ordering::Relaxed);
        }
    }

    #[cold]
    fn unlock_slow(&self, force_fair: bool) {
        // Unpark one thread and leave the parked bit set if there might
        // still be parked threads on this address.
        let addr = self as *const _ as usize;
        let callback = |result: UnparkResult| {
            // If we are using a fair unlock then we should keep the
            // mutex locked and hand it off to the unparked thread.
            if result.unparked_threads != 0 && (force_fair || result.be_fair) {
                // Clear the parked bit if there are no more parked
                // threads.
                if !result.have_more_threads {
                    self.state.store(LOCKED_BIT, Ordering::Relaxed);
                }
                return TOKEN_HANDOFF;
            }

            // Clear the locked bit, and the parked bit as well if there
            // are no more parked threads.
            if result.have_more_threads {
                self.state.store(PARKED_BIT, Ordering::Release);
            } else {
                self.state.store(0, Ordering::Release);
            }
            TOKEN_NORMAL
        };
        // SAFETY:
        //   * `addr` is an address we control.
        //   * `callback` does not panic or call into any function of `parking_lot`.
        unsafe {
            parking_lot_core::unpark_one(addr, callback);
        }
    }

    #[cold]
    fn bump_slow(&self) {
        unsafe { deadlock::release_resource(self as *const _ as usize) };
        self.unlock_slow(true);
        self.lock();
    }
}
