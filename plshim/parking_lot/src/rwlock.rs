// Copyright 2016 Amanieu d'Antras
//
// Licensed under the Apache License, Version 2.0, <LICENSE-APACHE or
// http://apache.org/licenses/LICENSE-2.0> or the MIT license <LICENSE-MIT or
// http://opensource.org/licenses/MIT>, at your option. This file may not be
// copied, modified, or distributed except according to those terms.

use crate::verif::RawRwLock;

/// A reader-writer lock
///
/// This type of lock allows a number of readers or at most one writer at any
/// point in time. The write portion of this lock typically allows modification
/// of the underlying data (exclusive access) and the read portion of this lock
/// typically allows for read-only access (shared access).
///
/// This lock uses a task-fair locking policy which avoids both reader and
/// writer starvation. This means that readers trying to acquire the lock will
/// block even if the lock is unlocked when there are writers waiting to acquire
/// the lock. Because of this, attempts to recursively acquire a read lock
/// within a single thread may result in a deadlock.
///
/// The type parameter `T` represents the data that this lock protects. It is
/// required that `T` satisfies `Send` to be shared across threads and `Sync` to
/// allow concurrent access through readers. The RAII guards returned from the
/// locking methods implement `Deref` (and `DerefMut` for the `write` methods)
/// to allow access to the contained of the lock.
///
/// # Fairness
///
/// A typical unfair lock can often end up in a situation where a single thread
/// quickly acquires and releases the same lock in succession, which can starve
/// other threads waiting to acquire the rwlock. While this improves throughput
/// because it doesn't force a context switch when a thread tries to re-acquire
/// a rwlock it has just released, this can starve other threads.
///
/// This rwlock uses [eventual fairness](https://trac.webkit.org/changeset/203350)
/// to ensure that the lock will be fair on average without sacrificing
/// throughput. This is done by forcing a fair unlock on average every 0.5ms,
/// which will force the lock to go to the next thread waiting for the rwlock.
///
/// Additionally, any critical section longer than 1ms will always use a fair
/// unlock, which has a negligible impact on throughput considering the length
/// of the critical section.
///
/// You can also force a fair unlock by calling `RwLockReadGuard::unlock_fair`
/// or `RwLockWriteGuard::unlock_fair` when unlocking a mutex instead of simply
/// dropping the guard.
///
/// # Differences from the standard library `RwLock`
///
/// - Supports atomically downgrading a write lock into a read lock.
/// - Task-fair locking policy instead of an unspecified platform default.
/// - No poisoning, the lock is released normally on panic.
/// - Only requires 1 word of space, whereas the standard library boxes the
///   `RwLock` due to platform limitations.
/// - Can be statically constructed.
/// - Does not require any drop glue when dropped.
/// - Inline fast path for the uncontended case.
/// - Efficient handling of micro-contention using adaptive spinning.
/// - Allows raw locking & unlocking without a guard.
/// - Supports eventual fairness so that the rwlock is fair on average.
/// - Optionally allows making the rwlock fair by calling
///   `RwLockReadGuard::unlock_fair` and `RwLockWriteGuard::unlock_fair`.
///
/// # Examples
///
/// ```
/// use parking_lot::RwLock;
///
/// let lock = RwLock::new(5);
///
/// // many reader locks can be held at once
/// {
///     let r1 = lock.read();
///     let r2 = lock.read();
///     assert_eq!(*r1, 5);
///     assert_eq!(*r2, 5);
/// } // read locks are dropped at this point
///
/// // only one write lock may be held, however
/// {
///     let mut w = lock.write();
///     *w += 1;
///     assert_eq!(*w, 6);
/// } // write lock is dropped here
/// ```
pub type RwLock<T> = lock_api::RwLock<RawRwLock, T>;

/// Creates a new instance of an `RwLock<T>` which is unlocked.
///
/// This allows creating a `RwLock<T>` in a constant context on stable Rust.
pub const fn const_rwlock<T>(val: T) -> RwLock<T> {
    RwLock::const_new(<RawRwLock as lock_api::RawRwLock>::INIT, val)
}

/// RAII structure used to release the shared read access of a lock when
/// dropped.
pub type RwLockReadGuard<'a, T> = lock_api::RwLockReadGuard<'a, RawRwLock, T>;

/// RAII structure used to release the exclusive write access of a lock when
/// dropped.
pub type RwLockWriteGuard<'a, T> = lock_api::RwLockWriteGuard<'a, RawRwLock, T>;

/// An RAII read lock guard returned by `RwLockReadGuard::map`, which can point to a
/// subfield of the protected data.
///
/// The main difference between `MappedRwLockReadGuard` and `RwLockReadGuard` is that the
/// former doesn't support temporarily unlocking and re-locking, since that
/// could introduce soundness issues if the locked object is modified by another
/// thread.
pub type MappedRwLockReadGuard<'a, T> = lock_api::MappedRwLockReadGuard<'a, RawRwLock, T>;

/// An RAII write lock guard returned by `RwLockWriteGuard::map`, which can point to a
/// subfield of the protected data.
///
/// The main difference between `MappedRwLockWriteGuard` and `RwLockWriteGuard` is that the
/// former doesn't support temporarily unlocking and re-locking, since that
/// could introduce soundness issues if the locked object is modified by another
/// thread.
pub type MappedRwLockWriteGuard<'a, T> = lock_api::MappedRwLockWriteGuard<'a, RawRwLock, T>;

/// RAII structure used to release the upgradable read access of a lock when
/// dropped.
pub type RwLockUpgradableReadGuard<'a, T> = lock_api::RwLockUpgradableReadGuard<'a, RawRwLock, T>;

#[cfg(test)]
mod tests {
    use crate::{RwLock, RwLockUpgradableReadGuard, RwLockWriteGuard};
    use rand::Rng;
    use std::sync::atomic::{AtomicUsize, Ordering};
    use std::sync::mpsc::channel;
    use std::sync::Arc;
    use std::thread;
    use std::time::Duration;

    #[cfg(feature = "serde")]
    use bincode::{deserialize, serialize};

    #[derive(Eq, PartialEq, Debug)]
    struct NonCopy(i32);

    #[test]
    fn smoke() {
        let l = RwLock::new(());
        drop(l.read());
        drop(l.write());
        drop(l.upgradable_read());
        drop((l.read(), l.read()));
        drop((l.read(), l.upgradable_read()));
        drop(l.write());
    }

    #[test]
    fn frob() {
        const N: u32 = 10;
        const M: u32 = 1000;

        let r = Arc::new(RwLock::new(()));

        let (tx, rx) = channel::<()>();
        for _ in 0..N {
            let tx = tx.clone();
            let r = r.clone();
            thread::spawn(move || {
                let mut rng = rand::thread_rng();
                for _ in 0..M {
                    if rng.gen_bool(1.0 / N as f64) {
                        drop(r.write());
                    } else {
                        drop(r.read());
                    }
                }
                drop(tx);
            });
        }
        drop(tx);
        let _ = rx.recv();
    }

    #[test]
    fn test_rw_arc_no_poison_wr() {
        let arc = Arc::new(RwLock::new(1));
        let arc2 = arc.clone();
        let _: Result<(), _> = thread::spawn(move || {
            let _lock = arc2.write();
            panic!();
        })
        .join();
        let lock = arc.read();
        assert_eq!(*lock, 1);
    }

    #[test]
    fn test_rw_arc_no_poison_ww() {
        let arc = Arc::new(RwLock::new(1));
        let arc2 = arc.clone();
        let _: Result<(), _> = thread::spawn(move || {
            let _lock = arc2.write();
            panic!();
        })
        .join();
        let lock = arc.write();
        assert_eq!(*lock, 1);
    }

    #[test]
    fn test_rw_arc_no_poison_rr() {
        let arc = Arc::new(RwLock::new(1));
        let arc2 = arc.clone();
        let _: Result<(), _> = thread::spawn(move || {
            let _lock = arc2.read();
            panic!();
        })
        .join();
        let lock = arc.read();
        assert_eq!(*lock, 1);
    }

    #[test]
    fn test_rw_arc_no_poison_rw() {
        let arc = Arc::new(RwLock::new(1));
        let arc2 = arc.clone();
        let _: Result<(), _> = thread::spawn(move || {
            let _lock = arc2.read();
            panic!()
        })
        .join();
        let lock = arc.write();
        assert_eq!(*lock, 1);
    }

    #[test]
    fn test_ruw_arc() {
        let arc = Arc::new(RwLock::new(0));
        let arc2 = arc.clone();
        let (tx, rx) = channel();

        thread::spawn(move || {
            for _ in 0..10 {
                let mut lock = arc2.write();
                let tmp = *lock;
                *lock = -1;
                thread::yield_now();
                *lock = tmp + 1;
            }
            tx.send(()).unwrap();
        });

        let mut children = Vec::new();

        // Upgradable readers try to catch the writer in the act and also
        // try to touch the value
        for _ in 0..5 {
            let arc3 = arc.clone();
            children.push(thread::spawn(move || {
                let lock = arc3.upgradable_read();
                let tmp = *lock;
                assert!(tmp >= 0);
                thread::yield_now();
                let mut lock = RwLockUpgradableReadGuard::upgrade(lock);
                assert_eq!(tmp, *lock);
                *lock = -1;
                thread::yield_now();
                *lock = tmp + 1;
            }));
        }

        // Readers try to catch the writers in the act
        for _ in 0..5 {
            let arc4 = arc.clone();
            children.push(thread::spawn(move || {
                let lock = arc4.read();
                assert!(*lock >= 0);
            }));
        }

        // Wait for children to pass their asserts
        for r in children {
            assert!(r.join().is_ok());
        }

        // Wait for writer to finish
        rx.recv().unwrap();
        let lock = arc.read();
        assert_eq!(*lock, 15);
    }

    #[test]
    fn test_rw_arc() {
        let arc = Arc::new(RwLock::new(0));
        let arc2 = arc.clone();
        let (tx, rx) = channel();

        thread::spawn(move || {
            let mut lock = arc2.write();
            for _ in 0..10 {
                let tmp = *lock;
                *lock = -1;
                thread::yield_now();
                *lock = tmp + 1;
            }
            tx.send(()).unwrap();
        });

        // Readers try to catch the writer in the act
        let mut children = Vec::new();
        for _ in 0..5 {
            let arc3 = arc.clone();
            children.push(thread::spawn(move || {
                let lock = arc3.read();
                assert!(*lock >= 0);
            }));
        }

        // Wait for children to pass their asserts
        for r in children {
            assert!(r.join().is_ok());
        }

        // Wait for writer to finish
        rx.recv().unwrap();
        let lock = arc.read();
        assert_eq!(*lock, 10);
    }

    #[test]
    fn test_rw_arc_access_in_unwind() {
        let arc = Arc::new(RwLock::new(1));
        let arc2 = arc.clone();
        let _ = thread::spawn(move || {
            struct Unwinder {
                i: Arc<RwLock<isize>>,
            }
            impl Drop for Unwinder {
                fn drop(&mut self) {
                    let mut lock = self.i.write();
                    *lock += 1;
                }
            }
            let _u = Unwinder { i: arc2 };
            panic!();
        })
        .join();
        let lock = arc.read();
        assert_eq!(*lock, 2);
    }

    #[test]
    fn test_rwlock_unsized() {
        let rw: &RwLock<[i32]> = &RwLock::new([1, 2, 3]);
        {
            let b = &mut *rw.write();
            b[0] = 4;
            b[2] = 5;
        }
        let comp: &[i32] = &[4, 2, 5];
        assert_eq!(&*rw.read(), comp);
    }

    #[test]
    fn test_rwlock_try_read() {
        let lock = RwLock::new(0isize);
        {
            let read_guard = lock.read();

            let read_result = lock.try_read();
            assert!(
                read_result.is_some(),
                "try_read should succeed while read_guard is in scope"
            );

            drop(read_guard);
        }
        {
            let upgrade_guard = lock.upgradable_read();

            let read_result = lock.try_read();
            assert!(
                read_result.is_some(),
                "try_read should succeed while upgrade_guard is in scope"
            );

            drop(upgrade_guard);
        }
        {
            let write_guard = lock.write();

            let read_result = lock.try_read();
            assert!(
                read_result.is_none(),
                "try_read should fail while write_guard is in scope"
            );

            drop(write_guard);
        }
    }

    #[test]
    fn test_rwlock_try_write() {
        let lock = RwLock::new(0isize);
        {
            let read_guard = lock.read();

            let write_result = lock.try_write();
            assert!(
                write_result.is_none(),
                "try_write should fail while read_guard is in scope"
            );
            assert!(lock.is_locked());
            assert!(!lock.is_locked_exclusive());

            drop(read_guard);
        }
        {
            let upgrade_guard = lock.upgradable_read();

            let write_result = lock.try_write();
            assert!(
                write_result.is_none(),
                "try_write should fail while upgrade_guard is in scope"
            );
            assert!(lock.is_locked());
            assert!(!lock.is_locked_exclusive());

            drop(upgrade_guard);
        }
        {
            let write_guard = lock.write();

            let write_result = lock.try_write();
            assert!(
                write_result.is_none(),
                "try_write should fail while write_guard is in scope"
            );
            assert!(lock.is_locked());
            assert!(lock.is_locked_exclusive());

            drop(write_guard);
        }
    }

    #[test]
    fn test_rwlock_try_upgrade() {
        let lock = RwLock::new(0isize);
        {
            let read_guard = lock.read();

            let upgrade_result = lock.try_upgradable_read();
            assert!(
                upgrade_result.is_some(),
                "try_upgradable_read should succeed while read_guard is in scope"
            );

            drop(read_guard);
        }
        {
            let upgrade_guard = lock.upgradable_read();

            let upgrade_result = lock.try_upgradable_read();
            assert!(
                upgrade_result.is_none(),
                "try_upgradable_read should fail while upgrade_guard is in scope"
            );

            drop(upgrade_guard);
        }
        {
            let write_guard = lock.write();

            let upgrade_result = lock.try_upgradable_read();
            assert!(
                upgrade_result.is_none(),
                "try_upgradable should fail while write_guard is in scope"
            );

            drop(write_guard);
        }
    }

    #[test]
    fn test_into_inner() {
        let m = RwLock::new(NonCopy(10));
        assert_eq!(m.into_inner(), NonCopy(10));
    }

    #[test]
    fn test_into_inner_drop() {
        struct Foo(Arc<AtomicUsize>);
        impl Drop for Foo {
            fn drop(&mut self) {
                self.0.fetch_add(1, Ordering::SeqCst);
            }
        }
        let num_drops = Arc::new(AtomicUsize::new(0));
        let m = RwLock::new(Foo(num_drops.clone()));
        assert_eq!(num_drops.load(Ordering::SeqCst), 0);
        {
            let _inner = m.into_inner();
            assert_eq!(num_drops.load(Ordering::SeqCst), 0);
        }
        assert_eq!(num_drops.load(Ordering::SeqCst), 1);
    }

    #[test]
    fn test_get_mut() {
        let mut m = RwLock::new(NonCopy(10));
        *m.get_mut() = NonCopy(20);
        assert_eq!(m.into_inner(), NonCopy(20));
    }

    #[test]
    fn test_rwlockguard_sync() {
        fn sync<T: Sync>(_: T) {}

        let rwlock = RwLock::new(());
        sync(rwlock.read());
        sync(rwlock.write());
    }

    #[test]
    fn test_rwlock_downgrade() {
        let x = Arc::new(RwLock::new(0));
        let mut handles = Vec::new();
        for _ in 0..8 {
            let x = x.clone();
            handles.push(thread::spawn(move || {
                for _ in 0..100 {
                    let mut writer = x.write();
                    *writer += 1;
                    let cur_val = *writer;
                    let reader = RwLockWriteGuard::downgrade(writer);
                    assert_eq!(cur_val, *reader);
                }
            }));
        }
        for handle in handles {
            handle.join().unwrap()
        }
        assert_eq!(*x.read(), 800);
    }

    #[test]
    fn test_rwlock_recursive() {
        let arc = Arc::new(RwLock::new(1));
        let arc2 = arc.clone();
        let lock1 = arc.read();
        let t = thread::spawn(move || {
            let _lock = arc2.write();
        });

        if cfg!(not(all(target_env = "sgx", target_vendor = "fortanix"))) {
            thread::sleep(Duration::from_millis(100));
        } else {
            // FIXME: https://github.com/fortanix/rust-sgx/issues/31
            for _ in 0..100 {
                thread::yield_now();
            }
        }

        // A normal read would block here since there is a pending writer
        let lock2 = arc.read_recursive();

        // Unblock the thread and join it.
        drop(lock1);
        drop(lock2);
        t.join().unwrap();
    }

    #[test]
    fn test_rwlock_debug() {
        let x = RwLock::new(vec![0u8, 10]);

        assert_eq!(format!("{:?}", x), "RwLock { data: [0, 10] }");
        let _lock = x.write();
        assert_eq!(format!("{:?}", x), "RwLock { data: <locked> }");
    }

    #[test]
    fn test_clone() {
        let rwlock = RwLock::new(Arc::new(1));
        let a = rwlock.read_recursive();
        let b = a.clone();
        assert_eq!(Arc::strong_count(&b), 2);
    }

    #[cfg(feature = "serde")]
    #[test]
    fn test_serde() {
        let contents: Vec<u8> = vec![0, 1, 2];
        let mutex = RwLock::new(contents.clone());

        let serialized = serialize(&mutex).unwrap();
        let deserialized: RwLock<Vec<u8>> = deserialize(&serialized).unwrap();

        assert_eq!(*(mutex.read()), *(deserialized.read()));
        assert_eq!(contents, *(deserialized.read()));
    }

    #[test]
    fn test_issue_203() {
        struct Bar(RwLock<()>);

        impl Drop for Bar {
            fn drop(&mut self) {
                let _n = self.0.write();
            }
        }

        thread_local! {
            static B: Bar = Bar(RwLock::new(()));
        }

        thread::spawn(|| {
            B.with(|_| ());

            let a = RwLock::new(());
            let _a = a.read();
        })
        .join()
        .unwrap();
    }

    #[test]
    fn test_rw_write_is_locked() {
        let lock = RwLock::new(0isize);
        {
            let _read_guard = lock.read();

            assert!(lock.is_locked());
            assert!(!lock.is_locked_exclusive());
        }

        {
            let _write_guard = lock.write();

            assert!(lock.is_locked());
            assert!(lock.is_locked_exclusive());
        }
    }

    #[test]
    #[cfg(feature = "arc_lock")]
    fn test_issue_430() {
        let lock = std::sync::Arc::new(RwLock::new(0));

        let mut rl = lock.upgradable_read_arc();

        rl.with_upgraded(|_| {
            println!("lock upgrade");
        });

        rl.with_upgraded(|_| {
            println!("lock upgrade");
        });

        drop(lock);
    }
}
