// Copyright 2016 Amanieu d'Antras
//
// Licensed under the Apache License, Version 2.0, <LICENSE-APACHE or
// http://apache.org/licenses/LICENSE-2.0> or the MIT license <LICENSE-MIT or
// http://opensource.org/licenses/MIT>, at your option. This file may not be
// copied, modified, or distributed except according to those terms.

use crate::util::UncheckedOptionExt;
use core::{
    fmt, mem,
    sync::atomic::{fence, AtomicU8, Ordering},
};
use parking_lot_core::{self, SpinWait, DEFAULT_PARK_TOKEN, DEFAULT_UNPARK_TOKEN};

const DONE_BIT: u8 = 1;
const POISON_BIT: u8 = 2;
const LOCKED_BIT: u8 = 4;
const PARKED_BIT: u8 = 8;

/// Current state of a `Once`.
#[derive(Copy, Clone, Eq, PartialEq, Debug)]
pub enum OnceState {
    /// A closure has not been executed yet
    New,

    /// A closure was executed but panicked.
    Poisoned,

    /// A thread is currently executing a closure.
    InProgress,

    /// A closure has completed successfully.
    Done,
}

impl OnceState {
    /// Returns whether the associated `Once` has been poisoned.
    ///
    /// Once an initialization routine for a `Once` has panicked it will forever
    /// indicate to future forced initialization routines that it is poisoned.
    #[inline]
    pub fn poisoned(self) -> bool {
        matches!(self, OnceState::Poisoned)
    }

    /// Returns whether the associated `Once` has successfully executed a
    /// closure.
    #[inline]
    pub fn done(self) -> bool {
        matches!(self, OnceState::Done)
    }
}

/// A synchronization primitive which can be used to run a one-time
/// initialization. Useful for one-time initialization for globals, FFI or
/// related functionality.
///
/// # Differences from the standard library `Once`
///
/// - Only requires 1 byte of space, instead of 1 word.
/// - Not required to be `'static`.
/// - Relaxed memory barriers in the fast path, which can significantly improve
///   performance on some architectures.
/// - Efficient handling of micro-contention using adaptive spinning.
///
/// # Examples
///
/// ```
/// use parking_lot::Once;
///
/// static START: Once = Once::new();
///
/// START.call_once(|| {
///     // run initialization here
/// });
/// ```
pub struct Once(AtomicU8);

impl Once {
    /// Creates a new `Once` value.
    #[inline]
    pub const fn new() -> Once {
        Once(AtomicU8::new(0))
    }

    /// Returns the current state of this `Once`.
    #[inline]
    pub fn state(&self) -> OnceState {
        let state = self.0.load(Ordering::Acquire);
        if state & DONE_BIT != 0 {
            OnceState::Done
        } else if state & LOCKED_BIT != 0 {
            OnceState::InProgress
        } else if state & POISON_BIT != 0 {
            OnceState::Poisoned
        } else {
            OnceState::New
        }
    }

    /// Performs an initialization routine once and only once. The given closure
    /// will be executed if this is the first time `call_once` has been called,
    /// and otherwise the routine will *not* be invoked.
    ///
    /// This method will block the calling thread if another initialization
    /// routine is currently running.
    ///
    /// When this function returns, it is guaranteed that some initialization
    /// has run and completed (it may not be the closure specified). It is also
    /// guaranteed that any memory writes performed by the executed closure can
    /// be reliably observed by other threads at this point (there is a
    /// happens-before relation between the closure and code executing after the
    /// return).
    ///
    /// # Examples
    ///
    /// ```
    /// use parking_lot::Once;
    ///
    /// static mut VAL: usize = 0;
    /// static INIT: Once = Once::new();
    ///
    /// // Accessing a `static mut` is unsafe much of the time, but if we do so
    /// // in a synchronized fashion (e.g. write once or read all) then we're
    /// // good to go!
    /// //
    /// // This function will only call `expensive_computation` once, and will
    /// // otherwise always return the value returned from the first invocation.
    /// fn get_cached_val() -> usize {
    ///     unsafe {
    ///         INIT.call_once(|| {
    ///             VAL = expensive_computation();
    ///         });
    ///         VAL
    ///     }
    /// }
    ///
    /// fn expensive_computation() -> usize {
    ///     // ...
    /// # 2
    /// }
    /// ```
    ///
    /// # Panics
    ///
    /// The closure `f` will only be executed once if this is called
    /// concurrently amongst many threads. If that closure panics, however, then
    /// it will *poison* this `Once` instance, causing all future invocations of
    /// `call_once` to also panic.
    #[inline]
    pub fn call_once<F>(&self, f: F)
    where
        F: FnOnce(),
    {
        if self.0.load(Ordering::Acquire) == DONE_BIT {
            return;
        }

        let mut f = Some(f);
        self.call_once_slow(false, &mut |_| unsafe { f.take().unchecked_unwrap()() });
    }

    /// Performs the same function as `call_once` except ignores poisoning.
    ///
    /// If this `Once` has been poisoned (some initialization panicked) then
    /// this function will continue to attempt to call initialization functions
    /// until one of them doesn't panic.
    ///
    /// The closure `f` is yielded a structure which can be used to query the
    /// state of this `Once` (whether initialization has previously panicked or
    /// not).
    #[inline]
    pub fn call_once_force<F>(&self, f: F)
    where
        F: FnOnce(OnceState),
    {
        if self.0.load(Ordering::Acquire) == DONE_BIT {
            return;
        }

        let mut f = Some(f);
        self.call_once_slow(true, &mut |state| unsafe {
            f.take().unchecked_unwrap()(state)
        });
    }

    // This is a non-generic function to reduce the monomorphization cost of
    // using `call_once` (this isn't exactly a trivial or small implementation).
    //
    // Additionally, this is tagged with `#[cold]` as it should indeed be cold
    // and it helps let LLVM know that calls to this function should be off the
    // fast path. Essentially, this should help generate more straight line code
    // in LLVM.
    //
    // Finally, this takes an `FnMut` instead of a `FnOnce` because there's
    // currently no way to take an `FnOnce` and call it via virtual dispatch
    // without some allocation overhead.
    #[cold]
    fn call_once_slow(&self, ignore_poison: bool, f: &mut dyn FnMut(OnceState)) {
        let mut spinwait = SpinWait::new();
        let mut state = self.0.load(Ordering::Relaxed);
        loop {
            // If another thread called the closure, we're done
            if state & DONE_BIT != 0 {
                // An acquire fence is needed here since we didn't load the
                // state with Ordering::Acquire.
                fence(Ordering::Acquire);
                return;
            }

            // If the state has been poisoned and we aren't forcing, then panic
            if state & POISON_BIT != 0 && !ignore_poison {
                // Need the fence here as well for the same reason
                fence(Ordering::Acquire);
                panic!("Once instance has previously been poisoned");
            }

            // Grab the lock if it isn't locked, even if there is a queue on it.
            // We also clear the poison bit since we are going to try running
            // the closure again.
            if state & LOCKED_BIT == 0 {
                match self.0.compare_exchange_weak(
                    state,
                    (state | LOCKED_BIT) & !POISON_BIT,
                    Ordering::Acquire,
                    Ordering::Relaxed,
                ) {
                    Ok(_) => break,
                    Err(x) => state = x,
                }
                continue;
            }

            // If there is no queue, try spinning a few times
            if state & PARKED_BIT == 0 && spinwait.spin() {
                state = self.0.load(Ordering::Relaxed);
                continue;
            }

            // Set the parked bit
            if state & PARKED_BIT == 0 {
                if let Err(x) = self.0.compare_exchange_weak(
                    state,
                    state | PARKED_BIT,
                    Ordering::Relaxed,
                    Ordering::Relaxed,
                ) {
                    state = x;
                    continue;
                }
            }

            // Park our thread until we are woken up by the thread that owns the
            // lock.
            let addr = self as *const _ as usize;
            let validate = || self.0.load(Ordering::Relaxed) == LOCKED_BIT | PARKED_BIT;
            let before_sleep = || {};
            let timed_out = |_, _| unreachable!();
            unsafe {
                parking_lot_core::park(
                    addr,
                    validate,
                    before_sleep,
                    timed_out,
                    DEFAULT_PARK_TOKEN,
                    None,
                );
            }

            // Loop back and check if the done bit was set
            spinwait.reset();
            state = self.0.load(Ordering::Relaxed);
        }

        struct PanicGuard<'a>(&'a Once);
        impl<'a> Drop for PanicGuard<'a> {
            fn drop(&mut self) {
                // Mark the state as poisoned, unlock it and unpark all threads.
                let once = self.0;
                let state = once.0.swap(POISON_BIT, Ordering::Release);
                if state & PARKED_BIT != 0 {
                    let addr = once as *const _ as usize;
                    unsafe {
                        parking_lot_core::unpark_all(addr, DEFAULT_UNPARK_TOKEN);
                    }
                }
            }
        }

        // At this point we have the lock, so run the closure. Make sure we
        // properly clean up if the closure panicks.
        let guard = PanicGuard(self);
        let once_state = if state & POISON_BIT != 0 {
            OnceState::Poisoned
        } else {
            OnceState::New
        };
        f(once_state);
        mem::forget(guard);

        // Now unlock the state, set the done bit and unpark all threads
        let state = self.0.swap(DONE_BIT, Ordering::Release);
        if state & PARKED_BIT != 0 {
            let addr = self as *const _ as usize;
            unsafe {
                parking_lot_core::unpark_all(addr, DEFAULT_UNPARK_TOKEN);
            }
        }
    }
}

impl Default for Once {
    #[inline]
    fn default() -> Once {
        Once::new()
    }
}

impl fmt::Debug for Once {
    fn fmt(&self, f: &mut fmt::Formatter<'_>) -> fmt::Result {
        f.debug_struct("Once")
            .field("state", &self.state())
            .finish()
    }
}

#[cfg(test)]
mod tests {
    use crate::Once;
    use std::panic;
    use std::sync::mpsc::channel;
    use std::thread;

    #[test]
    fn smoke_once() {
        static O: Once = Once::new();
        let mut a = 0;
        O.call_once(|| a += 1);
        assert_eq!(a, 1);
        O.call_once(|| a += 1);
        assert_eq!(a, 1);
    }

    #[test]
    fn stampede_once() {
        static O: Once = Once::new();
        static mut RUN: bool = false;

        let (tx, rx) = channel();
        for _ in 0..10 {
            let tx = tx.clone();
            thread::spawn(move || {
                for _ in 0..4 {
                    thread::yield_now()
                }
                unsafe {
                    O.call_once(|| {
                        assert!(!RUN);
                        RUN = true;
                    });
                    assert!(RUN);
                }
                tx.send(()).unwrap();
            });
        }

        unsafe {
            O.call_once(|| {
                assert!(!RUN);
                RUN = true;
            });
            assert!(RUN);
        }

        for _ in 0..10 {
            rx.recv().unwrap();
        }
    }

    #[test]
    fn poison_bad() {
        static O: Once = Once::new();

        // poison the once
        let t = panic::catch_unwind(|| {
            O.call_once(|| panic!());
        });
        assert!(t.is_err());

        // poisoning propagates
        let t = panic::catch_unwind(|| {
            O.call_once(|| {});
        });
        assert!(t.is_err());

        // we can subvert poisoning, however
        let mut called = false;
        O.call_once_force(|p| {
            called = true;
            assert!(p.poisoned())
        });
        assert!(called);

        // once any success happens, we stop propagating the poison
        O.call_once(|| {});
    }

    #[test]
    fn wait_for_force_to_finish() {
        static O: Once = Once::new();

        // poison the once
        let t = panic::catch_unwind(|| {
            O.call_once(|| panic!());
        });
        assert!(t.is_err());

        // make sure someone's waiting inside the once via a force
        let (tx1, rx1) = channel();
        let (tx2, rx2) = channel();
        let t1 = thread::spawn(move || {
            O.call_once_force(|p| {
                assert!(p.poisoned());
                tx1.send(()).unwrap();
                rx2.recv().unwrap();
            });
        });

        rx1.recv().unwrap();

        // put another waiter on the once
        let t2 = thread::spawn(|| {
            let mut called = false;
            O.call_once(|| {
                called = true;
            });
            assert!(!called);
        });

        tx2.send(()).unwrap();

        assert!(t1.join().is_ok());
        assert!(t2.join().is_ok());
    }

    #[test]
    fn test_once_debug() {
        static O: Once = Once::new();

        assert_eq!(format!("{:?}", O), "Once { state: New }");
    }
}
