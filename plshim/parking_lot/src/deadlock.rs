//! \[Experimental\] Deadlock detection
//!
//! This feature is optional and can be enabled via the `deadlock_detection` feature flag.
//!
//! # Example
//!
//! ```
//! #[cfg(feature = "deadlock_detection")]
//! { // only for #[cfg]
//! use std::thread;
//! use std::time::Duration;
//! use parking_lot::deadlock;
//!
//! // Create a background thread which checks for deadlocks every 10s
//! thread::spawn(move || {
//!     loop {
//!         thread::sleep(Duration::from_secs(10));
//!         let deadlocks = deadlock::check_deadlock();
//!         if deadlocks.is_empty() {
//!             continue;
//!         }
//!
//!         println!("{} deadlocks detected", deadlocks.len());
//!         for (i, threads) in deadlocks.iter().enumerate() {
//!             println!("Deadlock #{}", i);
//!             for t in threads {
//!                 println!("Thread Id {:#?}", t.thread_id());
//!                 println!("{:#?}", t.backtrace());
//!             }
//!         }
//!     }
//! });
//! } // only for #[cfg]
//! ```

#[cfg(feature = "deadlock_detection")]
pub use parking_lot_core::deadlock::check_deadlock;
pub(crate) use parking_lot_core::deadlock::{acquire_resource, release_resource};

#[cfg(test)]
#[cfg(feature = "deadlock_detection")]
mod tests {
    use crate::{Mutex, ReentrantMutex, RwLock};
    use std::sync::{Arc, Barrier};
    use std::thread::{self, sleep};
    use std::time::Duration;

    // We need to serialize these tests since deadlock detection uses global state
    static DEADLOCK_DETECTION_LOCK: Mutex<()> = crate::const_mutex(());

    fn check_deadlock() -> bool {
        use parking_lot_core::deadlock::check_deadlock;
        !check_deadlock().is_empty()
    }

    #[test]
    fn test_mutex_deadlock() {
        let _guard = DEADLOCK_DETECTION_LOCK.lock();

        let m1: Arc<Mutex<()>> = Default::default();
        let m2: Arc<Mutex<()>> = Default::default();
        let m3: Arc<Mutex<()>> = Default::default();
        let b = Arc::new(Barrier::new(4));

        let m1_ = m1.clone();
        let m2_ = m2.clone();
        let m3_ = m3.clone();
        let b1 = b.clone();
        let b2 = b.clone();
        let b3 = b.clone();

        assert!(!check_deadlock());

        let _t1 = thread::spawn(move || {
            let _g = m1.lock();
            b1.wait();
            let _ = m2_.lock();
        });

        let _t2 = thread::spawn(move || {
            let _g = m2.lock();
            b2.wait();
            let _ = m3_.lock();
        });

        let _t3 = thread::spawn(move || {
            let _g = m3.lock();
            b3.wait();
            let _ = m1_.lock();
        });

        assert!(!check_deadlock());

        b.wait();
        sleep(Duration::from_millis(50));
        assert!(check_deadlock());

        assert!(!check_deadlock());
    }

    #[test]
    fn test_mutex_deadlock_reentrant() {
        let _guard = DEADLOCK_DETECTION_LOCK.lock();

        let m1: Arc<Mutex<()>> = Default::default();

        assert!(!check_deadlock());

        let _t1 = thread::spawn(move || {
            let _g = m1.lock();
            let _ = m1.lock();
        });

        sleep(Duration::from_millis(50));
        assert!(check_deadlock());

        assert!(!check_deadlock());
    }

    #[test]
    fn test_remutex_deadlock() {
        let _guard = DEADLOCK_DETECTION_LOCK.lock();

        let m1: Arc<ReentrantMutex<()>> = Default::default();
        let m2: Arc<ReentrantMutex<()>> = Default::default();
        let m3: Arc<ReentrantMutex<()>> = Default::default();
        let b = Arc::new(Barrier::new(4));

        let m1_ = m1.clone();
        let m2_ = m2.clone();
        let m3_ = m3.clone();
        let b1 = b.clone();
        let b2 = b.clone();
        let b3 = b.clone();

        assert!(!check_deadlock());

        let _t1 = thread::spawn(move || {
            let _g = m1.lock();
            let _g = m1.lock();
            b1.wait();
            let _ = m2_.lock();
        });

        let _t2 = thread::spawn(move || {
            let _g = m2.lock();
            let _g = m2.lock();
            b2.wait();
            let _ = m3_.lock();
        });

        let _t3 = thread::spawn(move || {
            let _g = m3.lock();
            let _g = m3.lock();
            b3.wait();
            let _ = m1_.lock();
        });

        assert!(!check_deadlock());

        b.wait();
        sleep(Duration::from_millis(50));
        assert!(check_deadlock());

        assert!(!check_deadlock());
    }

    #[test]
    fn test_rwlock_deadlock() {
        let _guard = DEADLOCK_DETECTION_LOCK.lock();

        let m1: Arc<RwLock<()>> = Default::default();
        let m2: Arc<RwLock<()>> = Default::default();
        let m3: Arc<RwLock<()>> = Default::default();
        let b = Arc::new(Barrier::new(4));

        let m1_ = m1.clone();
        let m2_ = m2.clone();
        let m3_ = m3.clone();
        let b1 = b.clone();
        let b2 = b.clone();
        let b3 = b.clone();

        assert!(!check_deadlock());

        let _t1 = thread::spawn(move || {
            let _g = m1.read();
            b1.wait();
            let _g = m2_.write();
        });

        let _t2 = thread::spawn(move || {
            let _g = m2.read();
            b2.wait();
            let _g = m3_.write();
        });

        let _t3 = thread::spawn(move || {
            let _g = m3.read();
            b3.wait();
            let _ = m1_.write();
        });

        assert!(!check_deadlock());

        b.wait();
        sleep(Duration::from_millis(50));
        assert!(check_deadlock());

        assert!(!check_deadlock());
    }

    #[cfg(rwlock_deadlock_detection_not_supported)]
    #[test]
    fn test_rwlock_deadlock_reentrant() {
        let _guard = DEADLOCK_DETECTION_LOCK.lock();

        let m1: Arc<RwLock<()>> = Default::default();

        assert!(!check_deadlock());

        let _t1 = thread::spawn(move || {
            let _g = m1.read();
            let _ = m1.write();
        });

        sleep(Duration::from_millis(50));
        assert!(check_deadlock());

        assert!(!check_deadlock());
    }
}
