// Copyright 2016 Amanieu d'Antras
//
// Licensed under the Apache License, Version 2.0, <LICENSE-APACHE or
// http://apache.org/licenses/LICENSE-2.0> or the MIT license <LICENSE-MIT or
// http://opensource.org/licenses/MIT>, at your option. This file may not be
// copied, modified, or distributed except according to those terms.

use crate::raw_mutex::RawMutex;
use lock_api::RawMutexFair;

/// Raw fair mutex type backed by the parking lot.
pub struct RawFairMutex(RawMutex);

unsafe impl lock_api::RawMutex for RawFairMutex {
    const INIT: Self = RawFairMutex(<RawMutex as lock_api::RawMutex>::INIT);

    type GuardMarker = <RawMutex as lock_api::RawMutex>::GuardMarker;

    #[inline]
    fn lock(&self) {
        self.0.lock()
    }

    #[inline]
    fn try_lock(&self) -> bool {
        self.0.try_lock()
    }

    #[inline]
    unsafe fn unlock(&self) {
        self.unlock_fair()
    }

    #[inline]
    fn is_locked(&self) -> bool {
        self.0.is_locked()
    }
}

unsafe impl lock_api::RawMutexFair for RawFairMutex {
    #[inline]
    unsafe fn unlock_fair(&self) {
        self.0.unlock_fair()
    }

    #[inline]
    unsafe fn bump(&self) {
        self.0.bump()
    }
}

unsafe impl lock_api::RawMutexTimed for RawFairMutex {
    type Duration = <RawMutex as lock_api::RawMutexTimed>::Duration;
    type Instant = <RawMutex as lock_api::RawMutexTimed>::Instant;

    #[inline]
    fn try_lock_until(&self, timeout: Self::Instant) -> bool {
        self.0.try_lock_until(timeout)
    }

    #[inline]
    fn try_lock_for(&self, timeout: Self::Duration) -> bool {
        self.0.try_lock_for(timeout)
    }
}
