// Copies engine/src/simd.rs from the working tree (leading `//!` lines stripped) so that the
// fuzz target can include! it and call each private kernel (scalar, SSE2, AVX2, AVX-512) directly.
use std::io::Write;
fn main() {
    let src = "/repo/engine/src/simd.rs";
    println!("cargo:rerun-if-changed={}", src);
    let text = std::fs::read_to_string(src).expect("read simd.rs");
    let mut out = String::new();
    let mut head = true;
    for line in text.lines() {
        if head && (line.starts_with("//!") || line.trim().is_empty()) {
            continue;
        }
        head = false;
        out.push_str(line);
        out.push('\n');
    }
    let dir = std::env::var("OUT_DIR").unwrap();
    let mut f = std::fs::File::create(format!("{}/simd_src.rs", dir)).unwrap();
    f.write_all(out.as_bytes()).unwrap();
}
