#![no_main]
//! C17 — index insert/search sequences under AddressSanitizer.
//! bytes -> (dimension 1..130 boundary-biased, M 4..64, ef_construction, capacity 1..4096,
//! metric, normalisation check on/off) + up to 48 operations: add (fresh / duplicate vector,
//! fresh / duplicate id), parallel batch insert, search (k, ef 1..10,000 boundary-biased),
//! search cancelled before the start, search cancelled by a helper thread, two concurrent
//! readers.  Oracle: AddressSanitizer (out-of-bounds, use-after-free) plus result validity:
//! at most k results, only ids that were added, ascending finite-or-equal distances.
use arbitrary::Unstructured;
use kyrodb_engine::hnsw_index::HnswVectorIndex;
use kyrodb_engine::config::DistanceMetric;
use libfuzzer_sys::fuzz_target;
use std::sync::atomic::{AtomicBool, Ordering};

#[path = "common.rs"]
mod common;
use common::*;

const DIMS: &[usize] = &[1, 2, 3, 4, 5, 7, 8, 9, 15, 16, 17, 24, 31, 32, 33, 48, 63, 64, 65, 96, 127, 128, 129, 130];
const KS: &[usize] = &[1, 2, 3, 10, 64, 100, 1000, 9999, 10_000];
const EFS: &[usize] = &[1, 2, 8, 16, 100, 1000, 10_000];
const CAPS: &[usize] = &[1, 2, 3, 4, 8, 16, 33, 64, 200, 4096];

fn vec_from(u: &mut Unstructured, dim: usize, normalise: bool) -> Vec<f32> {
    let style = u.int_in_range(0u8..=5).unwrap_or(0);
    let mut v: Vec<f32> = (0..dim)
        .map(|i| match style {
            0 => (u.arbitrary::<i8>().unwrap_or(1) as f32) / 16.0,
            1 => if i == 0 { 1.0 } else { 0.0 },
            2 => 1.0,
            3 => (i as f32 * 0.37).sin(),
            4 => (u.arbitrary::<i16>().unwrap_or(3) as f32) * 1e-3,
            _ => if i % 2 == 0 { 1e18 } else { -1e-18 },
        })
        .collect();
    if normalise {
        let n = v.iter().map(|x| (*x as f64) * (*x as f64)).sum::<f64>().sqrt();
        if n > 0.0 && n.is_finite() {
            for x in v.iter_mut() {
                *x = (*x as f64 / n) as f32;
            }
        }
    }
    v
}

fn check_results(what: &str, res: &[kyrodb_engine::hnsw_index::SearchResult], k: usize, added: &std::collections::HashSet<u64>) {
    if res.len() > k {
        oracle_failure(&format!("{}: {} results for k={}", what, res.len(), k));
    }
    let mut last = f32::NEG_INFINITY;
    for r in res {
        if !added.contains(&r.doc_id) {
            oracle_failure(&format!("{}: result id {} was never added", what, r.doc_id));
        }
        if r.distance.is_nan() {
            continue;
        }
        if r.distance < last && (last - r.distance) > 1e-3 * (1.0 + last.abs()) {
            oracle_failure(&format!("{}: distances not ascending: {} after {}", what, r.distance, last));
        }
        last = last.max(r.distance);
    }
}

/// One persistent helper thread per process: `arm(n)` returns once the helper is spinning on the
/// go flag and has been released; it raises CANCEL_FLAG after `n` spins.  No thread is created
/// per attempt (thread creation under ASan is slow and made the campaign time out).
static CANCEL_FLAG: AtomicBool = AtomicBool::new(false);
static CANCEL_SPINS: std::sync::atomic::AtomicU32 = std::sync::atomic::AtomicU32::new(0);
static CANCEL_STATE: std::sync::atomic::AtomicU32 = std::sync::atomic::AtomicU32::new(0); // 0 idle, 1 requested, 2 armed, 3 go, 4 done
struct Canceller {
    thread: std::thread::Thread,
}
impl Canceller {
    fn arm(&self, spins: u32) {
        CANCEL_FLAG.store(false, Ordering::Release);
        CANCEL_SPINS.store(spins, Ordering::Release);
        CANCEL_STATE.store(1, Ordering::Release);
        self.thread.unpark();
        while CANCEL_STATE.load(Ordering::Acquire) != 2 {
            std::thread::yield_now();
        }
        CANCEL_STATE.store(3, Ordering::Release);
    }
    fn wait_done(&self) {
        while CANCEL_STATE.load(Ordering::Acquire) != 4 {
            std::thread::yield_now();
        }
        CANCEL_STATE.store(0, Ordering::Release);
    }
}
fn canceller() -> &'static Canceller {
    static CELL: std::sync::OnceLock<Canceller> = std::sync::OnceLock::new();
    CELL.get_or_init(|| {
        let h = std::thread::spawn(|| loop {
            while CANCEL_STATE.load(Ordering::Acquire) != 1 {
                std::thread::park_timeout(std::time::Duration::from_millis(50));
            }
            let spins = CANCEL_SPINS.load(Ordering::Acquire);
            CANCEL_STATE.store(2, Ordering::Release);
            while CANCEL_STATE.load(Ordering::Acquire) != 3 {
                std::hint::spin_loop();
            }
            for _ in 0..spins {
                std::hint::spin_loop();
            }
            CANCEL_FLAG.store(true, Ordering::Release);
            CANCEL_STATE.store(4, Ordering::Release);
        });
        Canceller { thread: h.thread().clone() }
    })
}

fuzz_target!(|data: &[u8]| {
    once_init();
    ITER.fetch_add(1, Ordering::Relaxed);
    let mut u = Unstructured::new(data);
    let dim = DIMS[u.int_in_range(0..=DIMS.len() - 1).unwrap_or(0)];
    let m = u.int_in_range(4usize..=64).unwrap_or(16);
    let efc = *u.choose(&[1usize, 2, 8, 40, 200]).unwrap_or(&40);
    let cap = CAPS[u.int_in_range(0..=CAPS.len() - 1).unwrap_or(3)];
    let metric = *u.choose(&[DistanceMetric::Euclidean, DistanceMetric::Cosine, DistanceMetric::InnerProduct]).unwrap_or(&DistanceMetric::Euclidean);
    let no_check = u.ratio(1u8, 4u8).unwrap_or(false);
    let normalise = metric != DistanceMetric::Euclidean && !(no_check && u.ratio(1u8, 2u8).unwrap_or(false));
    let Ok(mut index) = HnswVectorIndex::new_with_params(dim, cap, metric, m, efc, no_check) else { return };
    let mut pool: Vec<Vec<f32>> = vec![];
    let mut added: std::collections::HashSet<u64> = Default::default();
    let mut searches_on_populated = 0u32;
    let nops = u.int_in_range(1usize..=48).unwrap_or(8);
    let body = std::panic::catch_unwind(std::panic::AssertUnwindSafe(|| {
        for _ in 0..nops {
            if u.is_empty() {
                break;
            }
            match u.int_in_range(0u8..=11).unwrap_or(0) {
                0..=3 => {
                    // add: duplicate vector with probability 1/3, duplicate id with probability 1/4
                    let v = if !pool.is_empty() && u.ratio(1u8, 3u8).unwrap_or(false) { pool[u.int_in_range(0..=pool.len() - 1).unwrap_or(0)].clone() } else { vec_from(&mut u, dim, normalise) };
                    let id = if u.ratio(1u8, 4u8).unwrap_or(false) { u.int_in_range(0u64..=3).unwrap_or(0) } else { u.int_in_range(0u64..=5000).unwrap_or(7) };
                    C[0].fetch_add(1, Ordering::Relaxed);
                    if index.add_vector(id, &v).is_ok() {
                        added.insert(id);
                        pool.push(v);
                    }
                }
                4 => {
                    // parallel batch insert with internal ids continuing the count
                    let n = u.int_in_range(1usize..=12).unwrap_or(2);
                    let vs: Vec<Vec<f32>> = (0..n).map(|_| vec_from(&mut u, dim, normalise)).collect();
                    let base = index.len();
                    let items: Vec<(&[f32], usize)> = vs.iter().enumerate().map(|(i, v)| (v.as_slice(), base + i)).collect();
                    C[1].fetch_add(1, Ordering::Relaxed);
                    if index.parallel_insert_batch(&items).is_ok() {
                        for i in 0..n {
                            added.insert((base + i) as u64);
                        }
                        pool.extend(vs);
                    }
                }
                5..=7 => {
                    let q = if !pool.is_empty() && u.ratio(1u8, 2u8).unwrap_or(false) { pool[u.int_in_range(0..=pool.len() - 1).unwrap_or(0)].clone() } else { vec_from(&mut u, dim, normalise) };
                    let k = KS[u.int_in_range(0..=KS.len() - 1).unwrap_or(0)];
                    let ef = if u.ratio(1u8, 3u8).unwrap_or(false) { None } else { Some(EFS[u.int_in_range(0..=EFS.len() - 1).unwrap_or(0)]) };
                    C[2].fetch_add(1, Ordering::Relaxed);
                    if index.len() >= 2 {
                        searches_on_populated += 1;
                    }
                    if let Ok(res) = index.knn_search_with_ef(&q, k, ef) {
                        check_results("search", &res, k, &added);
                    }
                }
                8 => {
                    // cancellation: before the start, or by a helper thread after a short spin
                    let q = vec_from(&mut u, dim, normalise);
                    let k = KS[u.int_in_range(0..=KS.len() - 1).unwrap_or(0)];
                    let flag = AtomicBool::new(false);
                    let spins = u.int_in_range(0u32..=4000).unwrap_or(0);
                    C[3].fetch_add(1, Ordering::Relaxed);
                    if spins == 0 {
                        flag.store(true, Ordering::Release);
                        if let Ok(res) = index.knn_search_with_ef_cancel(&q, k, Some(10_000), Some(&flag)) {
                            check_results("cancelled search", &res, k, &added);
                        }
                    } else {
                        std::thread::scope(|s| {
                            s.spawn(|| {
                                for _ in 0..spins {
                                    std::hint::spin_loop();
                                }
                                flag.store(true, Ordering::Release);
                            });
                            if let Ok(res) = index.knn_search_with_ef_cancel(&q, k, Some(10_000), Some(&flag)) {
                                check_results("cancelled search", &res, k, &added);
                            }
                        });
                    }
                    // the next search on this thread must still be valid
                    if let Ok(res) = index.knn_search_with_ef(&q, 3, None) {
                        check_results("search after cancellation", &res, 3, &added);
                    }
                }
                10 | 11 => {
                    // cancellation IN FLIGHT: the helper is already running and released by a go
                    // flag right before the search starts, then raises the cancel flag after a
                    // swept number of spins (four attempts, delay doubling); afterwards the same
                    // thread searches a SECOND, two-vector index (thread-local scratch left
                    // behind by the cancelled search must not be trusted on a smaller graph)
                    let q = vec_from(&mut u, dim, normalise);
                    let base_spins = u.int_in_range(1u32..=600).unwrap_or(40);
                    let live = index.len().min(10);
                    for attempt in 0..4u32 {
                        let spins = base_spins << attempt;
                        canceller().arm(spins);
                        if let Ok(res) = index.knn_search_with_ef_cancel(&q, 10, Some(10_000), Some(&CANCEL_FLAG)) {
                            check_results("search cancelled in flight", &res, 10, &added);
                            if res.len() < live {
                                C[7].fetch_add(1, Ordering::Relaxed);
                            }
                        }
                        canceller().wait_done();
                    }
                    C[6].fetch_add(1, Ordering::Relaxed);
                    if let Ok(mut tiny) = HnswVectorIndex::new_with_params(dim, 4, metric, 4, 8, no_check) {
                        let a = vec_from(&mut u, dim, normalise);
                        let mut tiny_added: std::collections::HashSet<u64> = Default::default();
                        if tiny.add_vector(7, &a).is_ok() {
                            tiny_added.insert(7);
                        }
                        if tiny.add_vector(8, &q).is_ok() {
                            tiny_added.insert(8);
                        }
                        if let Ok(res) = tiny.knn_search_with_ef(&q, 3, None) {
                            check_results("search on a second tiny index after an in-flight cancellation", &res, 3, &tiny_added);
                        }
                    }
                }
                _ => {
                    // two concurrent readers
                    let q1 = vec_from(&mut u, dim, normalise);
                    let q2 = vec_from(&mut u, dim, normalise);
                    let k = KS[u.int_in_range(0..=KS.len() - 1).unwrap_or(0)];
                    C[4].fetch_add(1, Ordering::Relaxed);
                    let idx = &index;
                    let added_ref = &added;
                    std::thread::scope(|s| {
                        s.spawn(move || {
                            for _ in 0..3 {
                                if let Ok(res) = idx.knn_search_with_ef(&q1, k, Some(64)) {
                                    check_results("concurrent reader 1", &res, k, added_ref);
                                }
                            }
                        });
                        for _ in 0..3 {
                            if let Ok(res) = idx.knn_search_with_ef(&q2, k, None) {
                                check_results("concurrent reader 2", &res, k, added_ref);
                            }
                        }
                    });
                }
            }
        }
    }));
    if body.is_err() {
        C[5].fetch_add(1, Ordering::Relaxed); // panics inside the engine (not UB): counted
    }
    if searches_on_populated > 0 {
        note_nontrivial(data, || format!("dim={} m={} efc={} cap={} metric={:?} vectors={} searches_on_populated={}", dim, m, efc, cap, metric, index.len(), searches_on_populated));
    }
});
