#![no_main]
//! C17 — every vector kernel (scalar, SSE2, AVX2, AVX-512 where the CPU has it) called
//! directly on slices of every length 0..=130 (+ a few long ones) at generated offsets inside
//! a larger allocation, under AddressSanitizer; results compared with an f64 reference.
use arbitrary::Unstructured;
use libfuzzer_sys::fuzz_target;
use std::sync::atomic::Ordering;

#[path = "common.rs"]
mod common;
use common::*;

#[allow(dead_code, unused_imports, clippy::all)]
mod simd_src {
    include!(concat!(env!("OUT_DIR"), "/simd_src.rs"));

    pub mod verif {
        use super::*;
        pub type Bin = (&'static str, fn(&[f32], &[f32]) -> f32);
        pub type Un = (&'static str, fn(&[f32]) -> f32);
        pub type Dn = (&'static str, fn(&[f32], &[f32]) -> (f32, f32, f32));
        pub fn dots() -> Vec<Bin> {
            let mut v: Vec<Bin> = vec![("scalar", dot_f32_scalar_entry)];
            if std::is_x86_feature_detected!("sse2") {
                v.push(("sse2", dot_f32_sse2_entry));
            }
            if std::is_x86_feature_detected!("avx2") && std::is_x86_feature_detected!("fma") {
                v.push(("avx2", dot_f32_avx2_entry));
            }
            if std::is_x86_feature_detected!("avx512f") && std::is_x86_feature_detected!("fma") {
                v.push(("avx512", dot_f32_avx512_entry));
            }
            v
        }
        pub fn l2s() -> Vec<Bin> {
            let mut v: Vec<Bin> = vec![("scalar", l2_distance_sq_f32_scalar_entry)];
            if std::is_x86_feature_detected!("sse2") {
                v.push(("sse2", l2_distance_sq_f32_sse2_entry));
            }
            if std::is_x86_feature_detected!("avx2") && std::is_x86_feature_detected!("fma") {
                v.push(("avx2", l2_distance_sq_f32_avx2_entry));
            }
            if std::is_x86_feature_detected!("avx512f") && std::is_x86_feature_detected!("fma") {
                v.push(("avx512", l2_distance_sq_f32_avx512_entry));
            }
            v
        }
        pub fn sums() -> Vec<Un> {
            let mut v: Vec<Un> = vec![("scalar", sum_squares_f32_scalar_entry)];
            if std::is_x86_feature_detected!("sse2") {
                v.push(("sse2", sum_squares_f32_sse2_entry));
            }
            if std::is_x86_feature_detected!("avx2") && std::is_x86_feature_detected!("fma") {
                v.push(("avx2", sum_squares_f32_avx2_entry));
            }
            if std::is_x86_feature_detected!("avx512f") && std::is_x86_feature_detected!("fma") {
                v.push(("avx512", sum_squares_f32_avx512_entry));
            }
            v
        }
        pub fn dns() -> Vec<Dn> {
            let mut v: Vec<Dn> = vec![("scalar", dot_and_norms_f32_scalar_entry)];
            if std::is_x86_feature_detected!("sse2") {
                v.push(("sse2", dot_and_norms_f32_sse2_entry));
            }
            if std::is_x86_feature_detected!("avx2") && std::is_x86_feature_detected!("fma") {
                v.push(("avx2", dot_and_norms_f32_avx2_entry));
            }
            if std::is_x86_feature_detected!("avx512f") && std::is_x86_feature_detected!("fma") {
                v.push(("avx512", dot_and_norms_f32_avx512_entry));
            }
            v
        }
        pub fn public(a: &[f32], b: &[f32]) -> (f32, f32, f32, f32) {
            (dot_f32(a, b), l2_distance_sq_f32(a, b), sum_squares_f32(a), cosine_similarity_f32(a, b))
        }
    }
}

fn close(got: f32, want: f64, scale: f64) -> bool {
    if !want.is_finite() || !got.is_finite() {
        return true; // overflow to inf / NaN propagation is not a bounds matter
    }
    (got as f64 - want).abs() <= 1e-3 * scale + 1e-6
}

fuzz_target!(|data: &[u8]| {
    once_init();
    ITER.fetch_add(1, Ordering::Relaxed);
    let mut u = Unstructured::new(data);
    let len = match u.int_in_range(0u8..=9).unwrap_or(0) {
        0 => *u.choose(&[255usize, 256, 257, 511, 513, 1023, 1025, 4095, 4096]).unwrap_or(&257),
        _ => u.int_in_range(0usize..=130).unwrap_or(5),
    };
    // slices start at generated offsets inside exact-size heap allocations so that ASan's red
    // zones sit right behind the last lane
    let off_a = u.int_in_range(0usize..=3).unwrap_or(0);
    let off_b = u.int_in_range(0usize..=3).unwrap_or(0);
    let style = u.int_in_range(0u8..=3).unwrap_or(0);
    let mut gen = |n: usize| -> Vec<f32> {
        (0..n)
            .map(|i| match style {
                0 => (u.arbitrary::<i8>().unwrap_or(1) as f32) / 8.0,
                1 => (i as f32 * 0.71).cos(),
                2 => (u.arbitrary::<i16>().unwrap_or(2) as f32) * 1e-2,
                _ => if i % 3 == 0 { 1e15 } else { 1e-15 },
            })
            .collect()
    };
    let va = gen(len + off_a);
    let vb = gen(len + off_b);
    let a = &va[off_a..];
    let b = &vb[off_b..];
    let (mut dot, mut l2, mut sa, mut sb, mut abs) = (0f64, 0f64, 0f64, 0f64, 0f64);
    for i in 0..len {
        dot += a[i] as f64 * b[i] as f64;
        abs += (a[i] as f64 * b[i] as f64).abs();
        l2 += (a[i] as f64 - b[i] as f64).powi(2);
        sa += (a[i] as f64).powi(2);
        sb += (b[i] as f64).powi(2);
    }
    let body = std::panic::catch_unwind(|| {
        if len > 0 {
            for (name, f) in simd_src::verif::dots() {
                let g = f(a, b);
                if !close(g, dot, abs) {
                    oracle_failure(&format!("dot[{}] len {}: {} vs reference {}", name, len, g, dot));
                }
            }
            for (name, f) in simd_src::verif::l2s() {
                let g = f(a, b);
                if !close(g, l2, l2) {
                    oracle_failure(&format!("l2_sq[{}] len {}: {} vs reference {}", name, len, g, l2));
                }
            }
            for (name, f) in simd_src::verif::sums() {
                let g = f(a);
                if !close(g, sa, sa) {
                    oracle_failure(&format!("sum_squares[{}] len {}: {} vs reference {}", name, len, g, sa));
                }
            }
            for (name, f) in simd_src::verif::dns() {
                let (d, x, y) = f(a, b);
                if !close(d, dot, abs) || !close(x, sa, sa) || !close(y, sb, sb) {
                    oracle_failure(&format!("dot_and_norms[{}] len {}: ({}, {}, {}) vs reference ({}, {}, {})", name, len, d, x, y, dot, sa, sb));
                }
            }
        }
        let (d, l, s, _c) = simd_src::verif::public(a, b);
        if !close(d, dot, abs) || !close(l, l2, l2) || !close(s, sa, sa) {
            oracle_failure(&format!("public entry points len {}: ({}, {}, {}) vs ({}, {}, {})", len, d, l, s, dot, l2, sa));
        }
    });
    if body.is_err() {
        C[5].fetch_add(1, Ordering::Relaxed);
    }
    C[0].fetch_add((len % 16 != 0) as u64, Ordering::Relaxed);
    if len >= 1 {
        note_nontrivial(data, || format!("len={} off_a={} off_b={} style={}", len, off_a, off_b, style));
    }
});
