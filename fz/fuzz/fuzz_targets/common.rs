// Shared by the targets: counters dumped to $KVFZ_STATS at process exit.
use std::sync::atomic::{AtomicU64, Ordering};

pub static ITER: AtomicU64 = AtomicU64::new(0);
pub static NONTRIVIAL: AtomicU64 = AtomicU64::new(0);
pub static C: [AtomicU64; 12] = [const { AtomicU64::new(0) }; 12];
pub static SAMPLE: std::sync::Mutex<Vec<String>> = std::sync::Mutex::new(Vec::new());
pub static HASHES: std::sync::Mutex<Option<std::collections::HashSet<u64>>> = std::sync::Mutex::new(None);

extern "C" fn dump() {
    if let Ok(p) = std::env::var("KVFZ_STATS").map(|p| format!("{}.{}", p, std::process::id())) {
        let names = std::env::var("KVFZ_NAMES").unwrap_or_default();
        let mut s = format!("iterations={}\nnontrivial={}\n", ITER.load(Ordering::Relaxed), NONTRIVIAL.load(Ordering::Relaxed));
        let distinct = HASHES.lock().map(|h| h.as_ref().map_or(0, |x| x.len())).unwrap_or(0);
        s.push_str(&format!("distinct_nontrivial={}\n", distinct));
        for (i, c) in C.iter().enumerate() {
            s.push_str(&format!("c{}={}\n", i, c.load(Ordering::Relaxed)));
        }
        let _ = names;
        if let Ok(v) = SAMPLE.lock() {
            for x in v.iter() {
                s.push_str(&format!("sample={}\n", x));
            }
        }
        let _ = std::fs::write(p, s);
    }
}

pub fn once_init() {
    static ONCE: std::sync::Once = std::sync::Once::new();
    ONCE.call_once(|| unsafe {
        libc::atexit(dump);
        // a panic inside the code under test is counted (it is not undefined behaviour); only
        // sanitizer reports and the target's own oracle failures abort the run
        std::panic::set_hook(Box::new(|_| {}));
    });
}

pub fn note_nontrivial(bytes: &[u8], sample: impl FnOnce() -> String) {
    NONTRIVIAL.fetch_add(1, Ordering::Relaxed);
    let mut h: u64 = 0xcbf29ce484222325;
    for b in bytes {
        h ^= *b as u64;
        h = h.wrapping_mul(0x100000001b3);
    }
    if let Ok(mut g) = HASHES.lock() {
        g.get_or_insert_with(Default::default).insert(h);
    }
    if let Ok(mut v) = SAMPLE.lock() {
        if v.len() < 5 {
            v.push(sample());
        }
    }
}

/// The target's own oracle failed: make libFuzzer save the input.
pub fn oracle_failure(msg: &str) -> ! {
    eprintln!("KVFZ-ORACLE-FAILURE: {}", msg);
    std::process::abort();
}
