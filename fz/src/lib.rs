// placeholder: cargo-fuzz wants a parent package
